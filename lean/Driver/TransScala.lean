import Driver.Util
open Lean
namespace Driver.TransScala

def handle : Handler := fun _ _ => none

end Driver.TransScala
