import Driver.ProgJson
import Driver.TransKotlin
import Heph.Model.TransScala
import Heph.Spec.TransScalaSem
/-! ops of the Scala translator model (same requests and answers as the `trans.kotlin.*` ops):
 * `trans.scala` `{program: <export>, package: str|null, history?: [<export>…], reset?: bool}` → text of `program`
   printed by a translator object that has already translated the programs of `history` (and, with
   `reset`, had `_reset_state()` called after them)
 * `trans.scala.doc` (same request) → `[[tag, name|null, text]…]`, the tagged pieces
 * `trans.scala.inventory` `{program}` → `[[tag, name]…]`, the declaration inventory computed from the IR
 * `trans.scala.visit` `{program, ident?, is_unit?, is_lambda?, _cast_integers?}` → texts of the top-level
   declarations visited in turn from that state, and the state afterwards
 * `trans.scala.state` (same request as `trans.scala`) → the state after translating history and program
 * `trans.scala.sem` `{program}` → `{"pieces": [[tag, name|null, text]…], "condok": bool}`: the non-layout pieces the
   program calls for (`semProgram`, IR only) and the hypothesis `condOK` of the text-level theorems -/
open Lean Heph Heph.TransScala
open Heph.TransKotlin (St Obj initObj programClasses flatten)
open Driver.TransKotlin (tagJson pieceJson getPackage getHistory getProgram stJson)
namespace Driver.TransScala

def startObj (j : Json) : Except String Obj := do
  let ob := after (initObj (getPackage j)) (← getHistory j)
  pure (if (j.getObjValAs? Bool "reset").toOption.getD false then resetState ob else ob)

def handle : Handler := fun op j =>
  match op with
  | "trans.scala" => some (do
      let p ← getProgram j
      pure (res (Json.str (text (← startObj j) p))))
  | "trans.scala.doc" => some (do
      let p ← getProgram j
      pure (res (Json.arr ((programDoc (← startObj j) p).2.toArray.map pieceJson))))
  | "trans.scala.state" => some (do
      let p ← getProgram j
      pure (res (stJson (visitProgram (← startObj j) p))))
  | "trans.scala.visit" => some (do
      -- visit the top-level declarations one by one from a hand-set state (no `visit_program`)
      let p ← getProgram j
      let st0 : St := { ident := (j.getObjValAs? Nat "ident").toOption.getD 0,
                        isUnit := (j.getObjValAs? Bool "is_unit").toOption.getD false,
                        isLambda := (j.getObjValAs? Bool "is_lambda").toOption.getD false,
                        cast := (j.getObjValAs? Bool "_cast_integers").toOption.getD false,
                        context := programClasses p }
      let r := visitL st0 p.decls
      pure (res (Json.mkObj [("texts", Json.arr (r.2.toArray.map fun d => Json.str (flatten d))),
                             ("state", stJson { st := r.1 })])))
  | "trans.scala.inventory" => some (do
      let p ← getProgram j
      pure (res (Json.arr ((inventory p).toArray.map fun t => Json.arr (tagJson t).toArray))))
  | "trans.scala.sem" => some (do
      let p ← getProgram j
      pure (res (Json.mkObj [("pieces", Json.arr ((semProgram p).toArray.map pieceJson)),
                             ("condok", Json.bool (condOK p))])))
  | _ => none

end Driver.TransScala
