import Driver.Util
open Lean
namespace Driver.Inst

def handle : Handler := fun _ _ => none

end Driver.Inst
