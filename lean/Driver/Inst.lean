import Driver.TyJson
import Heph.Model.Inst
/-! ops of C08/C17: `inst.arg_variance` (candidate list of `_get_type_arg_variance`), `inst.arg_variance_p`,
    `inst.has_bound_of`, `inst.available_types`, `inst.update_bound_rec`, `inst.effective_choices`, `inst.ok`.
    Type-valued answers are compared inside the driver against the `expect` field (structural equality). -/
open Lean Heph Heph.Inst
namespace Driver.Inst

/-- `"vc"`: `null` (variance_choices is None) or `[[keyIdx, canVariant, canContravariant], …]` -/
def parseVChoices (tbl : Array Ty) (j : Json) (k : String) : Except String (Option VChoices) := do
  let v := j.getObjValD k
  if v.isNull then pure none else
    let a ← v.getArr?
    let l ← a.toList.mapM fun e => do
      let p ← e.getArr?
      if p.size != 3 then throw "variance choice must be [key, can_variant, can_contravariant]"
      let i ← p[0]!.getNat?
      match tbl[i]? with
      | some t => pure (t, ((← p[1]!.getBool?), (← p[2]!.getBool?)))
      | none => throw s!"type index {i} out of range"
    pure (some l)

def parseDis (j : Json) : Except String Dis := do
  match ← getNatList j "dis" with
  | [a, b] => pure ⟨a != 0, b != 0⟩
  | _ => throw "dis must be 2 ints"

def boolList (j : Json) (k : String) : Except String (List Bool) := do
  (← getArr j k).toList.mapM fun x => x.getBool?

def parseItem (tbl : Array Ty) (j : Json) : Except String Item := do
  match ← getStr j "k" with
  | "ty" => pure (.ty (← tyAt tbl j "t") (← tyOptAt tbl j "box"))
  | "cls" => pure (.cls (← getNat j "ct") (← tyAt tbl j "t"))
  | k => throw s!"unknown item kind {k}"

/-- items are compared by kind and by the structure of their type (the `box` field of an
    output item carries no information) -/
def itemEq : Item → Item → Bool
  | .ty t _, .ty t' _ => structEq t t'
  | .cls ct t, .cls ct' t' => ct == ct' && structEq t t'
  | _, _ => false

def itemsEq : List Item → List Item → Bool
  | [], [] => true
  | x :: xs, y :: ys => itemEq x y && itemsEq xs ys
  | _, _ => false

def itemJson : Item → Json
  | .ty t _ => Json.mkObj [("k", "ty"), ("t", Json.str (Ty.getName t))]
  | .cls ct t => Json.mkObj [("k", "cls"), ("ct", Json.num (JsonNumber.fromNat ct)), ("t", Json.str (Ty.getName t))]

def tmapEq : Ty.TMap → Ty.TMap → Bool
  | [], [] => true
  | (k, v) :: xs, (k', v') :: ys => structEq k k' && structEq v v' && tmapEq xs ys
  | _, _ => false

def tmapJson (m : Ty.TMap) : Json :=
  Json.arr (m.toArray.map fun (k, v) => Json.arr #[Json.str (Ty.tparamStr k), Json.str (Ty.getName v)])

def parseIdx (tbl : Array Ty) (j : Json) (k : String) : Except String (List (Ty × Nat)) := do
  let a ← getArr j k
  a.toList.mapM fun e => do
    let p ← e.getArr?
    if p.size != 2 then throw "pair expected"
    match tbl[← p[0]!.getNat?]? with
    | some t => pure (t, ← p[1]!.getNat?)
    | none => throw "type index out of range"

def trBoolJson : Ty.TR Bool → Json := trToJson Json.bool
def trNatListJson : Ty.TR (List Nat) → Json := trToJson ofNatList

def optStr (j : Json) (k : String) : Option String :=
  match j.getObjVal? k with
  | .ok v => (match v.getStr? with | .ok s => some s | .error _ => none)
  | .error _ => none

def parseInstIn (tbl : Array Ty) (j : Json) : Except String InstIn := do
  pure { params := ← tyListAt tbl j "params", pre := ← parseTMap tbl j "pre", vc := ← parseVChoices tbl j "vc",
         dis := ← parseDis j, top := ← tyAt tbl j "top" }

/-- diagnostics for a rejected instantiation: per parameter which clause of `instOK1` fails -/
def diagnose (I : InstIn) (σ : Ty.TMap) : List Ty → List Json
  | [] => []
  | p :: ps =>
    let here : List Json :=
      match σ.get p with
      | none => [Json.mkObj [("param", Json.str (Ty.tparamStr p)), ("fails", Json.str "no-argument")]]
      | some a =>
        let req := requestedBy I p a
        let noPrim := req || (!a.isPrim && !a.isTCon && !(argCore a).isPrim && !(argCore a).isTCon)
        let bnd := req || (match Ty.boundOf p with | none => true | some b => withinD I.top a (Ty.substituteType b σ))
        let kept := match I.pre.get p with
          | none => true
          | some t => overridable I p || Ty.beq a t ||
              (match a with | .wild v (some x) => Ty.beq x t && !t.isWild && projAllowed I p ps v | _ => false)
        let proj := match a with
          | .wild v bd => exemptProjection I σ p a || (bd.isSome && projAllowed I p ps v)
          | _ => true
        let fails := (if noPrim then [] else ["primitive-or-bare-constructor"]) ++ (if bnd then [] else
            [if (match Ty.boundOf p with | some b => b.isTVar && overridable I b | none => false)
             then "outside-bound:bound-variable-overwritten-by-a-request" else "outside-bound"]) ++
          (if kept then [] else ["requested-assignment-not-kept"]) ++ (if proj then [] else ["projection-not-permitted"])
        if fails.isEmpty then [] else
          [Json.mkObj [("param", Json.str (Ty.tparamStr p)), ("arg", Json.str (Ty.getName a)),
            ("arg_variance", match a with | .wild v _ => Json.num (JsonNumber.fromNat v) | _ => Json.null),
            ("bound", match Ty.boundOf p with | some b => Json.str (Ty.getName (Ty.substituteType b σ)) | none => Json.null),
            ("candidates", trNatListJson (argVarianceP I.dis p I.vc ps)),
            ("fails", ofStrList fails)]]
    here ++ diagnose I σ ps

def handle : Handler := fun op j =>
  match op with
  | "inst.arg_variance" => some (do
      let tbl ← parseTable j
      let tparam ← tyAt tbl j "tparam"
      pure (res (ofNatList (argVariance (← parseDis j) tparam (← parseVChoices tbl j "vc") (← boolList j "later")))))
  | "inst.arg_variance_p" => some (do
      let tbl ← parseTable j
      let tparam ← tyAt tbl j "tparam"
      pure (res (trNatListJson (argVarianceP (← parseDis j) tparam (← parseVChoices tbl j "vc") (← tyListAt tbl j "others")))))
  | "inst.has_bound_of" => some (do
      let tbl ← parseTable j
      pure (res (trBoolJson (hasBoundOf (← tyAt tbl j "self") (← tyAt tbl j "other")))))
  | "inst.available_types" => some (do
      let tbl ← parseTable j
      let items ← (← getArr j "items").toList.mapM (parseItem tbl)
      let expect ← (← getArr j "expect").toList.mapM (parseItem tbl)
      let r := availableTypes (optStr j "con_name") items (← getBool j "only_regular") (← getBool j "primitives")
      if itemsEq r expect then pure (res (Json.bool true))
      else pure (res (Json.arr (r.toArray.map itemJson))))
  | "inst.update_bound_rec" => some (do
      let tbl ← parseTable j
      let r := updateBoundRec (← tyAt tbl j "tparam") (← tyAt tbl j "t") (← tyListAt tbl j "targs")
                 (← parseIdx tbl j "idx") (← parseTMap tbl j "m")
      match r with
      | .ok targs m =>
          let etargs ← tyListAt tbl j "expect_targs"
          let em ← parseTMap tbl j "expect_m"
          if structEqL targs etargs && tmapEq m em then pure (res (Json.str "ok"))
          else pure (res (Json.mkObj [("targs", ofStrList (targs.map Ty.getName)), ("m", tmapJson m)]))
      | .assertionError => pure (res (Json.str "AssertionError"))
      | .indexError => pure (res (Json.str "IndexError"))
      | .subError e => pure (res (resToJson e)))
  | "inst.effective_choices" => some (do
      let tbl ← parseTable j
      let params ← tyListAt tbl j "params"
      let r := effectiveChoices (← getStr j "con_name") params (← parseVChoices tbl j "vc")
                 (← getBool j "enable_pecs") (← getBool j "disable_variance_functions") (← getBool j "disable_variance")
      match r with
      | none => pure (res Json.null)
      | some m => pure (res (Json.arr (m.toArray.map fun (k, (a, b)) =>
          Json.arr #[Json.str (Ty.tparamStr k), Json.bool a, Json.bool b]))))
  | "inst.ok" => some (do
      let tbl ← parseTable j
      let I ← parseInstIn tbl j
      let σ ← parseTMap tbl j "sigma"
      let v := j.getObjValD "targs"
      let targs ← if v.isNull then pure none else do pure (some (← idxList tbl v))
      if instOK I σ targs then pure (res (if preConsistent I then Json.bool true else Json.str "shape-only"))
      else
        let shape := match targs with
          | none => []
          | some as => if as.length == I.params.length && Ty.beqL as (I.params.filterMap σ.get) then []
                       else [Json.mkObj [("fails", ofStrList ["argument-list-differs-from-map"])]]
        pure (res (Json.arr (shape ++ (if preConsistent I then diagnose I σ I.params else
          diagnose { I with pre := [] } σ I.params)).toArray)))
  | "inst.pre_consistent" => some (do
      let tbl ← parseTable j
      pure (res (Json.bool (preConsistent (← parseInstIn tbl j)))))
  | "inst.sub_d" => some (do
      let tbl ← parseTable j
      pure (res (Json.bool (Ty.D2.isSubDTop (← tyAt tbl j "s") (← tyAt tbl j "t")))))
  | _ => none

end Driver.Inst
