import Driver.TyJson
import Heph.Model.Inst
/-! ops of C08/C17: `inst.arg_variance` (candidate list of `_get_type_arg_variance`) … -/
open Lean Heph Heph.Inst
namespace Driver.Inst

/-- `"vc"`: `null` (variance_choices is None) or `[[keyIdx, canVariant, canContravariant], …]` -/
def parseVChoices (tbl : Array Ty) (j : Json) (k : String) : Except String (Option VChoices) := do
  let v := j.getObjValD k
  if v.isNull then pure none else
    let a ← v.getArr?
    let l ← a.toList.mapM fun e => do
      let p ← e.getArr?
      if p.size != 3 then throw "variance choice must be [key, can_variant, can_contravariant]"
      let i ← p[0]!.getNat?
      match tbl[i]? with
      | some t => pure (t, ((← p[1]!.getBool?), (← p[2]!.getBool?)))
      | none => throw s!"type index {i} out of range"
    pure (some l)

def parseDis (j : Json) : Except String Dis := do
  match ← getNatList j "dis" with
  | [a, b] => pure ⟨a != 0, b != 0⟩
  | _ => throw "dis must be 2 ints"

def boolList (j : Json) (k : String) : Except String (List Bool) := do
  (← getArr j k).toList.mapM fun x => x.getBool?

def handle : Handler := fun op j =>
  match op with
  | "inst.arg_variance" => some (do
      let tbl ← parseTable j
      let tparam ← tyAt tbl j "tparam"
      pure (res (ofNatList (argVariance (← parseDis j) tparam (← parseVChoices tbl j "vc") (← boolList j "later")))))
  | _ => none

end Driver.Inst
