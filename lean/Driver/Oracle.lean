import Driver.Util
import Heph.Model.Oracle
/-! Ops of the family `oracle` (model of `check_oracle` and the statistics of `hephaestus.py`).

* `oracle.check`   {variant, dir, progs, outcome, fs} → {status, reported, fs}
* `oracle.session` {variant, mode, rounds:[{stage, dir, progs, outcome, time}], fs}
                   → {status, passed, failed, time, faults, fs}   (a history of batches)
* `oracle.run`     {variant, mode, batch, progs:[{prog, staged, rejected, crash}]}
                   → {status, passed, failed, time, faults, fs}   (the loop `_run`)
* `oracle.stop_condition` {seconds, iterations, batch, stop, iteration, time_passed} → bool
* `oracle.get_batches`    {seconds, iterations, batch, programs} → int | "TypeError"

paths are `["tmp", pid]`, `["saved", pid]`, `["batch", n]`; a file system answer is sorted. -/
open Lean Heph.Oracle
namespace Driver.Oracle

def optStr (j : Json) : Except String (Option String) :=
  match j with
  | .null => pure none
  | .str s => pure (some s)
  | _ => throw "expected string or null"

def optNat (j : Json) : Except String (Option Nat) :=
  match j with
  | .null => pure none
  | _ => do pure (some (← j.getNat?))

def parseFiles (j : Json) : Except String (List (Nat × Bool)) := do
  let a ← j.getArr?
  a.toList.mapM fun e => do
    let p ← e.getArr?
    if p.size != 2 then throw "file must be [id, expected]"
    pure (← p[0]!.getNat?, ← p[1]!.getBool?)

def parseProg (j : Json) : Except String Prog := do
  let pid ← getNat j "pid"
  let failed ← getBool j "failed"
  let files ← parseFiles (← j.getObjVal? "files")
  let err ← optStr (← j.getObjVal? "err")
  let time := (j.getObjValAs? Nat "time").toOption.getD 0
  pure { pid := pid, toolFailed := failed, files := files, err := err, time := time }

def parseMsgs (j : Json) : Except String (List (Nat × List String)) := do
  let a ← j.getArr?
  a.toList.mapM fun e => do
    let p ← e.getArr?
    if p.size != 2 then throw "failed entry must be [file, [messages]]"
    let ms ← (← p[1]!.getArr?).toList.mapM fun m => m.getStr?
    pure (← p[0]!.getNat?, ms)

def parseOutcome (j : Json) : Except String Outcome := do
  pure ⟨← parseMsgs (← j.getObjVal? "failed"), ← optStr (← j.getObjVal? "crash")⟩

def parsePath (j : Json) : Except String Path := do
  let p ← j.getArr?
  if p.size != 2 then throw "path must be [kind, n]"
  let n ← p[1]!.getNat?
  match ← p[0]!.getStr? with
  | "tmp" => pure (.tmp n)
  | "saved" => pure (.saved n)
  | "batch" => pure (.batch n)
  | k => throw s!"unknown path kind {k}"

def parseFS (j : Json) : Except String FS := do
  (← j.getArr?).toList.mapM parsePath

def parseProgs (j : Json) : Except String (List Prog) := do
  (← j.getArr?).toList.mapM parseProg

def parseVariant (j : Json) : Except String Variant := do
  match ← getStr j "variant" with
  | "asis" => pure .asIs
  | "repaired" => pure .repaired
  | "both-only" => pure ⟨true, false⟩
  | "crash-only" => pure ⟨false, true⟩
  | k => throw s!"unknown variant {k}"

def parseMode (j : Json) : Except String Mode := do
  match ← getStr j "mode" with
  | "seq" => pure .sequential
  | "pool" => pure .pool
  | k => throw s!"unknown mode {k}"

def pathKey : Path → Nat × Nat
  | .batch n => (0, n)
  | .saved n => (1, n)
  | .tmp n => (2, n)

def pathJson : Path → Json
  | .tmp n => Json.arr #[Json.str "tmp", Json.num (JsonNumber.fromNat n)]
  | .saved n => Json.arr #[Json.str "saved", Json.num (JsonNumber.fromNat n)]
  | .batch n => Json.arr #[Json.str "batch", Json.num (JsonNumber.fromNat n)]

def fsJson (fs : FS) : Json :=
  let a := fs.toArray.qsort fun x y =>
    let kx := pathKey x; let ky := pathKey y
    kx.1 < ky.1 || (kx.1 == ky.1 && kx.2 < ky.2)
  Json.arr (a.map pathJson)

def msgJson : Option String → Json
  | none => Json.null
  | some s => Json.str s

def reportedJson (r : Reported) : Json :=
  Json.arr (r.toArray.map fun kv => Json.arr #[Json.num (JsonNumber.fromNat kv.1), msgJson kv.2])

def kindStr : ErrKind → String
  | .fileExists => "FileExistsError"
  | .fileNotFound => "FileNotFoundError"
  | .typeError => "TypeError"

def intJson (i : Int) : Json := Json.num (JsonNumber.fromInt i)

def statsFields (status : String) (s : Stats) (fs : FS) : Json :=
  let sv := saveStats s
  Json.mkObj [("status", Json.str status), ("passed", intJson sv.passed),
    ("failed", Json.num (JsonNumber.fromNat sv.failed)), ("time", Json.num (JsonNumber.fromNat sv.time)),
    ("faults", Json.arr (sv.faults.toArray.map fun kv => Json.arr #[Json.str kv.1, msgJson kv.2])),
    ("fs", fsJson fs)]

def parseRound (j : Json) : Except String Round := do
  pure { stage := ← parseFS (← j.getObjVal? "stage")
         batch := ⟨← getNat j "dir", ← parseProgs (← j.getObjVal? "progs")⟩
         outcome := ← parseOutcome (← j.getObjVal? "outcome")
         time := ← getNat j "time" }

def parseSProg (j : Json) : Except String SProg := do
  pure { prog := ← parseProg (← j.getObjVal? "prog")
         staged := ← getBool j "staged"
         rejected := ← parseMsgs (← j.getObjVal? "rejected")
         crash := ← getBool j "crash" }

def parseCfg (j : Json) : Except String Cfg := do
  pure ⟨← optNat (← j.getObjVal? "seconds"), ← optNat (← j.getObjVal? "iterations"), ← getNat j "batch"⟩

def handle : Handler := fun op j =>
  match op with
  | "oracle.check" => some do
      let v ← parseVariant j
      let b : Batch := ⟨← getNat j "dir", ← parseProgs (← j.getObjVal? "progs")⟩
      let o ← parseOutcome (← j.getObjVal? "outcome")
      let fs ← parseFS (← j.getObjVal? "fs")
      pure <| res <| match checkOracleV v b o fs with
        | .ok (r, fs') => Json.mkObj [("status", Json.str "ok"), ("reported", reportedJson r), ("fs", fsJson fs')]
        | .error e => Json.mkObj [("status", Json.str (kindStr e.kind)), ("fs", fsJson e.fs)]
  | "oracle.session" => some do
      let v ← parseVariant j
      let m ← parseMode j
      let rounds ← (← getArr j "rounds").toList.mapM parseRound
      let fs ← parseFS (← j.getObjVal? "fs")
      pure <| res <| match runHistory v m (Stats.init, fs) rounds with
        | .ok (s, fs') => statsFields "ok" s fs'
        | .error (e, s) => statsFields (kindStr e.kind) s e.fs
  | "oracle.run" => some do
      let v ← parseVariant j
      let m ← parseMode j
      let batch ← getNat j "batch"
      let sps ← (← getArr j "progs").toList.mapM parseSProg
      pure <| res <| match runSession v m batch sps with
        | .done s fs => statsFields "ok" s fs
        | .aborted e s => statsFields (kindStr e.kind) s e.fs
        | .typeError s fs => statsFields "TypeError" s fs
        | .fuel s fs => statsFields "fuel" s fs
  | "oracle.stop_condition" => some do
      let c ← parseCfg j
      pure <| res <| Json.bool (stopCondition c (← getBool j "stop") (← getNat j "iteration") (← getNat j "time_passed"))
  | "oracle.get_batches" => some do
      let c ← parseCfg j
      pure <| res <| match getBatches c (← getNat j "programs") with
        | some n => intJson n
        | none => Json.str "TypeError"
  | _ => none

end Driver.Oracle
