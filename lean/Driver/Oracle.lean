import Driver.Util
open Lean
namespace Driver.Oracle

def handle : Handler := fun _ _ => none

end Driver.Oracle
