import Driver.ProgJson
import Heph.Model.Switches
/-! ops of C17: `switches.ok` (the program-level predicate, with a locator for the first
    offending occurrence), and the decision functions `switches.draw_bool`,
    `switches.type_param_flags`, `switches.func_type_params`. -/
open Lean Heph Heph.Switches
namespace Driver.Switches

abbrev Viol := Array (List String × String)

/-- locator (diagnostics only; the verdict is `switchesOK`): every offending sub-term of a type
    occurrence, with the path from the occurrence -/
partial def locTy (cfg : Cfg) (path : List String) (t : Ty) (acc : Viol) : Viol :=
  let acc :=
    if tyLocalOK cfg t then acc else
      match t with
      | .wild v bd =>
          let kind := match v, bd with
            | _, none => "star-projection"
            | 1, _ => "covariant-projection"
            | 2, _ => "contravariant-projection"
            | _, _ => "invariant-projection"
          let sw := if cfg.noUseSite then "use-site-variance-disabled" else "use-site-contravariance-disabled"
          acc.push (path.reverse, sw ++ ":" ++ kind)
      | .tparam nm _ _ => acc.push (path.reverse, "bounded-type-parameters-disabled:bound-on:" ++ nm)
      | _ => acc
  let many (lbl : String) (l : List Ty) (acc : Viol) : Viol :=
    (l.zipIdx).foldl (fun a (x, i) => locTy cfg (s!"{lbl}[{i}]" :: path) x a) acc
  let opt (lbl : String) (o : Option Ty) (acc : Viol) : Viol :=
    match o with | some x => locTy cfg (lbl :: path) x acc | none => acc
  match t with
  | .builtin _ _ _ _ ss => many "sup" ss acc
  | .simple _ ss => many "sup" ss acc
  | .tparam _ _ bd => opt "bound" bd acc
  | .wild _ bd => opt "bound" bd acc
  | .tcon _ _ ps ss => many "sup" ss (many "param" ps acc)
  | .param _ con as ss => many "sup" ss (locTy cfg ("con" :: path) con (many "arg" as acc))
  | _ => acc

def nodeLabel : Node → String
  | .block .. => "block" | .superInst .. => "super" | .classDecl nm .. => s!"class {nm}"
  | .varDecl nm .. => s!"var {nm}" | .callArg .. => "arg" | .fieldDecl nm .. => s!"field {nm}"
  | .paramDecl nm .. => s!"param {nm}" | .funcDecl nm .. => s!"func {nm}" | .lambda nm .. => s!"lambda {nm}"
  | .funcRef f .. => s!"funcref {f}" | .bottom .. => "bottom" | .intC .. => "int" | .realC .. => "real"
  | .boolC .. => "bool" | .charC .. => "char" | .stringC .. => "string" | .arrayE .. => "array"
  | .variable nm => s!"variable {nm}" | .isE .. => "is" | .binop .. => "binop" | .cond .. => "cond"
  | .newE .. => "new" | .fieldAccess _ f => s!"fieldaccess {f}" | .call f .. => s!"call {f}"
  | .assign nm .. => s!"assign {nm}"

/-- the type occurrences of a node with the name of the attribute they are stored in
    (same order and content as `nodeTypes`) -/
def labelledTypes : Node → List (String × Ty)
  | .superInst t _ => [("class_type", t)]
  | .classDecl _ _ _ _ _ _ tps => tps.zipIdx.map fun (t, i) => (s!"tparams[{i}]", t)
  | .varDecl _ _ _ vt it => (vt.toList.map fun t => ("var_type", t)) ++ (it.toList.map fun t => ("inferred_type", t))
  | .fieldDecl _ t _ _ _ => [("field_type", t)]
  | .paramDecl _ t _ _ => [("param_type", t)]
  | .funcDecl _ _ rt it _ _ _ tps _ =>
      (rt.toList.map fun t => ("ret_type", t)) ++ ((it.toList.map fun t => ("inferred_type", t)) ++
        (tps.zipIdx.map fun (t, i) => (s!"tparams[{i}]", t)))
  | .lambda _ _ rt _ sg => (rt.toList.map fun t => ("ret_type", t)) ++ (sg.toList.map fun t => ("signature", t))
  | .funcRef _ _ sg => sg.toList.map fun t => ("signature", t)
  | .bottom t => t.toList.map fun t => ("t", t)
  | .intC _ t => t.toList.map fun t => ("integer_type", t)
  | .realC _ t => t.toList.map fun t => ("real_type", t)
  | .arrayE t _ _ => [("array_type", t)]
  | .isE _ t _ => [("rexpr", t)]
  | .cond _ _ _ ty => ty.toList.map fun t => ("inferred_type", t)
  | .newE t _ _ => [("class_type", t)]
  | .call _ _ _ ta _ _ => ta.zipIdx.map fun (t, i) => (s!"type_args[{i}]", t)
  | _ => []

partial def locNode (cfg : Cfg) (lang : String) (path : List String) (n : Node) (acc : Viol) : Viol :=
  let path := nodeLabel n :: path
  let acc :=
    if declLocalOK cfg lang n then acc else
      match n with
      | .classDecl .. => acc.push (path.reverse, s!"variant-class-type-parameter:{lang}")
      | .funcDecl _ _ _ _ _ _ _ tps _ =>
          let acc := if cfg.noParamFuncs && !tps.isEmpty
            then acc.push (path.reverse, "parameterized-functions-disabled:function-type-parameters") else acc
          if tps.all fun t => Ty.variance t == 0 then acc
          else acc.push (path.reverse, "variant-function-type-parameter")
      | _ => acc
  let acc := (labelledTypes n).foldl (fun a (lbl, t) =>
    if tyOK cfg t then a else locTy cfg (lbl :: path) t a) acc
  (children n).foldl (fun a c => locNode cfg lang path c a) acc

def parseCfg (j : Json) : Except String Cfg := do
  let l ← getNatList j "cfg"
  match l with
  | [a, b, c, d] => pure ⟨a != 0, b != 0, c != 0, d != 0⟩
  | _ => throw "cfg must be 4 ints"

def violJson (v : List String × String) : Json :=
  Json.mkObj [("path", ofStrList v.1), ("reason", Json.str v.2)]

def parseDraw (j : Json) (k : String) : Except String Draw := do
  match ← getNatList j k with
  | [a, b] => pure ⟨a, b⟩
  | _ => throw s!"{k} must be [num, den]"

def parseProb (j : Json) (k : String) : Except String Prob := do
  match ← getNatList j k with
  | [a, b] => pure ⟨a, b⟩
  | _ => throw s!"{k} must be [num, den]"

def flagsJson (f : List Nat × Bool) : Json := Json.arr #[ofNatList f.1, Json.bool f.2]

def handle : Handler := fun op j =>
  match op with
  | "switches.ok" => some (do
      let (_, p) ← parseProgramObj j
      let cfg ← parseCfg j
      let lang := match getStr j "lang_override" with | .ok l => l | .error _ => p.lang
      let ok := switchesOK cfg lang p
      let vs := p.decls.foldl (fun a d => locNode cfg lang [] d a) #[]
      if ok then
        if vs.isEmpty then pure (res (Json.str "ok"))
        else throw "locator reports a violation but switchesOK holds"
      else match vs.toList with
        | [] => throw "switchesOK fails but the locator finds nothing"
        | v :: _ => pure (res (Json.mkObj [("path", ofStrList v.1), ("reason", Json.str v.2),
                      ("count", Json.num (JsonNumber.fromNat vs.size)),
                      ("reasons", ofStrList (vs.toList.map (·.2)).eraseDups),
                      ("all", Json.arr ((vs.toList.take 40).toArray.map violJson))])))
  | "switches.table" => some (do
      -- the verified predicate under several (cfg, lang) rows: `"rows": [{"cfg": [4 ints], "lang": …}, …]`
      let (_, p) ← parseProgramObj j
      let rows ← getArr j "rows"
      let out ← rows.toList.mapM fun row => do
        pure (Json.bool (switchesOK (← parseCfg row) (← getStr row "lang") p))
      pure (res (Json.arr out.toArray)))
  | "switches.draw_bool" => some (do
      pure (res (Json.bool (drawBool (← parseDraw j "r") (← parseProb j "p")))))
  | "switches.type_param_flags" => some (do
      pure (res (flagsJson (genTypeParamFlags (← getBool j "with_variance") (← parseProb j "p_bounded")
        (← parseDraw j "r_var") (← parseDraw j "r_bound")))))
  | "switches.func_gen_type_params" => some (do
      let r := funcGenTypeParams (← getBool j "nested") (← getBool j "given") (← parseProb j "p_func") (← parseDraw j "r")
      pure (res (match r with | none => Json.null | some b => Json.bool b)))
  | "switches.cfg_probs" => some (do
      let cfg ← parseCfg j
      pure (res (Json.mkObj [("bounded", ofNatList [cfg.pBounded.num, cfg.pBounded.den]),
                             ("param_funcs", ofNatList [cfg.pParamFuncs.num, cfg.pParamFuncs.den]),
                             ("decl_variance", Json.bool (langHasDeclVariance (← getStr j "lang")))])))
  | _ => none

end Driver.Switches
