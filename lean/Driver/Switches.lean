import Driver.Util
open Lean
namespace Driver.Switches

def handle : Handler := fun _ _ => none

end Driver.Switches
