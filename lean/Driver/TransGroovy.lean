import Driver.ProgJson
import Heph.Model.TransGroovy
/-! ops of the Groovy translator model (`Heph.TransGroovy`):
 * `trans.groovy` `{program: <export>, package: str|null, history?: [<export>…], cast_numbers?: bool}` → text of
   `program` printed by a translator object that has already translated the programs of `history`; the object may
   start from hand-set attributes (`ident`, `is_unit`, `_cast_number`, `_inside_is`, `_inside_is_function`,
   `_namespace`, `_children_res`; default: the values after `__init__`)
 * `trans.groovy.state` (same request) → the attributes of the object after translating history and program
 * `trans.groovy.visit` `{program, ident?, is_unit?, _cast_number?, _inside_is?, _inside_is_function?,
   _namespace?, _children_res?, cast_numbers?}` → the top-level declarations visited in turn from that hand-set state (no
   `visit_program`): `{"texts": _children_res, "state": attributes afterwards}`
 An export is `harness/export_ast.export_program`: beside `tt`, `decls`, `context` it carries `ctxinfo`, parallel to
 `context`: `null` for a `None` value, the `class_type` of a class declaration, `-1` for anything else. -/
open Lean Heph Heph.TransGroovy
namespace Driver.TransGroovy

def parseVal (j : Json) : CVal :=
  if j.isNull then CVal.none
  else match j.getInt? with
    | .ok i => if i ≥ 0 then CVal.cls i.toNat else CVal.other
    | .error _ => CVal.other

def parseG (j : Json) : Except String GProgram := do
  let (_, p) ← parseProgramObj j
  let vals ← match j.getObjVal? "ctxinfo" with
    | .error _ => pure (p.context.map fun _ => CVal.other)
    | .ok a => do pure ((← a.getArr?).toList.map parseVal)
  if vals.length != p.context.length then throw "ctxinfo must be parallel to context"
  pure { decls := p.decls,
         env := (p.context.zip vals).map fun (c, v) => { ns := c.ns, kind := c.kind, name := c.name, val := v } }

def getPackage (j : Json) : Option String :=
  match j.getObjValD "package" with | .str s => some s | _ => none

def getHistory (j : Json) : Except String (List GProgram) := do
  match j.getObjVal? "history" with
  | .error _ => pure []
  | .ok h => (← h.getArr?).toList.mapM parseG

def getProgram (j : Json) : Except String GProgram := do parseG (← j.getObjVal? "program")

def getB (j : Json) (k : String) : Bool := (j.getObjValAs? Bool k).toOption.getD false

def tagStr : Tag → String
  | .none => "none" | .classD => "class" | .funcRef => "funcref" | .other => "other"

def stJson (st : St) (o : Out) (package : Option String) : Json :=
  Json.mkObj [
    ("ident", Json.num (JsonNumber.fromNat st.ident)), ("is_unit", st.isUnit), ("_cast_number", st.castNumber),
    ("_namespace", ofStrList st.ns), ("_inside_is", st.insideIs), ("_inside_is_function", st.insideIsFunction),
    ("_nodes_stack", Json.arr (st.stack.reverse.toArray.map fun t => Json.str (tagStr t))),
    ("_function_interfaces", ofStrList (st.functionInterfaces.map toString)),
    ("context", match st.context with | some _ => Json.str "set" | none => Json.null),
    ("types", Json.bool st.typesSet), ("always_cast_numbers", st.alwaysCastNumbers), ("always_cast_ftypes", true),
    ("_children_res", ofStrList o.childrenRes), ("_main_children", ofStrList o.mainChildren),
    ("_main_method", Json.str o.mainMethod),
    ("package", match package with | some s => Json.str s | none => Json.null)]

/-- hand-set attributes of the request (absent = value after `__init__`) -/
def handSt (j : Json) (ctx : Option Env) : Except String St := do
  let ns ← match j.getObjVal? "_namespace" with
    | .error _ => pure ["global"]
    | .ok a => (← a.getArr?).toList.mapM fun s => s.getStr?
  pure { ident := (j.getObjValAs? Nat "ident").toOption.getD 0,
         isUnit := getB j "is_unit", castNumber := getB j "_cast_number",
         insideIs := getB j "_inside_is", insideIsFunction := getB j "_inside_is_function",
         ns := ns, alwaysCastNumbers := getB j "cast_numbers", context := ctx }

def handOut (j : Json) : Except String Out := do
  match j.getObjVal? "_children_res" with
  | .error _ => pure {}
  | .ok a => do pure { childrenRes := ← (← a.getArr?).toList.mapM fun s => s.getStr? }

/-- the object the request starts from: constructed (with hand-set attributes, if any), then the history -/
def startObj (j : Json) : Except String Obj := do
  let ob : Obj := { st := ← handSt j none, out := ← handOut j, package := getPackage j }
  pure (after ob (← getHistory j))

def handle : Handler := fun op j =>
  match op with
  | "trans.groovy" => some (do
      let p ← getProgram j
      pure (res (Json.str (text (← startObj j) p))))
  | "trans.groovy.state" => some (do
      let p ← getProgram j
      let ob := visitProgram (← startObj j) p
      pure (res (stJson ob.st ob.out ob.package)))
  | "trans.groovy.visit" => some (do
      let p ← getProgram j
      let r := visitL (← handSt j (some p.env)) (← handOut j) p.decls
      pure (res (Json.mkObj [("texts", ofStrList r.2.childrenRes), ("state", stJson r.1 r.2 none)])))
  | _ => none

end Driver.TransGroovy
