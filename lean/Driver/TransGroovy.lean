import Driver.Util
open Lean
namespace Driver.TransGroovy

def handle : Handler := fun _ _ => none

end Driver.TransGroovy
