import Driver.ProgJson
import Heph.Model.TransJava
import Heph.Spec.JavaBalance
/-! op "trans.java": {tt, lang, decls, context, ctxvals, package, history?} → text of the
    `JavaTranslator` model.  `ctxvals` is parallel to `context`: the header-form declaration
    registered under that entry (`null` for Python `None` and for `types` entries).
    `history` (optional): a list of earlier programs `{tt, decls, context, ctxvals, package}`
    translated first on the same translator state.
    The answer also carries `balanced` (the bracket scanner `Spec/JavaBalance.scan` on the model's text)
    and `hyps` (the hypotheses of `Props/C02.javaText_balanced` on this input: `atomsOKL decls`,
    `envOK env`, bracket-free package).
    op "java.scan": {text} → the same scanner's verdict on an arbitrary text (the real translator's). -/
open Lean Heph
namespace Driver.TransJava

def parseEnv (tbl : Array Ty) (p : Program) (j : Json) : Except String TransJava.Env := do
  let vals ← match j.getObjVal? "ctxvals" with
    | .error _ => pure (p.context.map fun _ => (none : Option Node))
    | .ok a => (← a.getArr?).toList.mapM fun x =>
        if x.isNull then pure none else do pure (some (← parseNode tbl x))
  if vals.length != p.context.length then throw "ctxvals must be parallel to context"
  pure { entries := (p.context.zip vals).map fun (c, v) => { ns := c.ns, kind := c.kind, name := c.name, val := v } }

def parseOne (j : Json) : Except String (TransJava.Env × String × List Node) := do
  let (tbl, p) ← parseProgramObj j
  let env ← parseEnv tbl p j
  let pkg := match j.getObjValAs? String "package" with | .ok s => s | .error _ => ""
  pure (env, pkg, p.decls)

def handle : Handler := fun op j =>
  match op with
  | "trans.java" => some (do
      let (env, pkg, decls) ← parseOne j
      let hist ← match j.getObjVal? "history" with
        | .error _ => pure []
        | .ok h => (← h.getArr?).toList.mapM parseOne
      let st := hist.foldl (fun st (e, pk, ds) => (TransJava.visitProgram e pk st ds).1) TransJava.St.init
      let (st', text) := TransJava.visitProgram env pkg st decls
      let hyps := TransJava.atomsOKL decls && TransJava.envOK env && TransJava.brFreeB pkg
      pure (Json.mkObj [("r", Json.str text), ("fuel", Json.num (JsonNumber.fromNat (TransJava.fuelOf decls))),
                        ("balanced", Json.bool (TransJava.balancedB text)), ("hyps", Json.bool hyps),
                        ("hyps_parts", Json.mkObj [("atoms", Json.bool (TransJava.atomsOKL decls)),
                                                   ("env", Json.bool (TransJava.envOK env)),
                                                   ("package", Json.bool (TransJava.brFreeB pkg))]),
                        ("reset", Json.bool (st'.ident == 0 && st'.xCounter == 0 && st'.mainChildren.isEmpty))]))
  | "java.scan" => some (do
      let text ← j.getObjValAs? String "text"
      pure (Json.mkObj [("r", Json.bool (TransJava.balancedB text))]))
  | _ => none

end Driver.TransJava
