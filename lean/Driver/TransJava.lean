import Driver.Util
open Lean
namespace Driver.TransJava

def handle : Handler := fun _ _ => none

end Driver.TransJava
