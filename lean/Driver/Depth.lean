import Driver.Util
import Driver.ProgJson
import Driver.Processor
import Heph.Model.Depth
import Heph.Generated.Skeleton
/-! C18 ops:
  `depth.expr`  {program export: tt, lang, decls, context} → {"r": {"decls": [exprDepth per top-level
                declaration], "region": [regionDepth per declaration], "max": n}}
  `depth.bound` {maxDepth, d} → {"r": B Generated.skeleton maxDepth d}  (plus the constants)
  `depth.erasure` {n0, n, maxComb, first: nat|null} → {"r": erasureTests …}
  `proc.*`      the ops of `Driver/Processor.lean` (ProgramProcessor and the loops of hephaestus.py) are
                registered through this family: an op not handled here is passed on to it -/
open Lean Heph Heph.Depth
namespace Driver.Depth

def ofNat (n : Nat) : Json := Json.num (JsonNumber.fromNat n)

def handle : Handler := fun op j =>
  match op with
  | "depth.expr" => some do
      let (_, p) ← parseProgramObj j
      let ds := p.decls.map exprDepth
      let rs := p.decls.map regionDepth
      pure (res (Json.mkObj [("decls", ofNatList ds), ("region", ofNatList rs),
                             ("max", ofNat (ds.foldl max 0))]))
  | "depth.bound" => some do
      let m ← getNat j "maxDepth"
      let d ← getNat j "d"
      pure (Json.mkObj [("r", ofNat (B Generated.skeleton m d)),
                        ("cutK", ofNat Generated.skeleton.cutK), ("maxCnt", ofNat Generated.skeleton.maxCnt),
                        ("ok", Json.bool (SkeletonOK Generated.skeleton)),
                        ("sameDepth", Json.arr (sameDepthSites.map (fun p => Json.arr #[Json.str p.1, Json.str p.2.1, Json.str p.2.2])).toArray)])
  | "depth.erasure" => some do
      let n0 ← getNat j "n0"
      let n ← getNat j "n"
      let mc ← getNat j "maxComb"
      let first := match j.getObjValD "first" with
        | .num k => some k.mantissa.toNat
        | _ => none
      pure (res (ofNat (erasureTests n0 n mc first)))
  | "depth.walk" => some do
      let n ← getNat j "n"
      let w := powerWalk (List.range n)
      pure (res (ofNatListList w))
  | _ => Driver.Processor.handle op j

end Driver.Depth
