import Driver.Util
open Lean
namespace Driver.Depth

def handle : Handler := fun _ _ => none

end Driver.Depth
