import Driver.Util
import Heph.Model.Diag
import Heph.Spec.Diag
open Lean Heph.Diag
namespace Driver.Diag

def parseCompiler : String → Except String Compiler
  | "java" => pure .javac
  | "kotlin" => pure .kotlinc
  | "groovy" => pure .groovyc
  | "scala" => pure .scalac
  | s => throw s!"unknown compiler {s}"

def str (l : List Char) : Json := Json.str (String.ofList l)

/-- text either as a JSON string or (for characters JSON escapes cannot carry safely) as an
array of code points under `<key>_cps` -/
def getText (j : Json) (k : String) : Except String (List Char) :=
  match j.getObjVal? (k ++ "_cps") with
  | .ok a => do
    let ns ← natList a
    pure (ns.map Char.ofNat)
  | .error _ => do
    let s ← getStr j k
    pure s.toList

def failedJson (f : Failed) : Json :=
  Json.arr (f.toArray.map fun p => Json.arr #[str p.1, Json.arr (p.2.toArray.map str)])

def getChars (j : Json) (k : String) : Except String (List Char) := do
  match j.getObjVal? k with
  | .ok v => do
    let s ← v.getStr?
    pure s.toList
  | .error _ => pure []

def parseItem (j : Json) : Except String Item := do
  let kind ← getStr j "k"
  let det : Except String (List (List Char)) := match j.getObjVal? "detail" with
    | .ok a => do
      let arr ← a.getArr?
      arr.toList.mapM fun x => do
        let s ← x.getStr?
        pure s.toList
    | .error _ => pure []
  let pad := match getNat j "pad" with
    | .ok n => n
    | .error _ => 0
  match kind with
  | "error" => pure (.error (← getChars j "file") (← getChars j "line") (← getChars j "col")
      (← getChars j "msg") pad (← det))
  | "warning" => pure (.warning (← getChars j "file") (← getChars j "line") (← getChars j "col")
      (← getChars j "msg") pad (← det))
  | "note" => pure (.note (← getChars j "text"))
  | "summary" => pure (.summary (← getChars j "count"))
  | s => throw s!"unknown item kind {s}"

def handle : Handler := fun op j =>
  match op with
  | "diag.render" => some do
      let c ← parseCompiler (← getStr j "compiler")
      let arr ← getArr j "items"
      let items ← arr.toList.mapM parseItem
      pure (res (Json.mkObj [
        ("text", str (render c items)),
        ("wf", Json.bool (items.all (wfItem c))),
        ("expected", failedJson (groupByFile (expected c items)))]))
  | "diag.analyze" => some do
      let c ← parseCompiler (← getStr j "compiler")
      let out ← getText j "output"
      let fs ← match j.getObjVal? "filters" with
        | .ok a => do
          let arr ← a.getArr?
          arr.toList.mapM fun x => do
            let s ← x.getStr?
            pure s.toList
        | .error _ => pure []
      let r := analyze c fs out
      pure (res (Json.mkObj [("crash", Json.bool r.crash), ("failed", failedJson r.failed)]))
  | "diag.findall" => some do
      let c ← parseCompiler (← getStr j "compiler")
      let out ← getText j "output"
      let ms := findAll (matcher c) out
      pure (res (Json.arr (ms.toArray.map fun p => Json.arr #[str p.1, str p.2])))
  | _ => none

end Driver.Diag
