import Driver.Util
open Lean
namespace Driver.Diag

def handle : Handler := fun _ _ => none

end Driver.Diag
