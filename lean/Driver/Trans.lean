import Driver.Util
open Lean
namespace Driver.Trans

def handle : Handler := fun _ _ => none

end Driver.Trans
