import Driver.Util
import Driver.Graph
import Driver.Ctx
import Driver.Oracle
import Driver.Diag
import Driver.Types
import Driver.Prog
import Driver.Trans
import Driver.Misc
import Driver.Switches
import Driver.Closed
import Driver.Check
import Driver.Mut
import Driver.Depth
import Driver.Unify
import Driver.Inst
import Driver.Find
import Driver.TransKotlin
import Driver.TransJava
import Driver.TransScala
import Driver.TransGroovy
/-! `hephdrv`: one JSON request per line on stdin, one JSON answer per line on stdout. -/
open Lean Driver

def handlers : List Handler :=
  [Driver.Graph.handle, Driver.Ctx.handle, Driver.Oracle.handle, Driver.Diag.handle,
   Driver.Types.handle, Driver.Prog.handle, Driver.Trans.handle, Driver.Misc.handle,
   Driver.Switches.handle, Driver.Closed.handle, Driver.Check.handle, Driver.Mut.handle, Driver.Depth.handle, Driver.Unify.handle, Driver.Inst.handle, Driver.Find.handle, Driver.TransKotlin.handle, Driver.TransJava.handle, Driver.TransScala.handle, Driver.TransGroovy.handle]

def dispatch (op : String) (j : Json) : Json :=
  let rec go : List Handler → Json
    | [] => Json.mkObj [("error", Json.str s!"unknown op {op}")]
    | h :: hs => match h op j with
      | some (.ok r) => r
      | some (.error e) => Json.mkObj [("error", Json.str e)]
      | none => go hs
  go handlers

partial def loop (hin hout : IO.FS.Stream) : IO Unit := do
  let line ← hin.getLine
  if line.isEmpty then return ()
  let out := match Json.parse line with
    | .error e => Json.mkObj [("error", Json.str s!"parse: {e}")]
    | .ok j => match j.getObjValAs? String "op" with
      | .error e => Json.mkObj [("error", Json.str e)]
      | .ok op => dispatch op j
  hout.putStrLn out.compress
  loop hin hout

def main : IO Unit := do
  let hin ← IO.getStdin
  let hout ← IO.getStdout
  loop hin hout
  hout.flush
