import Driver.Util
import Heph.Model.Pickle
import Heph.Generated.PickleClasses
/-! ops of the pickle machine (property C13).

value   : `null` | `true`/`false` | `{"i": n}` | `{"f": "repr"}` | `"u"` (empty tuple) | `a` (address)
object  : `["s", text]` `["t", [v…]]` `["l", [v…]]` `["d", [[k,v]…]]` `["S", [v…]]` `["F", [v…]]`
          `["g", m, q]` `["o", cls]` / `["o", cls, state]` `["r", callee, [[k,v]…]]` / `["r", callee, kvs, state]`
op-code : `"N" "T" "F" ["I", n] ["D", repr] ["U", s] "(" ["t", n] "tm" "]" "a" "e" "}" "s" "u" "set" "add" "fz"
          "sg" "new" "R" "b" "m" ["g", i] "0" "1" "."`
rooted heap : `{"objs": [object…], "root": value}` or `{"ops": [op-code…]}` (then it is `load`ed first)

`pickle.dump` {heap} → [op-code…] | "fail";  with "expect": [op-code…] → {"n", "equal", "first_diff", "model", "real"}
`pickle.load` {ops} → {"objs", "root"} in canonical numbering | "malformed"
`pickle.iso` {a, b} → bool | "malformed"
`pickle.nokeycycle` {heap} → bool (class table regenerated from the source)
`pickle.unready` {ops} → number of key insertions hashing an instance before its BUILD | "malformed"
`pickle.check` {p, q, ops} → all of the above for one program in one request
`pickle.hashreads` {} → the generated class table -/
open Lean Heph.Pickle
namespace Driver.Pickle

def hashReads (m q : String) : Bool := hashReadsOf Heph.Generated.PickleClasses.table m q

def parseVal (j : Json) : Except String Val :=
  match j with
  | .null => pure .none
  | .bool b => pure (.bool b)
  | .num n => if n.exponent == 0 && n.mantissa ≥ 0 then pure (.ref n.mantissa.toNat) else throw "bad address"
  | .str "u" => pure .unit
  | .obj _ =>
    match j.getObjVal? "i" with
    | .ok v => do pure (.int (← v.getInt?))
    | .error _ => do pure (.float (← getStr j "f"))
  | _ => throw "bad value"

def parseVals (j : Json) : Except String (List Val) := do
  (← j.getArr?).toList.mapM parseVal

def parseKvs (j : Json) : Except String (List (Val × Val)) := do
  (← j.getArr?).toList.mapM fun p => do
    let a ← p.getArr?
    if a.size != 2 then throw "pair expected"
    pure (← parseVal a[0]!, ← parseVal a[1]!)

def parseObj (j : Json) : Except String Obj := do
  let a ← j.getArr?
  if a.size < 2 then throw "object too short"
  match ← a[0]!.getStr? with
  | "s" => pure (.str (← a[1]!.getStr?))
  | "t" => pure (.tuple (← parseVals a[1]!))
  | "l" => pure (.list (← parseVals a[1]!))
  | "d" => pure (.dict (← parseKvs a[1]!))
  | "S" => pure (.set (← parseVals a[1]!))
  | "F" => pure (.frozenset (← parseVals a[1]!))
  | "g" => if a.size != 3 then throw "global" else pure (.global (← parseVal a[1]!) (← parseVal a[2]!))
  | "o" => if a.size == 2 then pure (.inst (← parseVal a[1]!) none)
           else pure (.inst (← parseVal a[1]!) (some (← parseVal a[2]!)))
  | "r" => if a.size == 3 then pure (.reduced (← parseVal a[1]!) (← parseKvs a[2]!) none)
           else if a.size == 4 then pure (.reduced (← parseVal a[1]!) (← parseKvs a[2]!) (some (← parseVal a[3]!)))
           else throw "reduced"
  | k => throw s!"unknown object kind {k}"

def parseOp (j : Json) : Except String Op :=
  match j with
  | .str "N" => pure .none | .str "T" => pure (.bool true) | .str "F" => pure (.bool false)
  | .str "(" => pure .mark | .str "tm" => pure .tupleMark
  | .str "]" => pure .emptyList | .str "a" => pure .append | .str "e" => pure .appends
  | .str "}" => pure .emptyDict | .str "s" => pure .setitem | .str "u" => pure .setitems
  | .str "set" => pure .emptySet | .str "add" => pure .additems | .str "fz" => pure .frozenset
  | .str "sg" => pure .stackGlobal | .str "new" => pure .newobj | .str "R" => pure .reduce
  | .str "b" => pure .build | .str "m" => pure .memoize | .str "0" => pure .pop | .str "1" => pure .popMark
  | .str "." => pure .stop
  | .arr a =>
    if a.size != 2 then throw "bad op" else do
    match ← a[0]!.getStr? with
    | "I" => pure (.int (← a[1]!.getInt?))
    | "D" => pure (.float (← a[1]!.getStr?))
    | "U" => pure (.str (← a[1]!.getStr?))
    | "t" => pure (.tupleN (← a[1]!.getNat?))
    | "g" => pure (.binget (← a[1]!.getNat?))
    | k => throw s!"unknown op {k}"
  | _ => throw "bad op"

def parseOps (j : Json) : Except String (List Op) := do
  (← j.getArr?).toList.mapM parseOp

def jNat (n : Nat) : Json := Json.num (JsonNumber.fromNat n)
def jInt (i : Int) : Json := Json.num (JsonNumber.fromInt i)

def valJ : Val → Json
  | .none => .null
  | .bool b => .bool b
  | .int i => Json.mkObj [("i", jInt i)]
  | .float s => Json.mkObj [("f", .str s)]
  | .unit => .str "u"
  | .ref a => jNat a

def valsJ (l : List Val) : Json := Json.arr (l.toArray.map valJ)
def kvsJ (l : List (Val × Val)) : Json := Json.arr (l.toArray.map fun p => Json.arr #[valJ p.1, valJ p.2])

def objJ : Obj → Json
  | .str s => Json.arr #[.str "s", .str s]
  | .tuple xs => Json.arr #[.str "t", valsJ xs]
  | .list xs => Json.arr #[.str "l", valsJ xs]
  | .dict kvs => Json.arr #[.str "d", kvsJ kvs]
  | .set xs => Json.arr #[.str "S", valsJ xs]
  | .frozenset xs => Json.arr #[.str "F", valsJ xs]
  | .global m q => Json.arr #[.str "g", valJ m, valJ q]
  | .inst c none => Json.arr #[.str "o", valJ c]
  | .inst c (some s) => Json.arr #[.str "o", valJ c, valJ s]
  | .reduced c kvs none => Json.arr #[.str "r", valJ c, kvsJ kvs]
  | .reduced c kvs (some s) => Json.arr #[.str "r", valJ c, kvsJ kvs, valJ s]

def opJ : Op → Json
  | .none => .str "N" | .bool true => .str "T" | .bool false => .str "F"
  | .int i => Json.arr #[.str "I", jInt i] | .float s => Json.arr #[.str "D", .str s]
  | .str s => Json.arr #[.str "U", .str s]
  | .mark => .str "(" | .tupleN n => Json.arr #[.str "t", jNat n] | .tupleMark => .str "tm"
  | .emptyList => .str "]" | .append => .str "a" | .appends => .str "e"
  | .emptyDict => .str "}" | .setitem => .str "s" | .setitems => .str "u"
  | .emptySet => .str "set" | .additems => .str "add" | .frozenset => .str "fz"
  | .stackGlobal => .str "sg" | .newobj => .str "new" | .reduce => .str "R" | .build => .str "b"
  | .memoize => .str "m" | .binget i => Json.arr #[.str "g", jNat i] | .pop => .str "0" | .popMark => .str "1"
  | .stop => .str "."

def heapJ (h : Heap) (r : Val) : Json :=
  Json.mkObj [("objs", Json.arr (h.map objJ)), ("root", valJ r)]

/-- a rooted heap given directly or as op-codes to be loaded -/
def parseRooted (j : Json) : Except String (Option (Heap × Val)) :=
  match j.getObjVal? "ops" with
  | .ok o => do pure (load (← parseOps o))
  | .error _ => do
    let objs ← (← getArr j "objs").mapM parseObj
    let r ← parseVal (← j.getObjVal? "root")
    pure (some (objs, r))

def firstDiff (a b : List Op) : Nat → Option (Nat × Option Op × Option Op)
  | i => match a, b with
    | [], [] => none
    | x :: xs, y :: ys => if x == y then firstDiff xs ys (i + 1) else some (i, some x, some y)
    | x :: _, [] => some (i, some x, none)
    | [], y :: _ => some (i, none, some y)

def handle : Handler := fun op j =>
  match op with
  | "pickle.dump" => some do
      match ← parseRooted (← j.getObjVal? "heap") with
      | none => pure (res (.str "malformed"))
      | some (h, r) =>
        match dump h r with
        | none => pure (res (.str "fail"))
        | some ops =>
          match j.getObjVal? "expect" with
          | .error _ => pure (res (Json.arr (ops.toArray.map opJ)))
          | .ok e => do
            let real ← parseOps e
            match firstDiff ops real 0 with
            | none => pure (res (Json.mkObj [("n", jNat ops.length), ("equal", .bool true)]))
            | some (i, m, r) => pure (res (Json.mkObj [("n", jNat ops.length), ("equal", .bool false),
                ("first_diff", jNat i), ("model", (m.map opJ).getD .null), ("real", (r.map opJ).getD .null)]))
  | "pickle.load" => some do
      match load (← parseOps (← j.getObjVal? "ops")) with
      | none => pure (res (.str "malformed"))
      | some (h, r) => let c := canon h r; pure (res (heapJ c.1 c.2))
  | "pickle.canon" => some do
      match ← parseRooted (← j.getObjVal? "heap") with
      | none => pure (res (.str "malformed"))
      | some (h, r) => let c := canon h r; pure (res (heapJ c.1 c.2))
  | "pickle.iso" => some do
      match ← parseRooted (← j.getObjVal? "a"), ← parseRooted (← j.getObjVal? "b") with
      | some (h, r), some (h', r') => pure (res (.bool (isoCheck h r h' r')))
      | _, _ => pure (res (.str "malformed"))
  | "pickle.nokeycycle" => some do
      match ← parseRooted (← j.getObjVal? "heap") with
      | none => pure (res (.str "malformed"))
      | some (h, r) => pure (res (.bool (noKeyCycle hashReads h r)))
  | "pickle.unready" => some do
      match unreadyKeys hashReads (← parseOps (← j.getObjVal? "ops")) with
      | none => pure (res (.str "malformed"))
      | some n => pure (res (jNat n))
  | "pickle.check" => some do
      -- everything the harness asks about one (p, real op-codes, q) in one request: parsed and loaded once
      let ops ← parseOps (← j.getObjVal? "ops")
      let hp ← parseRooted (← j.getObjVal? "p")
      let hq ← parseRooted (← j.getObjVal? "q")
      match hp, hq with
      | some (h, r), some (h', r') =>
        let dumpJ := match dump h r with
          | none => Json.str "fail"
          | some mops => match firstDiff mops ops 0 with
            | none => Json.mkObj [("n", jNat mops.length), ("equal", .bool true)]
            | some (i, m, rl) => Json.mkObj [("n", jNat mops.length), ("equal", .bool false),
                ("first_diff", jNat i), ("model", (m.map opJ).getD .null), ("real", (rl.map opJ).getD .null)]
        let (isoLQ, isoLP) := match load ops with
          | none => (Json.str "malformed", Json.str "malformed")
          | some (hl, rl) => (Json.bool (isoCheck hl rl h' r'), Json.bool (isoCheck hl rl h r))
        let unr := match unreadyKeys hashReads ops with
          | none => Json.str "malformed"
          | some n => jNat n
        pure (res (Json.mkObj [("dump", dumpJ), ("iso_load_q", isoLQ), ("iso_load_p", isoLP),
          ("iso_p_q", .bool (isoCheck h r h' r')), ("nokeycycle", .bool (noKeyCycle hashReads h r)),
          ("all_visited", .bool (dumpCount h r == some h.size)),
          ("unready", unr)]))
      | _, _ => pure (res (.str "malformed"))
  | "pickle.hashreads" => some do
      pure (res (Json.arr (Heph.Generated.PickleClasses.table.toArray.map fun e =>
        Json.arr #[.str e.1, .str e.2.1, .bool e.2.2.1, .bool e.2.2.2])))
  | _ => none

end Driver.Pickle
