import Driver.ProgJson
import Driver.Check
import Heph.Model.Mutation
import Heph.Model.Overwrite
/-! ops of the mutation family (C03, C04): program diffs, the feasibility test on an exported
    type graph, the choice of the combination, `str()` of types / the error message,
    unrelatedness.  Paths are answered root first, as `[[group, index], …]`. -/
open Lean Heph Heph.Mut
namespace Driver.Mut

def obJson (strict : Bool) (o : Heph.Check.Ob) : Json :=
  Json.arr #[ofStrList o.path, Json.str o.tag, Json.str o.j.detail, Json.str o.j.kinds, Json.bool strict]

def fieldJson : Field → Json
  | .varType => Json.arr #[Json.str "varType"]
  | .retType => Json.arr #[Json.str "retType"]
  | .newInfer => Json.arr #[Json.str "newInfer"]
  | .callInfer => Json.arr #[Json.str "callInfer"]
  | .newArg i => Json.arr #[Json.str "newArg", Json.num (JsonNumber.fromNat i)]
  | .callArg i => Json.arr #[Json.str "callArg", Json.num (JsonNumber.fromNat i)]

def pathJson (π : Path) : Json :=
  Json.arr (π.reverse.toArray.map fun s => ofNatList [s.1, s.2])

def siteJson (s : Site) : Json := Json.arr #[pathJson s.path, fieldJson s.field]

/-! first structural difference of two trees (diagnostics only, not part of the model) -/
mutual
partial def firstDiffN (π : Path) (a b : Node) : Option Path :=
  if nodeEq a b then none else
  let kids (xs ys : List (Nat × List Node × List Node)) : Option Path :=
    xs.zip ys |>.foldl (fun acc (p, _) => match acc with
      | some r => some r
      | none => firstDiffL π p.1 0 p.2.1 p.2.2) none
  let r : Option Path := match a, b with
    | .block x _, .block y _ => kids [(0, x, y)] [(0, x, y)]
    | .superInst _ (some x), .superInst _ (some y) => kids [(0, x, y)] [(0, x, y)]
    | .classDecl _ _ _ f s fn _, .classDecl _ _ _ f' s' fn' _ =>
        let l := [(0, f, f'), (1, s, s'), (2, fn, fn')]; kids l l
    | .varDecl _ e _ _ _, .varDecl _ e' _ _ _ => kids [(0, [e], [e'])] [(0, [e], [e'])]
    | .callArg e _, .callArg e' _ => kids [(0, [e], [e'])] [(0, [e], [e'])]
    | .paramDecl _ _ _ d, .paramDecl _ _ _ d' => kids [(0, d.toList, d'.toList)] [(0, d.toList, d'.toList)]
    | .funcDecl _ ps _ _ bd _ _ _ _, .funcDecl _ ps' _ _ bd' _ _ _ _ =>
        let l := [(0, ps, ps'), (1, bd.toList, bd'.toList)]; kids l l
    | .lambda _ ps _ bd _, .lambda _ ps' _ bd' _ => let l := [(0, ps, ps'), (1, [bd], [bd'])]; kids l l
    | .funcRef _ r _, .funcRef _ r' _ => kids [(0, r.toList, r'.toList)] [(0, r.toList, r'.toList)]
    | .arrayE _ _ es, .arrayE _ _ es' => kids [(0, es, es')] [(0, es, es')]
    | .isE e _ _, .isE e' _ _ => kids [(0, [e], [e'])] [(0, [e], [e'])]
    | .binop _ l r _, .binop _ l' r' _ => let k := [(0, [l], [l']), (1, [r], [r'])]; kids k k
    | .cond c t f _, .cond c' t' f' _ => let k := [(0, [c], [c']), (1, [t], [t']), (2, [f], [f'])]; kids k k
    | .newE _ x _, .newE _ y _ => kids [(0, x, y)] [(0, x, y)]
    | .fieldAccess e _, .fieldAccess e' _ => kids [(0, [e], [e'])] [(0, [e], [e'])]
    | .call _ x r _ _ _, .call _ y r' _ _ _ => let k := [(0, x, y), (1, r.toList, r'.toList)]; kids k k
    | .assign _ e r, .assign _ e' r' => let k := [(0, [e], [e']), (1, r.toList, r'.toList)]; kids k k
    | _, _ => none
  match r with
  | some p => some p
  | none => some π
partial def firstDiffL (π : Path) (g i : Nat) (xs ys : List Node) : Option Path :=
  match xs, ys with
  | [], [] => none
  | x :: xs, y :: ys =>
    (match firstDiffN ((g, i) :: π) x y with
     | some p => some p
     | none => firstDiffL π g (i + 1) xs ys)
  | _, _ => some π
end

def firstDiff (p q : Program) : Json :=
  match firstDiffL [] 0 0 p.decls q.decls with
  | some π => pathJson π
  | none => if p.lang != q.lang then Json.str "lang" else Json.str "context"

/-! the type graph -/
def parseKind : String → TGKind
  | "type" => .typeN | "decl" => .declN | "instcall" => .instCall | "instdecl" => .instDecl
  | "tvar" => .tvar | _ => .other

def parseTGNode (tbl : Array Ty) (j : Json) : Except String TGNode := do
  let k := parseKind (← getStr j "k")
  let id := match j.getObjValD "id" with | .str s => s | _ => "?"
  let pid := match j.getObjValD "pid" with | .str s => some s | _ => none
  let tk := match j.getObjValD "tk" with | .str s => s | _ => "none"
  let t ← match tk with
    | "ty" => do pure (TRef.ty (← tyAt tbl j "t"))
    | "other" => pure TRef.other
    | _ => pure TRef.none
  let asg ← match j.getObjVal? "assign" with
    | .error _ => pure []
    | .ok v => do
      (← v.getArr?).toList.mapM fun e => do
        let p ← e.getArr?
        if p.size != 2 then throw "assign pair expected"
        let a ← p[0]!.getNat?
        let b ← p[1]!.getNat?
        match tbl[a]?, tbl[b]? with
        | some x, some y => pure (x, y)
        | _, _ => throw "assign index out of range"
  pure { kind := k, nodeId := id, parentId := pid, t := t, assign := asg }

def parseEdges (j : Json) : Except String Edges := do
  (← j.getArr?).toList.mapM fun e => do
    let p ← e.getArr?
    if p.size != 2 then throw "edges entry must be [key, [[target, declared]…]]"
    let k ← p[0]!.getNat?
    let es ← (← p[1]!.getArr?).toList.mapM fun x => do
      let q ← x.getArr?
      if q.size != 2 then throw "edge must be [target, declared]"
      pure (← q[0]!.getNat?, (← q[1]!.getNat?) == 1)
    pure (k, es)

def parseTG (j : Json) : Except String (List TGNode × Edges) := do
  let tbl ← parseTable j
  let nodes ← (← getArr j "nodes").toList.mapM (parseTGNode tbl)
  let edges ← parseEdges (← j.getObjVal? "edges")
  pure (nodes, edges)

def ferr : FErr → Json
  | .keyError => Json.str "KeyError"
  | .assertionError => Json.str "AssertionError"
  | .attributeError => Json.str "AttributeError"
  | .fuel => Json.str "fuel"

def fres : Except FErr Bool → Json
  | .ok b => Json.bool b
  | .error e => ferr e

def natListList (j : Json) : Except String (List (List Nat)) := do
  (← j.getArr?).toList.mapM natList

def relJson (extra : List (String × String)) (a b : Ty) : Json :=
  Json.mkObj [("unrelated", Json.bool (unrelated extra a b)),
    ("rel", Json.arr #[resToJson (Ty.isSubtype a b), resToJson (Ty.isSubtype b a),
                       resToJson (Ty.isAssignable extra a b), resToJson (Ty.isAssignable extra b a)])]

def handle : Handler := fun op j =>
  match op with
  | "mut.erasure_diff" => some (do
      let (_, p) ← parseProgramObj (← j.getObjVal? "before")
      let (_, q) ← parseProgramObj (← j.getObjVal? "after")
      match erasureDiff p q with
      | some S => pure (res (Json.mkObj [("sites", Json.arr (S.toArray.map siteJson))]))
      | none =>
        let S := candSites (slots p) (slots q)
        pure (res (Json.mkObj [("not", Json.str "not-an-erasure"), ("at", firstDiff (eraseAt S p) q),
          ("cand", Json.num (JsonNumber.fromNat S.length))])))
  | "mut.overwrite_diff" => some (do
      let (_, p) ← parseProgramObj (← j.getObjVal? "before")
      let (_, q) ← parseProgramObj (← j.getObjVal? "after")
      let extra ← parsePairs j "extra"
      let bn ← parsePairs j "bnames"
      match overwriteDiff p q with
      | .none => pure (res (Json.str "none"))
      | .more => pure (res (Json.mkObj [("more", firstDiff p q),
          ("ndiff", Json.num (JsonNumber.fromNat (slotDiffs (slots p) (slots q)).length))]))
      | .one s old new =>
        pure (res (Json.mkObj [("site", siteJson s), ("old_str", Json.str (pyStr bn old)),
          ("new_str", Json.str (pyStr bn new)), ("old_name", Json.str (Ty.getName old)),
          ("new_name", Json.str (Ty.getName new)),
          ("old_prim", Json.bool old.isPrim), ("new_prim", Json.bool new.isPrim),
          ("old_builtin", Json.bool old.isBuiltin), ("new_builtin", Json.bool new.isBuiltin),
          ("rel", relJson extra old new)])))
  | "mut.feasible" => some (do
      let (nodes, edges) ← parseTG j
      match j.getObjVal? "combinations" with
      | .ok cs => do
        let cs ← natListList cs
        pure (res (Json.arr (cs.toArray.map fun c => fres (feasible nodes edges c))))
      | .error _ => do
        let c ← getNatList j "combination"
        pure (res (fres (feasible nodes edges c))))
  | "mut.pick" => some (do
      let (nodes, edges) ← parseTG j
      let om ← getNatList j "omittable"
      let max ← getNat j "max"
      let qs ← match j.getObjVal? "queries" with | .ok v => natListList v | .error _ => pure []
      let searchToo := match j.getObjVal? "search" with | .ok (.bool false) => false | _ => true
      match prefilter nodes edges om [] [] with
      | .error e => pure (res (ferr e))
      | .ok (g', kept, singles) =>
        let post := Json.arr (qs.toArray.map fun c => fres (feasible nodes g' c))
        let base := [("kept", ofNatList kept), ("singles", Json.arr (singles.toArray.map Json.bool)), ("post", post)]
        if !searchToo then pure (res (Json.mkObj base)) else
        match pick nodes edges om max with
        | .error e => pure (res (ferr e))
        | .ok r =>
          pure (res (Json.mkObj (base ++ [
            ("chosen", match r.chosen with | some c => ofNatList c | none => Json.null),
            ("asked", Json.num (JsonNumber.fromNat r.asked)), ("cutoff", Json.bool r.cutoff)]))))
  | "mut.combos" => some (do
      let xs ← getNatList j "xs"
      pure (res (ofNatListList (allCombos xs))))
  | "mut.message" => some (do
      let tbl ← parseTable j
      pure (res (Json.str (errorMessage (← parsePairs j "bnames") (← tyAt tbl j "old") (← tyAt tbl j "new")
        (← getStr j "node_id")))))
  | "mut.str" => some (do
      let tbl ← parseTable j
      let bn ← parsePairs j "bnames"
      let ts ← tyListAt tbl j "ts"
      pure (res (ofStrList (ts.map (pyStr bn)))))
  | "mut.wt" => some (do
      -- {program export + "bt"} → {"ok": strictOk, "lenient": checkProgram = ok, "n": obligations,
      --  "nfail", "fail": [[path, tag, detail, kinds, strict?] …] (first 60)}: the checker of C01 plus the strict
      --  reading of bottom constants (Model/Overwrite.lean)
      let (tbl, p) ← parseProgramObj j
      let lt ← Driver.Check.parseLangTypes tbl j
      let f1 := Heph.Check.failures lt p
      let f2 := strictFailures lt p
      pure (res (Json.mkObj [("ok", Json.bool (strictOk lt p)), ("lenient", Json.bool f1.isEmpty),
        ("n", Json.num (JsonNumber.fromNat (Heph.Check.progObs lt p).length)),
        ("nfail", Json.num (JsonNumber.fromNat (f1.length + f2.length))),
        ("fail", Json.arr (((f1.map (obJson false)) ++ (f2.map (obJson true))).take 60).toArray)])))
  | "mut.pick_arg" => some (do
      -- {tt, "tparams": [idx], "args": [idx], "tvars": [[idx, inferred?] …], "k": draw [, "expect": idx of old]}
      --  → "no-type-param" | "KeyError" | {"index": i, "old": true | tree, "constrained": number}
      let tbl ← parseTable j
      let tps ← tyListAt tbl j "tparams"
      let args ← tyListAt tbl j "args"
      let tvs ← (← getArr j "tvars").toList.mapM fun e => do
        let a ← e.getArr?
        if a.size != 2 then throw "tvars entry must be [type, inferred]"
        let i ← a[0]!.getNat?
        match tbl[i]?, a[1]! with
        | some t, .bool b => pure ({ t := t, inferred := b } : TVar)
        | _, _ => throw "tvars entry must be [type index, bool]"
      let k ← getNat j "k"
      match pickArg tps args tvs k with
      | .noTypeParam => pure (res (Json.str "no-type-param"))
      | .keyError => pure (res (Json.str "KeyError"))
      | .arg i old => pure (res (Json.mkObj [("index", Json.num (JsonNumber.fromNat i)), ("old", answerTy tbl j old),
          ("constrained", Json.num (JsonNumber.fromNat (constrained tvs).length)),
          ("distinct", Json.bool (distinctParams tps))])))
  | "mut.unrelated" => some (do
      let tbl ← parseTable j
      pure (res (relJson (← parsePairs j "extra") (← tyAt tbl j "a") (← tyAt tbl j "b"))))
  | _ => none

end Driver.Mut
