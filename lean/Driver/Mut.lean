import Driver.Util
open Lean
namespace Driver.Mut

def handle : Handler := fun _ _ => none

end Driver.Mut
