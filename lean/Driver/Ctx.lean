import Driver.Util
import Heph.Model.Context
/-! op `ctx.run`: a whole operation sequence (mutators and queries interleaved) is run through
the model of `context.py`; the answer is the list of the query results in order.

request `{"op":"ctx.run","ops":[item,…]}` with items
```
["add", kind5, ns, name, val]        ["remove", kind5, ns, name]      ["remove_namespace", ns]
["get", kind6, ns, only_current, glob, none]       -- get_types/funcs/lambdas/vars/classes/declarations
["find_namespaces", ns, none]        ["namespaces_decls", ns, name, kind6, glob]
["get_decl", ns, name]  ["get_lambda", ns, name]  ["get_decl_type", ns, name]
["declarations_in", ns] ["get_namespace", val]    ["get_parent", ns]  ["get_parent_class", ns]
["lookup", ns, name, limit|null]     -- module function get_decl
["dump"]                             -- the whole state
```
`val` = `null` | `["n", id, isClass]` | `["t", key]`.  Dictionaries are answered as ordered
lists of `[name, value]` pairs (order is part of the property), sets sorted by their JSON text. -/
open Lean Heph.Context
namespace Driver.Ctx

def parseNs (j : Json) : Except String Ns := do
  let a ← j.getArr?
  a.toList.mapM fun x => x.getStr?

def parseVal (j : Json) : Except String Val :=
  match j with
  | .null => pure .none
  | .arr a =>
    if a.size == 3 then do
      let t ← a[0]!.getStr?
      if t != "n" then throw "bad node value"
      pure (.node (← a[1]!.getNat?) (← a[2]!.getBool?))
    else if a.size == 2 then do
      let t ← a[0]!.getStr?
      if t != "t" then throw "bad tparam value"
      pure (.tparam (← a[1]!.getStr?))
    else throw "bad value"
  | _ => throw "bad value"

def parseKind (s : String) : Except String Kind :=
  match s with
  | "types" => pure .types | "funcs" => pure .funcs | "lambdas" => pure .lambdas
  | "vars" => pure .vars | "classes" => pure .classes | "decls" => pure .decls
  | _ => throw s!"bad kind {s}"

def parseEKind (s : String) : Except String EKind :=
  match s with
  | "types" => pure .types | "funcs" => pure .funcs | "lambdas" => pure .lambdas
  | "vars" => pure .vars | "classes" => pure .classes
  | _ => throw s!"bad entity kind {s}"

def ofVal : Val → Json
  | .none => Json.null
  | .node i b => Json.arr #[Json.str "n", Json.num (JsonNumber.fromNat i), Json.bool b]
  | .tparam k => Json.arr #[Json.str "t", Json.str k]

def ofNs (ns : Ns) : Json := ofStrList ns

def ofDict (d : Dict) : Json := Json.arr (d.toArray.map fun e => Json.arr #[Json.str e.1, ofVal e.2])

def sortJson (l : List Json) : Json :=
  let a := (l.toArray.map fun j => (j.compress, j)).qsort (fun x y => x.1 < y.1)
  Json.arr (a.map (·.2))

def ofRes {α : Type} (f : α → Json) : Res α → Json
  | .ok a => f a
  | .assertionError => Json.str "AssertionError"
  | .indexError => Json.str "IndexError"
  | .fuel => Json.str "fuel"

def ofTag : TypeTag → Json
  | .noneType => Json.str "NoneType"
  | .classDeclaration => Json.str "ClassDeclaration"
  | .otherNode => Json.str "Node"
  | .typeParameter => Json.str "TypeParameter"

def ofEntities (e : Entities) : Json :=
  Json.arr #[ofDict e.types, ofDict e.funcs, ofDict e.lambdas, ofDict e.vars, ofDict e.classes, ofDict e.decls]

def dump (c : Ctx) : Json :=
  Json.arr #[
    Json.arr (c.context.toArray.map fun e => Json.arr #[ofNs e.1, ofEntities e.2]),
    sortJson (c.namespaces.map fun e => Json.arr #[ofVal e.1, ofNs e.2])]

/-- one item: a new state, or a query answer -/
def item (c : Ctx) (j : Json) : Except String (Ctx × Option Json) := do
  let a ← j.getArr?
  if a.size == 0 then throw "empty item"
  let tag ← a[0]!.getStr?
  let need (n : Nat) : Except String Unit :=
    if a.size == n then pure () else throw s!"{tag}: expected {n} fields"
  match tag with
  | "add" => do
      need 5
      pure (addK c (← parseEKind (← a[1]!.getStr?)) (← parseNs a[2]!) (← a[3]!.getStr?) (← parseVal a[4]!), none)
  | "remove" => do
      need 4
      pure (removeK c (← parseEKind (← a[1]!.getStr?)) (← parseNs a[2]!) (← a[3]!.getStr?), none)
  | "remove_namespace" => do
      need 2
      pure (removeNamespace c (← parseNs a[1]!), none)
  | "get" => do
      need 6
      let r := getDeclarations c (← parseNs a[2]!) (← parseKind (← a[1]!.getStr?))
        (← a[3]!.getBool?) (← a[4]!.getBool?) (← a[5]!.getBool?)
      pure (c, some (ofRes ofDict r))
  | "find_namespaces" => do
      need 3
      let r := findNamespaces c (← parseNs a[1]!) (← a[2]!.getBool?)
      pure (c, some (ofRes (fun l => Json.arr (l.toArray.map ofNs)) r))
  | "namespaces_decls" => do
      need 5
      let r := getNamespacesDecls c (← parseNs a[1]!) (← a[2]!.getStr?) (← parseKind (← a[3]!.getStr?))
        (← a[4]!.getBool?)
      pure (c, some (ofRes (fun l => sortJson (l.map fun e => Json.arr #[ofNs e.1, ofVal e.2])) r))
  | "get_decl" => do
      need 3
      pure (c, some (ofVal (getDeclM c (← parseNs a[1]!) (← a[2]!.getStr?))))
  | "get_lambda" => do
      need 3
      pure (c, some (ofVal (getLambda c (← parseNs a[1]!) (← a[2]!.getStr?))))
  | "get_decl_type" => do
      need 3
      pure (c, some (ofTag (getDeclType c (← parseNs a[1]!) (← a[2]!.getStr?))))
  | "declarations_in" => do
      need 2
      let r := getDeclarationsIn c (← parseNs a[1]!)
      pure (c, some (Json.arr (r.toArray.map fun e => Json.arr #[ofNs e.1, ofDict e.2])))
  | "get_namespace" => do
      need 2
      pure (c, some (match getNamespace c (← parseVal a[1]!) with
        | some ns => ofNs ns
        | none => Json.null))
  | "get_parent" => do
      need 2
      pure (c, some (ofVal (getParent c (← parseNs a[1]!))))
  | "get_parent_class" => do
      need 2
      pure (c, some (ofVal (getParentClass c (← parseNs a[1]!))))
  | "lookup" => do
      need 4
      let limit ← match a[3]! with
        | .null => pure none
        | l => do pure (some (← parseNs l))
      pure (c, some (match getDecl c (← parseNs a[1]!) (← a[2]!.getStr?) limit with
        | some (ns, v) => Json.arr #[ofNs ns, ofVal v]
        | none => Json.null))
  | "dump" => pure (c, some (dump c))
  | _ => throw s!"unknown item {tag}"

def runItems (items : List Json) : Except String (List Json) := do
  let mut c := Ctx.empty
  let mut out : Array Json := #[]
  for j in items do
    let (c', r) ← item c j
    c := c'
    match r with
    | some x => out := out.push x
    | none => pure ()
  pure out.toList

def handle : Handler := fun op j =>
  match op with
  | "ctx.run" => some (do
      let items ← getArr j "ops"
      let out ← runItems items.toList
      pure (res (Json.arr out.toArray)))
  | _ => none

end Driver.Ctx
