import Driver.Util
open Lean
namespace Driver.Ctx

def handle : Handler := fun _ _ => none

end Driver.Ctx
