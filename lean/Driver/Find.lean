import Driver.Util
open Lean
namespace Driver.Find

def handle : Handler := fun _ _ => none

end Driver.Find
