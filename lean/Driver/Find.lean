import Driver.TyJson
import Heph.Model.Find
/-! ops of the family `find` (C09):

* `find.types {tt, etype, types, get_subtypes, include_self, bound?, related?, expect?}` → the
  model's `_find_types` answer (concrete_only = False): `true` when the request carries
  `"expect": [idx…]` and the two are equal as sets (by the IR's `==`, same number of distinct
  elements), else the list of canonical trees — or the name of the exception;
* `find.check {tt, B, etype, get_subtypes, include_self, concrete_only, bound?, results}` →
  `{ok, bad: [positions of results failing resultOK], self: is the query among the results}`;
* `find.avail {tt, types, relevant, expect?}` → `available_types`, compared as a list;
* `find.irrelevant {tt, B, any, etype, result?}` → `{ok, early, sub, sup, tcon}`;
* `find.subd {tt, B, s, t}` → the declarative decider's answer;
* `find.cand {tt, pvar, base, get_subtypes, ignore_variance, answers, call_types, call_dirs, expect}` →
  `true` when the recorded nested `_find_types` calls are the model's `candidateCalls` and the recorded
  result is `candidateArgs` of the recorded answers (as lists), else the details;
* `find.irrparam {tt, con, type_args, choices, expect?}` → `true` when `irrelevantParam` == the recorded answer. -/
open Lean Heph Heph.Ty Heph.Find
namespace Driver.Find

def frToJson (f : List Ty → Json) : FR (List Ty) → Json
  | .ok l => f l
  | .typeError => Json.str "TypeError"
  | .attrError => Json.str "AttributeError"
  | .fuel => Json.str "fuel"

def optList (tbl : Array Ty) (j : Json) (k : String) : Except String (Option (List Ty)) :=
  match j.getObjVal? k with
  | .error _ => pure none
  | .ok v => do pure (some (← idxList tbl v))

def setEq (a b : List Ty) : Bool :=
  a.all (fun x => memBeq x b) && b.all (fun x => memBeq x a) && (toSet a).length == (toSet b).length

def listEq : List Ty → List Ty → Bool
  | [], [] => true
  | x :: xs, y :: ys => structEq x y && listEq xs ys
  | _, _ => false

def bflag (j : Json) (k : String) : Bool :=
  match j.getObjVal? k with
  | .ok (Json.bool b) => b
  | _ => false

def handle : Handler := fun op j =>
  match op with
  | "find.types" => some (do
      let tbl ← parseTable j
      let etype ← tyAt tbl j "etype"
      let types ← tyListAt tbl j "types"
      let bound ← tyOptAt tbl j "bound"
      let related ← tyOptAt tbl j "related"
      let exp ← optList tbl j "expect"
      let r := findTypes etype types (bflag j "get_subtypes") (bflag j "include_self") bound related
      pure (res (frToJson (fun l =>
        match exp with
        | some e => if setEq l e then Json.bool true else tysToJson l
        | none => tysToJson l) r)))
  | "find.check" => some (do
      let tbl ← parseTable j
      let etype ← tyAt tbl j "etype"
      let B ← tyListAt tbl j "B"
      let bound ← tyOptAt tbl j "bound"
      let rs ← tyListAt tbl j "results"
      let gs := bflag j "get_subtypes"
      let is := bflag j "include_self"
      let co := bflag j "concrete_only"
      pure (res (Json.mkObj [
        ("ok", Json.bool (subtypesOK B gs is co bound etype rs)),
        ("bad", ofNatList (badResults B gs co etype rs)),
        ("self", Json.bool (memBeq etype rs)),
        ("self_demanded", Json.bool (selfDemanded B gs co bound etype))])))
  | "find.avail" => some (do
      let tbl ← parseTable j
      let types ← tyListAt tbl j "types"
      let rel ← tyListAt tbl j "relevant"
      let exp ← optList tbl j "expect"
      let v := match j.getObjVal? "variant" with
        | .ok (Json.str "asIs") => Variant.asIs
        | .ok (Json.str "repaired") => Variant.repaired
        | _ => Variant.current
      let anyT ← tyOptAt tbl j "any"
      let etype ← tyOptAt tbl j "etype"
      let r := match v, anyT, etype with
        | .repaired, some a, some e => availTypesV .repaired a e types rel
        | _, _, _ => FR.ok (availTypes types rel)
      pure (res (frToJson (fun l => match exp with
        | some e => if listEq l e then Json.bool true else tysToJson l
        | none => tysToJson l) r)))
  | "find.current" => some (pure (res (Json.str (match Variant.current with
      | .asIs => "asIs" | .repaired => "repaired"))))
  | "find.irrelevant" => some (do
      let tbl ← parseTable j
      let etype ← tyAt tbl j "etype"
      let anyT ← tyAt tbl j "any"
      let B ← tyListAt tbl j "B"
      let r ← tyOptAt tbl j "result"
      let tgt := irrTarget anyT etype
      pure (res (Json.mkObj [
        ("ok", Json.bool (irrelevantOK B anyT etype r)),
        ("top", Json.bool (beq etype anyT)),
        ("early", Json.bool (irrEarly anyT etype)),
        ("sub", Json.bool (match r with | some x => subJ B x tgt | none => false)),
        ("sup", Json.bool (match r with | some x => subJ B tgt x | none => false)),
        ("tcon", Json.bool (match r with | some x => x.isTCon | none => false))])))
  | "find.cand" => some (do
      let tbl ← parseTable j
      let base ← tyAt tbl j "base"
      let pvar ← getNat j "pvar"
      let gs := bflag j "get_subtypes"
      let iv := bflag j "ignore_variance"
      let answers ← match j.getObjVal? "answers" with
        | .ok (Json.arr a) => a.toList.mapM (idxList tbl)
        | _ => throw "answers missing"
      -- the recorded answers are handed to the model in the order of the MODEL's calls
      let hasSelf := (candDirSelf pvar gs iv).isSome
      let selfAns := if hasSelf then answers.headD [] else []
      let projAns := if hasSelf then (answers.drop 1).headD [] else answers.headD []
      let callTys ← tyListAt tbl j "call_types"
      let callDirs := match j.getObjVal? "call_dirs" with
        | .ok (Json.arr a) => a.toList.map fun x => match x with | Json.bool b => b | _ => false
        | _ => []
      let exp ← tyListAt tbl j "expect"
      let mc := candidateCalls pvar base gs iv
      let callsOk := listEq (mc.map (·.1)) callTys && mc.map (·.2) == callDirs && answers.length == mc.length
      let r := candidateArgs pvar base gs iv selfAns projAns
      if callsOk && listEq r exp then pure (res (Json.bool true))
      else pure (res (Json.mkObj [
        ("calls_ok", Json.bool callsOk),
        ("model_calls", Json.arr (mc.toArray.map fun c => Json.mkObj [("etype", Json.str (getName c.1)), ("get_subtypes", Json.bool c.2)])),
        ("result_ok", Json.bool (listEq r exp)),
        ("model", Json.arr (r.toArray.map fun t => Json.str (getName t)))])))
  | "find.irrparam" => some (do
      let tbl ← parseTable j
      let con ← tyAt tbl j "con"
      let typeArgs ← tyListAt tbl j "type_args"
      let chs ← match j.getObjVal? "choices" with
        | .ok (Json.arr a) => a.toList.mapM (idxOpt tbl)
        | _ => throw "choices missing"
      let exp ← tyOptAt tbl j "expect"
      let r := irrelevantParam con typeArgs chs
      let same := match r, exp with
        | none, none => true
        | some (.param _ _ as _), some (.param nm c as' ss) => beq (.param nm c as' ss) (r.getD .nothing) && structEqL as as'
        | _, _ => false
      if same then pure (res (Json.bool true))
      else pure (res (Json.mkObj [("model", match r with | some t => Json.str (getName t) | none => Json.null),
                                  ("model_none", Json.bool r.isNone)])))
  | "find.subd" => some (do
      let tbl ← parseTable j
      let B ← tyListAt tbl j "B"
      pure (res (Json.bool (subJ B (← tyAt tbl j "s") (← tyAt tbl j "t")))))
  | _ => none

end Driver.Find
