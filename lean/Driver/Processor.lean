import Driver.Util
import Heph.Model.Processor
/-! C18 / C13 ops on the model of `ProgramProcessor` and the loops of `hephaestus.py`
    (registered through `Driver/Depth.lean`, the pre-registered family file of C18):

  `proc.run` {args: {replay, transformations: nat|null, lines: [str], types: [str], keepAll, onlyCP},
              cps: [registered CP class names], drawn: [[class names drawn for iteration i]],
              stored: [nat], genBase: nat, script: [{raise: bool, mark: nat|null, fresh: nat|null, t: bool, info: str}],
              iterations: nat, first: nat, loader: "fresh"|"cached", step: "real"|"late"}
     → {"r": [per iteration {pid, status, start, startAddr, steps, cur, transformations, injected, programs, saves}]}

  A program's content is a list of marks.  `script[k]` is what the k-th transformer run (counted over all
  iterations) does: append `mark` to the program it was given (in place), return that object or a deep copy
  with `fresh` appended, report `is_transformed = t` and the note `info`; or raise after the in-place mark.
  Runs beyond the script change nothing and report `is_transformed = False`. -/
open Lean Heph.Processor
namespace Driver.Processor

structure Act where
  raise : Bool
  mark : Option Nat
  fresh : Option Nat
  t : Bool
  info : String

def optNat (j : Json) (k : String) : Option Nat :=
  match j.getObjValD k with
  | .num n => some n.mantissa.toNat
  | _ => none

def parseAct (j : Json) : Except String Act := do
  let raise := (getBool j "raise").toOption.getD false
  let t := (getBool j "t").toOption.getD false
  let info := (getStr j "info").toOption.getD ""
  pure ⟨raise, optNat j "mark", optNat j "fresh", t, info⟩

def behOf (script : Array Act) : Beh (List Nat) := fun call _ _ _ p =>
  match script[call]? with
  | none => .ran p none false ""
  | some a =>
      let after := match a.mark with | some m => p ++ [m] | none => p
      if a.raise then .raises after a.info
      else .ran after (a.fresh.map fun m => after ++ [m]) a.t a.info

def strList (j : Json) : Except String (List String) := do
  let a ← j.getArr?
  a.toList.mapM fun x => x.getStr?

def destStr : Dest → String
  | .generator p => s!"generator/{p}"
  | .transformation p t => s!"transformation/{p}/{t}"
  | .correct p => s!"correct/{p}"
  | .tmp p => s!"tmp/{p}"
  | .generatorIncorrect p => s!"generatorIncorrect/{p}"
  | .incorrect p => s!"incorrect/{p}"
  | .tmpIncorrect p => s!"tmpIncorrect/{p}"

def statusStr : Status → String
  | .done => "done"
  | .failed m => "failed:" ++ m
  | .raised m => "raised:" ++ m
  | .fuel => "fuel"

def ofNat (n : Nat) : Json := Json.num (JsonNumber.fromNat n)

def iterJson (r : IterRes (List Nat)) : Json :=
  Json.mkObj [
    ("pid", ofNat r.pid), ("status", Json.str (statusStr r.status)),
    ("start", match r.start with | some l => ofNatList l | none => Json.null),
    ("startAddr", match r.startAddr with | some a => ofNat a | none => Json.null),
    ("steps", ofNat r.steps), ("cur", ofNat r.cur), ("transformations", ofStrList r.transformations),
    ("injected", match r.injected with | some e => Json.str e | none => Json.null),
    ("programs", Json.arr (r.programs.map (fun p => Json.arr #[Json.str (destStr p.1), Json.bool p.2])).toArray),
    ("saves", Json.arr (r.saves.map (fun s => Json.mkObj [("dest", Json.str (destStr s.dest)),
        ("text", ofNatList s.text), ("bin", ofNatList s.bin)])).toArray)]

def handle : Handler := fun op j =>
  match op with
  | "proc.run" => some do
      let a ← j.getObjVal? "args"
      let args : Args := {
        replay := ← getBool a "replay"
        transformations := optNat a "transformations"
        scheduleLines := ← strList (← a.getObjVal? "lines")
        transformationTypes := ← strList (← a.getObjVal? "types")
        keepAll := ← getBool a "keepAll"
        onlyCP := ← getBool a "onlyCP" }
      let cps ← strList (← j.getObjVal? "cps")
      let drawn ← (← getArr j "drawn").toList.mapM strList
      let stored ← getNatList j "stored"
      let genBase ← getNat j "genBase"
      let script ← (← getArr j "script").mapM parseAct
      let n ← getNat j "iterations"
      let first ← getNat j "first"
      let loader ← getStr j "loader"
      let stepName ← getStr j "step"
      let load : Loader (List Nat) := if loader == "cached" then cachedLoad else freshLoad
      let step : Step (List Nat) := if stepName == "late" then transformProgramLate else transformProgram
      let schedules : Nat → Except String (List String) := fun pid =>
        getSchedule args cps (drawn.getD (pid - first) [])
      let (_, rs) := runIterations step (behOf script) args load stored (fun pid => [genBase + pid]) schedules n first {}
      pure (res (Json.arr (rs.map iterJson).toArray))
  | _ => none

end Driver.Processor
