import Driver.ProgJson
import Heph.Model.Check
import Heph.Model.CondType
/-! ops of the C01 family.
  `check.wt` {program export + "bt": {"any","void","boolean","char","string","integer": index into tt,
  "builtins": [indices]}} → {"r": "ok" | {"path": [...], "reason": tag, "detail": text},
  "n": number of obligations, "tags": {tag: count}, "fail": [[path, tag, detail, kinds] …] (first 12 failures),
  "nfail": number of failing obligations}. -/
open Lean Heph Heph.Check
namespace Driver.Check

def parseLangTypes (tbl : Array Ty) (j : Json) : Except String LangTypes := do
  let b ← j.getObjVal? "bt"
  pure { any := ← tyAt tbl b "any", void := ← tyAt tbl b "void", boolean := ← tyAt tbl b "boolean",
         char := ← tyAt tbl b "char", string := ← tyAt tbl b "string", integer := ← tyAt tbl b "integer",
         builtins := ← tyListAt tbl b "builtins" }

def tally (tags : List String) : Json :=
  let m := tags.foldl (fun (m : List (String × Nat)) t =>
    if m.any (·.1 == t) then m.map (fun p => if p.1 == t then (p.1, p.2 + 1) else p) else m ++ [(t, 1)]) []
  Json.mkObj (m.map fun p => (p.1, Json.num (JsonNumber.fromNat p.2)))

def failJson (o : Ob) : Json :=
  Json.arr #[ofStrList o.path, Json.str o.tag, Json.str o.j.detail, Json.str o.j.kinds]

def handle : Handler := fun op j =>
  match op with
  | "check.wt" => some (do
      let (tbl, p) ← parseProgramObj j
      let lt ← parseLangTypes tbl j
      let os := progObs lt p
      let bad := os.filter fun o => !o.j.check lt
      let r := match checkProgram lt p with
        | .ok => Json.str "ok"
        | .error path reason detail =>
            Json.mkObj [("path", ofStrList path), ("reason", Json.str reason), ("detail", Json.str detail)]
      pure (Json.mkObj [("r", r), ("n", Json.num (JsonNumber.fromNat os.length)),
        ("tags", tally (os.map (·.tag))), ("nfail", Json.num (JsonNumber.fromNat bad.length)),
        ("fail", Json.arr ((bad.take 12).map failJson).toArray)]))
  | "check.subd" => some (do
      -- {tt, "bt", "s", "t"} → is `s` assignable to `t` according to the specification-side decider
      let tbl ← parseTable j
      let lt ← parseLangTypes tbl j
      pure (res (Json.bool (asgB lt (← tyAt tbl j "s") (← tyAt tbl j "t")))))
  | "check.condtype" => some (do
      -- {tt, "tmp", "t", "f", "expect"} → {"same": model fold == recorded result, "upper": the result bounds both branches}
      let tbl ← parseTable j
      let tmp ← tyAt tbl j "tmp"
      let t ← tyAt tbl j "t"
      let f ← tyAt tbl j "f"
      let out := condTypeTy tmp t f
      let up := Ty.isSubtype t out == .yes && Ty.isSubtype f out == .yes
      pure (res (Json.mkObj [("same", answerTy tbl j out), ("upper", Json.bool up)])))
  | _ => none

end Driver.Check
