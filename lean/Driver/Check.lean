import Driver.ProgJson
import Heph.Model.Check
import Heph.Model.CondType
import Heph.Model.GenVar
/-! ops of the C01 family.
  `check.wt` {program export + "bt": {"any","void","boolean","char","string","integer": index into tt,
  "builtins": [indices]}} → {"r": "ok" | {"path": [...], "reason": tag, "detail": text},
  "n": number of obligations, "tags": {tag: count}, "fail": [[path, tag, detail, kinds] …] (first 12 failures),
  "nfail": number of failing obligations}. -/
open Lean Heph Heph.Check
namespace Driver.Check

def parseLangTypes (tbl : Array Ty) (j : Json) : Except String LangTypes := do
  let b ← j.getObjVal? "bt"
  pure { any := ← tyAt tbl b "any", void := ← tyAt tbl b "void", boolean := ← tyAt tbl b "boolean",
         char := ← tyAt tbl b "char", string := ← tyAt tbl b "string", integer := ← tyAt tbl b "integer",
         builtins := ← tyListAt tbl b "builtins" }

def tally (tags : List String) : Json :=
  let m := tags.foldl (fun (m : List (String × Nat)) t =>
    if m.any (·.1 == t) then m.map (fun p => if p.1 == t then (p.1, p.2 + 1) else p) else m ++ [(t, 1)]) []
  Json.mkObj (m.map fun p => (p.1, Json.num (JsonNumber.fromNat p.2)))

def failJson (o : Ob) : Json :=
  Json.arr #[ofStrList o.path, Json.str o.tag, Json.str o.j.detail, Json.str o.j.kinds]

def handle : Handler := fun op j =>
  match op with
  | "check.wt" => some (do
      let (tbl, p) ← parseProgramObj j
      let lt ← parseLangTypes tbl j
      let os := progObs lt p
      let bad := os.filter fun o => !o.j.check lt
      let r := match checkProgram lt p with
        | .ok => Json.str "ok"
        | .error path reason detail =>
            Json.mkObj [("path", ofStrList path), ("reason", Json.str reason), ("detail", Json.str detail)]
      pure (Json.mkObj [("r", r), ("n", Json.num (JsonNumber.fromNat os.length)),
        ("tags", tally (os.map (·.tag))), ("nfail", Json.num (JsonNumber.fromNat bad.length)),
        ("fail", Json.arr ((bad.take 12).map failJson).toArray)]))
  | "check.subd" => some (do
      -- {tt, "bt", "s", "t"} → is `s` assignable to `t` according to the specification-side decider
      let tbl ← parseTable j
      let lt ← parseLangTypes tbl j
      pure (res (Json.bool (asgB lt (← tyAt tbl j "s") (← tyAt tbl j "t")))))
  | "check.condtype" => some (do
      -- {tt, "tmp", "t", "f", "expect" [, "etype", "final"]} → {"same": model fold == recorded fold result,
      --  "upper": the fold result bounds both branch types (code's is_subtype),
      --  "final_is": which model the type recorded in the Conditional follows: "fold" (tree as is),
      --  "fixed" (repaired fold: expected type when the fold result is no upper bound), "both", "neither",
      --  "final_upper": the recorded type bounds both branch types}
      let tbl ← parseTable j
      let tmp ← tyAt tbl j "tmp"
      let t ← tyAt tbl j "t"
      let f ← tyAt tbl j "f"
      let sub := fun (x acc : Ty) => Ty.isSubtype x acc == .yes
      let out := condTypeTy tmp t f
      let up := sub t out && sub f out
      let base := [("same", answerTy tbl j out), ("upper", Json.bool up)]
      match j.getObjVal? "final" with
      | .ok _ =>
          let fin ← tyAt tbl j "final"
          let et ← tyAt tbl j "etype"
          let fixed := if up then out else et
          let isFold := Ty.beq fin out
          let isFixed := Ty.beq fin fixed
          let which := if isFold && isFixed then "both" else if isFold then "fold" else if isFixed then "fixed" else "neither"
          pure (res (Json.mkObj (base ++ [("final_is", Json.str which),
            ("final_upper", Json.bool (sub t fin && sub f fin))])))
      | .error _ => pure (res (Json.mkObj base)))
  | "check.genvar" => some (do
      -- {tt, "extra", "vars": [{"name","t","final","outer"}], "etype", "sub", "jl", "out": name | null}
      --  → {"ok": the recorded outcome refines the model, "cands": names of the model's candidates}
      let tbl ← parseTable j
      let extra ← parsePairs j "extra"
      let vs ← (← getArr j "vars").toList.mapM fun v => do
        pure ({ name := ← getStr v "name", ty := ← tyAt tbl v "t", final := ← getBool v "final",
                outer := ← getBool v "outer" } : VarInfo)
      let et ← tyAt tbl j "etype"
      let sub ← getBool j "sub"
      let jl ← getBool j "jl"
      let out : GenVarOut := match (j.getObjValD "out").getStr? with
        | .ok n => .variable n
        | .error _ => .fallback
      pure (res (Json.mkObj [("ok", Json.bool (genVariableRefines extra vs et sub jl out)),
        ("cands", ofStrList ((genVariableCandidates extra vs et sub jl).map (·.name)))])))
  | _ => none

end Driver.Check
