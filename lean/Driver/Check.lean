import Driver.Util
open Lean
namespace Driver.Check

def handle : Handler := fun _ _ => none

end Driver.Check
