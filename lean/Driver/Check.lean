import Driver.ProgJson
import Heph.Model.Check
import Heph.Model.CondType
import Heph.Model.GenVar
import Heph.Model.GenFuncRef
import Heph.Model.GenNew
import Heph.Model.GenMatch
import Heph.Model.GenSig
/-! ops of the C01 family.
  `check.wt` {program export + "bt": {"any","void","boolean","char","string","integer": index into tt,
  "builtins": [indices]}} → {"r": "ok" | {"path": [...], "reason": tag, "detail": text},
  "n": number of obligations, "tags": {tag: count}, "fail": [[path, tag, detail, kinds] …] (first 12 failures),
  "nfail": number of failing obligations}. -/
open Lean Heph Heph.Check
namespace Driver.Check

def parseLangTypes (tbl : Array Ty) (j : Json) : Except String LangTypes := do
  let b ← j.getObjVal? "bt"
  pure { any := ← tyAt tbl b "any", void := ← tyAt tbl b "void", boolean := ← tyAt tbl b "boolean",
         char := ← tyAt tbl b "char", string := ← tyAt tbl b "string", integer := ← tyAt tbl b "integer",
         builtins := ← tyListAt tbl b "builtins" }

def tally (tags : List String) : Json :=
  let m := tags.foldl (fun (m : List (String × Nat)) t =>
    if m.any (·.1 == t) then m.map (fun p => if p.1 == t then (p.1, p.2 + 1) else p) else m ++ [(t, 1)]) []
  Json.mkObj (m.map fun p => (p.1, Json.num (JsonNumber.fromNat p.2)))

def failJson (o : Ob) : Json :=
  Json.arr #[ofStrList o.path, Json.str o.tag, Json.str o.j.detail, Json.str o.j.kinds]

/-! ### decision points of the generator (batch ops: one request per program, `"calls"` = recorded calls) -/

def parseVars (tbl : Array Ty) (j : Json) (k : String) : Except String (List VarInfo) := do
  (← getArr j k).toList.mapM fun v => do
    pure ({ name := ← getStr v "name", ty := ← tyAt tbl v "t", final := ← getBool v "final",
            outer := ← getBool v "outer" } : VarInfo)

/-- `{"name", "t", "params": [idx], "fn": idx?}`; without `"fn"` the constructor is never read -/
def parseAttr (tbl : Array Ty) (a : Json) : Except String AttrSig := do
  let fn ← tyOptAt tbl a "fn"
  pure { name := ← getStr a "name", ty := ← tyAt tbl a "t", params := ← tyListAt tbl a "params",
         fnCon := fn.getD (.ext "no-function-type") }

def parseMode (j : Json) : AttrMode :=
  match j.getObjVal? "mode" with
  | .ok (Json.str "last") => .lastArg
  | _ => .whole

def batch (j : Json) (f : Json → Except String Json) : Except String Json := do
  let cs ← getArr j "calls"
  let out ← cs.toList.mapM f
  pure (res (Json.arr out.toArray))

def handle : Handler := fun op j =>
  match op with
  | "check.sigcompat" => some (do
      -- calls: {"attr", "etype", "m", "sig", "sub", "mode"} → the model's answer of `_is_sigtype_compatible`
      let tbl ← parseTable j
      let extra ← parsePairs j "extra"
      batch j fun c => do
        let a ← parseAttr tbl (← c.getObjVal? "attr")
        pure (resToJson (sigtypeCompatible extra a (← tyAt tbl c "etype") (← parseTMap tbl c "m")
          (← getBool c "sig") (← getBool c "sub") (parseMode c))))
  | "check.funcallref" => some (do
      -- calls: {"vars", "objs": [{"t","name","inst"}] | null, "etype", "sub", "jl",
      --         "out": null | {"name","norecv","args"}} → {"ok", "cands", "stage"}
      let tbl ← parseTable j
      let extra ← parsePairs j "extra"
      batch j fun c => do
        let vs ← parseVars tbl c "vars"
        let objs ← match c.getObjVal? "objs" with
          | .ok (Json.arr a) => a.toList.mapM fun o => do
              pure ({ attrTy := ← tyAt tbl o "t", name := ← getStr o "name", inst := ← parseTMap tbl o "inst" } : MatchedObj)
          | _ => pure []
        let et ← tyAt tbl c "etype"
        let sub ← getBool c "sub"
        let jl ← getBool c "jl"
        let o := c.getObjValD "out"
        let out ← if o.isNull then pure FuncCallRefOut.none else do
          pure (FuncCallRefOut.call (← getStr o "name") (← getBool o "norecv") (← tyListAt tbl o "args"))
        let stage := if !(funcCallRefVars extra vs et sub jl).isEmpty then "vars"
          else if objs.isEmpty then "none" else "objs"
        pure (Json.mkObj [("ok", Json.bool (funcCallRefRefines structEqL extra vs objs et sub jl out)),
          ("cands", ofStrList ((funcCallRefCandidates extra vs objs et sub jl).map (·.name))),
          ("stage", Json.str stage)]))
  | "check.funcref" => some (do
      -- calls: {"funcs": [attr + "m"], "self", "etype", "out": null | {"name", "sig"}}
      --  → {"ok": the outcome refines `funcRefCandidates`, "cands", "compat": every declaration handed over by
      --     `_get_matching_function_declarations` passes `_is_sigtype_compatible(.., True, False)` under its map}
      let tbl ← parseTable j
      batch j fun c => do
        let et ← tyAt tbl c "etype"
        let fs ← (← getArr c "funcs").toList.mapM fun f => do pure (← parseAttr tbl f, ← parseTMap tbl f "m")
        let self ← getStr c "self"
        let cands := funcRefCandidates (fs.map (·.1)) self
        let o := c.getObjValD "out"
        let ok ← if cands.isEmpty then pure true else
          if o.isNull then pure false else do
            let n ← getStr o "name"
            let sg ← tyAt tbl o "sig"
            pure (cands.any (fun a => a.name == n) && structEq sg et)
        let compat := fs.all fun (a, m) => sigtypeCompatible [] a et m true false .whole == .yes
        pure (Json.mkObj [("ok", Json.bool ok), ("cands", ofStrList (cands.map (·.name))),
          ("compat", Json.bool compat)]))
  | "check.classdecls" => some (do
      -- calls: {"etype", "void", "sub", "sig", "self", "classes": [{"name", "attrs": [attr + "has_t"]}],
      --         "maps": [map …], "out": [[class name, attr name, map] …]}
      --  → {"ok": the recorded list is the model's list (names and maps by value, in order), "n": its length}
      let tbl ← parseTable j
      let extra ← parsePairs j "extra"
      batch j fun c => do
        let classes ← (← getArr c "classes").toList.mapM fun x => do
          let attrs ← (← getArr x "attrs").toList.mapM fun a => do
            let has ← getBool a "has_t"
            if has then pure (true, ← parseAttr tbl a)
            else pure (false, ({ name := ← getStr a "name", ty := .nothing, params := [], fnCon := .nothing } : AttrSig))
          pure (← getStr x "name", attrs)
        let parseM (m : Json) : Except String Ty.TMap := parseTMap tbl (Json.mkObj [("m", m)]) "m"
        let maps ← (← getArr c "maps").toList.mapM fun m => do
          if m.isNull then pure none else pure (some (← parseM m))
        let out ← (← getArr c "out").toList.mapM fun o => do
          let p ← o.getArr?
          if p.size != 3 then throw "triple expected"
          pure (← p[0]!.getStr?, ← p[1]!.getStr?, ← parseM p[2]!)
        let mapEq (a b : Ty.TMap) : Bool :=
          a.length == b.length && (a.zip b).all fun (x, y) => structEq x.1 y.1 && structEq x.2 y.2
        let r := matchingClassDecls extra (← tyAt tbl c "void") (← tyAt tbl c "etype") (← getBool c "sub")
          (← getBool c "sig") (← getStr c "self") classes maps
        match r with
        | none => pure (Json.mkObj [("ok", Json.bool false), ("n", Json.str "maps ran out")])
        | some l =>
            let ok := l.length == out.length && (l.zip out).all fun ((cn, a, m), (cn', an', m')) =>
              cn == cn' && a.name == an' && mapEq m m'
            pure (Json.mkObj [("ok", Json.bool ok), ("n", Json.num (JsonNumber.fromNat l.length)),
              ("names", Json.arr (l.map fun (cn, a, _) => Json.arr #[Json.str cn, Json.str a.name]).toArray)]))
  | "check.firstcompat" => some (do
      -- calls: {"attrs": [attr], "etype", "m", "sig", "out": attr name | null} → {"ok", "model": name | null}
      let tbl ← parseTable j
      batch j fun c => do
        let attrs ← (← getArr c "attrs").toList.mapM (parseAttr tbl)
        let r := firstCompatible attrs (← tyAt tbl c "etype") (← parseTMap tbl c "m") (← getBool c "sig")
        let out := ((c.getObjValD "out").getStr?).toOption
        pure (Json.mkObj [("ok", Json.bool (r.map (·.name) == out)),
          ("model", match r with | some a => Json.str a.name | none => Json.null)]))
  | "check.readfits" => some (do
      -- {tt, "bt", calls: {"attr": {"t"}, "etype", "m"}} → the type READ from the attribute through the receiver map
      -- (the checker's `readType`: a projection yields its upper capture bound, rule 2) is assignable to the
      -- expected type according to the specification-side decider
      let tbl ← parseTable j
      let lt ← parseLangTypes tbl j
      batch j fun c => do
        let a ← c.getObjVal? "attr"
        pure (Json.bool (asgB lt (readType lt (← tyAt tbl a "t") (← parseTMap tbl c "m")) (← tyAt tbl c "etype"))))
  | "check.overridesig" => some (do
      -- calls: {"params": [idx], "ret", "m", "tpnames": [str], "renaming": map, "out": {"params": [idx], "ret"}}
      --  → {"ok": the signature handed to gen_func_decl is the model's, "arity": same number of parameters}
      let tbl ← parseTable j
      batch j fun c => do
        let names ← (← getArr c "tpnames").toList.mapM fun x => x.getStr?
        let (ps, r) := overrideSig (← parseTMap tbl c "m") names (← parseTMap tbl c "renaming")
          (← tyListAt tbl c "params") (← tyAt tbl c "ret")
        let o ← c.getObjVal? "out"
        let ops ← tyListAt tbl o "params"
        pure (Json.mkObj [("ok", Json.bool (structEqL ps ops && structEq r (← tyAt tbl o "ret"))),
          ("arity", Json.bool (ps.length == ops.length))]))
  | "check.callargs" => some (do
      -- calls: {"params": [{"t","vararg"}], "m", "counts": [nat], "args": [idx]} → {"ok", "n"}
      let tbl ← parseTable j
      batch j fun c => do
        let ps ← (← getArr c "params").toList.mapM fun x => do
          pure ({ ty := ← tyAt tbl x "t", vararg := ← getBool x "vararg" } : CallParam)
        let r := callArgsExpected (← parseTMap tbl c "m") ps (← getNatList c "counts")
        let args ← tyListAt tbl c "args"
        pure (Json.mkObj [("ok", Json.bool (match r with | some l => structEqL l args | none => false)),
          ("n", match r with | some l => Json.num (JsonNumber.fromNat l.length) | none => Json.null)]))
  | "check.subclass" => some (do
      -- calls: {"etype", "ename", "sub", "classes": [{"name","regular","parameterized","t"}], "out": name | null}
      --  → {"ok": the outcome refines `subclassCandidates`, "cands"}
      let tbl ← parseTable j
      batch j fun c => do
        let cls ← (← getArr c "classes").toList.mapM fun x => do
          pure ({ name := ← getStr x "name", regular := ← getBool x "regular",
                  parameterized := ← getBool x "parameterized", ty := ← tyAt tbl x "t" } : ClassCand)
        let et ← tyAt tbl c "etype"
        let en := ((c.getObjValD "ename").getStr?).toOption.getD (attrName et)
        let sub ← getBool c "sub"
        let out := ((c.getObjValD "out").getStr?).toOption
        pure (Json.mkObj [("ok", Json.bool (subclassRefines cls et en sub out)),
          ("cands", ofStrList ((subclassCandidates cls et en sub).map (·.name)))]))
  | "check.gennew" => some (do
      -- calls: {"etype", "ename", "cls": {"name","t","tparams","fields"} | null, "any", "void", "black", "tvnames",
      --         "insts", "args": expected types handed to generate_expr, "out": {"kind", "t"?, "nargs"?}}
      --  → {"plan": kind of the model's plan, "ok": the recorded outcome is the plan}
      let tbl ← parseTable j
      batch j fun c => do
        let et ← tyAt tbl c "etype"
        let en := ((c.getObjValD "ename").getStr?).toOption.getD (attrName et)
        let cj := c.getObjValD "cls"
        let cls ← if cj.isNull then pure none else do
          pure (some ({ name := ← getStr cj "name", ty := ← tyAt tbl cj "t", tparams := ← tyListAt tbl cj "tparams",
                        fields := ← tyListAt tbl cj "fields" } : NewClass))
        let strs (k : String) : Except String (List String) := do
          (← getArr c k).toList.mapM fun x => x.getStr?
        let plan := genNewPlan (isFunctionType et) et en cls (← tyAt tbl c "any") (← tyAt tbl c "void")
          (← strs "black") (← strs "tvnames") (← tyListAt tbl c "insts")
        let o ← c.getObjVal? "out"
        let kind ← getStr o "kind"
        let ot ← tyOptAt tbl o "t"
        let args ← tyListAt tbl c "args"
        let (pk, ok) := match plan with
          | .funcRefOrLambda => ("funcRefOrLambda", kind == "Lambda" || kind == "FunctionReference")
          | .trivial t => ("trivial", kind == "New" && structEqO (some t) ot && args.isEmpty)
          | .bottom t => ("bottom", kind == "BottomConstant" && structEqO t ot)
          | .new ty exp => ("new", kind == "New" && structEqO (some ty) ot && structEqL exp args)
          | .error => ("error", false)
        pure (Json.mkObj [("plan", Json.str pk), ("ok", Json.bool ok)]))
  | "check.wt" => some (do
      let (tbl, p) ← parseProgramObj j
      let lt ← parseLangTypes tbl j
      let os := progObs lt p
      let bad := os.filter fun o => !o.j.check lt
      let r := match checkProgram lt p with
        | .ok => Json.str "ok"
        | .error path reason detail =>
            Json.mkObj [("path", ofStrList path), ("reason", Json.str reason), ("detail", Json.str detail)]
      pure (Json.mkObj [("r", r), ("n", Json.num (JsonNumber.fromNat os.length)),
        ("tags", tally (os.map (·.tag))), ("nfail", Json.num (JsonNumber.fromNat bad.length)),
        ("fail", Json.arr ((bad.take 12).map failJson).toArray)]))
  | "check.subd" => some (do
      -- {tt, "bt", "s", "t"} → is `s` assignable to `t` according to the specification-side decider
      let tbl ← parseTable j
      let lt ← parseLangTypes tbl j
      pure (res (Json.bool (asgB lt (← tyAt tbl j "s") (← tyAt tbl j "t")))))
  | "check.condtype" => some (do
      -- {tt, "tmp", "t", "f", "expect" [, "etype", "final"]} → {"same": model fold == recorded fold result,
      --  "upper": the fold result bounds both branch types (code's is_subtype),
      --  "final_is": which model the type recorded in the Conditional follows: "fold" (tree as is),
      --  "fixed" (repaired fold: expected type when the fold result is no upper bound), "both", "neither",
      --  "final_upper": the recorded type bounds both branch types}
      let tbl ← parseTable j
      let tmp ← tyAt tbl j "tmp"
      let t ← tyAt tbl j "t"
      let f ← tyAt tbl j "f"
      let sub := fun (x acc : Ty) => Ty.isSubtype x acc == .yes
      let out := condTypeTy tmp t f
      let up := sub t out && sub f out
      let base := [("same", answerTy tbl j out), ("upper", Json.bool up)]
      match j.getObjVal? "final" with
      | .ok _ =>
          let fin ← tyAt tbl j "final"
          let et ← tyAt tbl j "etype"
          let fixed := if up then out else et
          let isFold := Ty.beq fin out
          let isFixed := Ty.beq fin fixed
          let which := if isFold && isFixed then "both" else if isFold then "fold" else if isFixed then "fixed" else "neither"
          pure (res (Json.mkObj (base ++ [("final_is", Json.str which),
            ("final_upper", Json.bool (sub t fin && sub f fin))])))
      | .error _ => pure (res (Json.mkObj base)))
  | "check.genvar" => some (do
      -- {tt, "extra", "vars": [{"name","t","final","outer"}], "etype", "sub", "jl", "out": name | null}
      --  → {"ok": the recorded outcome refines the model, "cands": names of the model's candidates}
      let tbl ← parseTable j
      let extra ← parsePairs j "extra"
      let vs ← (← getArr j "vars").toList.mapM fun v => do
        pure ({ name := ← getStr v "name", ty := ← tyAt tbl v "t", final := ← getBool v "final",
                outer := ← getBool v "outer" } : VarInfo)
      let et ← tyAt tbl j "etype"
      let sub ← getBool j "sub"
      let jl ← getBool j "jl"
      let out : GenVarOut := match (j.getObjValD "out").getStr? with
        | .ok n => .variable n
        | .error _ => .fallback
      pure (res (Json.mkObj [("ok", Json.bool (genVariableRefines extra vs et sub jl out)),
        ("cands", ofStrList ((genVariableCandidates extra vs et sub jl).map (·.name)))])))
  | _ => none

end Driver.Check
