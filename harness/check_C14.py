"""C14 — compiler diagnostics are attributed to the right programs.

proof side : lean/Heph/Props/C14.lean (theorems about lean/Heph/Model/Diag.lean over the output
             grammar lean/Heph/Spec/Diag.lean; the `*_expected` obligations compare the pattern
             strings regenerated from the live classes with the ones the scanners were written for)
tie to code: exact equality of (failed map as ordered list, crash flag) between the real
             `analyze_compiler_output` of src/compilers/{java,kotlin,groovy,scala}.py and the model
             (driver op diag.analyze), in this order: corpus, rendered batches with ground truth
             (own Python renderer + ground truth, cross-checked with the Lean grammar through
             diag.render), adversarial byte-level stream around the header shapes, real javac
             output (the tool's own command line, ground truth by a line parser and by compiling
             every file alone).
failing-input search: the real code judged by the ground truth of rendered well-formed batches,
             of the corpus and of the real javac output.
"""
import glob
import json
import os
import random
import re
import shutil
import subprocess
import tempfile
import time
from concurrent.futures import ThreadPoolExecutor

import common
import regen
from common import HarnessError

LEVEL = "proof"

COMPILERS = ["java", "kotlin", "groovy", "scala"]
EXT = {"java": "java", "kotlin": "kt", "groovy": "groovy", "scala": "scala"}
MAIN = {"java": "Main.java", "kotlin": "program.kt", "groovy": "Main.groovy", "scala": "program.scala"}
KEY = {"java": " error:", "kotlin": " error:", "groovy": "groovy:", "scala": "Error: "}


# =================================================================== implementation side
_CLASSES = {}


def classes():
    if not _CLASSES:
        from src.compilers.java import JavaCompiler
        from src.compilers.kotlin import KotlinCompiler
        from src.compilers.groovy import GroovyCompiler
        from src.compilers.scala import ScalaCompiler
        _CLASSES.update(java=JavaCompiler, kotlin=KotlinCompiler, groovy=GroovyCompiler, scala=ScalaCompiler)
    return _CLASSES


def impl_analyze(comp, output, filters=()):
    """the real `analyze_compiler_output`, canonicalised the way check_oracle reads it:
    crash = bool(crash_msg); failed None -> []; the map as ordered list of [file, [msgs]].
    The model's filters are literal substrings: the real code gets re.escape(literal)."""
    c = classes()[comp]("/tmp/x", [re.escape(f) for f in filters])
    failed, _ = c.analyze_compiler_output(output)
    crash = bool(c.crash_msg)
    fl = [] if failed is None else [[k, list(v)] for k, v in failed.items()]
    return {"crash": crash, "failed": fl}


def text_field(s):
    """(key, value) for a text in a driver request: plain JSON string for tame ASCII, code
    points otherwise"""
    if all(32 <= ord(ch) < 127 or ch in "\n\t" for ch in s):
        return "output", s
    return "output_cps", [ord(ch) for ch in s]


def analyze_rq(comp, output, filters=()):
    k, v = text_field(output)
    return {"op": "diag.analyze", "compiler": comp, k: v, "filters": list(filters)}


def rq_output(rq):
    return rq["output"] if "output" in rq else "".join(map(chr, rq["output_cps"]))


# =================================================================== independent grammar + ground truth
def py_lines(c, it):
    """the lines compiler `c` prints for one item (own renderer, cross-checked with Spec/Diag.render)"""
    k = it["k"]
    if k in ("error", "warning"):
        f, l, col, m, pad = it["file"], it["line"], it["col"], it["msg"], it["pad"]
        word = "error" if k == "error" else "warning"
        if c == "java":
            h = "%s:%s: %s: %s" % (f, l, word, m)
        elif c == "kotlin":
            h = "%s:%s:%s: %s: %s" % (f, l, col, word, m)
        elif c == "groovy":
            h = "%s: %s: %s" % (f, l, m) if k == "error" else "warning: " + m
        else:
            h = "-- %s%s: %s:%s:%s %s" % (m, "Error" if k == "error" else "Warning", f, l, col, "-" * (pad + 1))
        tail = [""] if (c == "groovy" and k == "error") else []
        return [h] + list(it["detail"]) + tail
    if k == "note":
        return [it["text"]]
    if k == "summary":
        n = it["count"]
        if c == "java":
            return [n + (" error" if n == "1" else " errors")]
        if c == "kotlin":
            return []
        if c == "groovy":
            return [n + (" error" if n == "1" else " errors"), ""]
        return [n + (" error found" if n == "1" else " errors found")]
    raise AssertionError(k)


def py_render(c, items):
    return "".join(l + "\n" for it in items for l in py_lines(c, it))


def group_pairs(pairs):
    """files in order of first error, each with its messages in order"""
    d = {}
    for f, m in pairs:
        d.setdefault(f, []).append(m)
    return [[f, ms] for f, ms in d.items()]


def py_expected(c, items):
    """ground truth of a rendered batch: what is to be reported for every error item"""
    pairs = []
    for i, it in enumerate(items):
        if it["k"] != "error":
            continue
        if c == "java":
            cap = "%s: error: %s" % (it["line"], it["msg"])
        elif c == "kotlin":
            cap = it["msg"].lstrip(" ")
        elif c == "groovy":
            cap = " %s: %s" % (it["line"], it["msg"]) + "".join("\n" + d for d in it["detail"])
        else:
            # everything printed after the header line, up to the first dash (or the end)
            buf, done = [], False
            for d in it["detail"]:
                if "-" in d:
                    buf.append(d.split("-", 1)[0])
                    done = True
                    break
                buf.append(d + "\n")
            j = i + 1
            while not done and j < len(items):
                for l in py_lines(c, items[j]):
                    if "-" in l:
                        buf.append(l.split("-", 1)[0])
                        done = True
                        break
                    buf.append(l + "\n")
                j += 1
            cap = "".join(buf)
        pairs.append((it["file"], cap))
    return group_pairs(pairs)


def wild_in(pat, s):
    """does `pat` occur in `s`, '\\0' in pat standing for any character but newline (own
    implementation, no `re`)"""
    n, m = len(s), len(pat)
    for i in range(n - m + 1):
        for j in range(m):
            p = pat[j]
            ch = s[i + j]
            if (p == "\0" and ch == "\n") or (p != "\0" and p != ch):
                break
        else:
            return True
    return False


JAVA_CRASH_ASIS = r'(java\.lang.*)\n(.*)'
JAVA_CRASH_FRAMED = r'(java\.lang.*)\n([ \t]+at .*)'


def java_crash_variant():
    """which of the two javac crash patterns the tree under check implements (read from the
    LIVE class, as Model/Diag.javaCrashVariant reads it from the regenerated string); an unknown
    pattern is treated like the repaired one (the *_expected obligation fails for it)"""
    pat = classes()["java"].CRASH_REGEX.pattern
    return "asis" if pat == JAVA_CRASH_ASIS else "framed"


def frame_line(l):
    """`[ \\t]+at ` at the start of the line (own implementation, no `re`)"""
    i = 0
    while i < len(l) and l[i] in " \t":
        i += 1
    return i > 0 and l[i:i + 3] == "at "


def line_crash(c, l):
    """the per-line clause of Spec/Diag.lineCrash: for the as-is javac pattern and the other
    compilers the line contains the crash marker; for the repaired javac pattern the line is a
    stack frame line (a line containing java.lang is harmless unless a frame line follows)"""
    if c == "java":
        return "java.lang" in l if java_crash_variant() == "asis" else frame_line(l)
    if c == "kotlin":
        return "org.jetbrains." in l
    if c == "groovy":
        return wild_in("at org\0codehaus\0groovy", l) or wild_in("java\0lang\0StackOverflowError", l)
    return "at dotty" in l


def text_ok(c, l):
    return "\n" not in l and KEY[c] not in l and not line_crash(c, l)


def digits_ok(d):
    return d != "" and all(ch in "0123456789" for ch in d)


CLS = set("abcdefghijklmnopqrstuvwxyzABCDEFGHIJKLMNOPQRSTUVWXYZ0123456789/_")


def file_ok(c, f):
    e = "." + EXT[c]
    return f.endswith(e) and len(f) > len(e) and all(ch in CLS for ch in f[:-len(e)])


def py_wf(c, it):
    """own reading of the grammar's well-formedness (Spec/Diag.wfItem); ground truth is claimed
    only for batches that BOTH this and the Lean side call well-formed"""
    k = it["k"]
    if k == "error":
        det = it["detail"]
        if c in ("java", "kotlin"):
            dok = all(text_ok(c, d) for d in det)
        elif c == "groovy":
            dok = all(d != "" and "\n" not in d and not line_crash(c, d) for d in det)
        else:
            dok = all(text_ok(c, d) for d in det) and len(det) > 0 and not det[0].startswith("-")
        return (file_ok(c, it["file"]) and digits_ok(it["line"])
                and (digits_ok(it["col"]) or c in ("java", "groovy"))
                and "\n" not in it["msg"] and not line_crash(c, py_lines(c, it)[0]) and dok)
    if k == "warning":
        return c != "groovy" and all(text_ok(c, l) for l in py_lines(c, it))
    if k == "note":
        return text_ok(c, it["text"])
    return all(text_ok(c, l) for l in py_lines(c, it))


def diff_shape(impl, gt):
    """short, seed-free description of how an answer differs from the ground truth"""
    if impl["crash"] != gt["crash"]:
        return "crash-reported" if impl["crash"] else "crash-missed"
    fi = [f for f, _ in impl["failed"]]
    fg = [f for f, _ in gt["failed"]]
    if set(fi) - set(fg):
        return "file-added"
    if set(fg) - set(fi):
        return "file-dropped"
    if fi != fg:
        return "file-order"
    return "message-differs"


# =================================================================== vocabulary
_WORDS = []


def words():
    if not _WORDS:
        path = os.path.join(common.REPO, "src", "resources", "words")
        try:
            ws = [w.strip() for w in open(path, encoding="utf-8") if w.strip()]
        except OSError:
            ws = []
        ws = [w for w in ws if w.isascii() and w.isalpha() and w.islower()]
        _WORDS.extend(ws or ["alpha", "beta", "gamma", "delta", "java", "lang", "groovy", "dotty", "error"])
    return _WORDS


TMPCH = "abcdefghijklmnopqrstuvwxyz0123456789_"


def tool_path(rng, c, tmp=None, pkg=None):
    tmp = tmp or "".join(rng.choice(TMPCH) for _ in range(8))
    pkg = pkg or rng.choice(words())
    return "/tmp/tmp%s/src/%s/%s" % (tmp, pkg, MAIN[c])


def other_wf_path(rng, c):
    """path shapes the tool does not produce but the grammar admits"""
    e = "." + EXT[c]
    return rng.choice([
        "a" + e, "Main" + e, "src/%s/%s" % (rng.choice(words()), MAIN[c]),
        "/var/folders/x_/T/tmp%s/src/%s/%s" % ("".join(rng.choice(TMPCH) for _ in range(8)), rng.choice(words()), MAIN[c]),
        "//x//" + EXT[c] + e, "/tmp/%s/%s%s" % (EXT[c], EXT[c], e), "_" + e, "0/9" + e,
        "/tmp/tmpABC/src/%s/Other%s" % (rng.choice(words()).capitalize(), e),
    ])


MSGS = {
    "java": ["incompatible types: String cannot be converted to Integer", "cannot find symbol", "';' expected",
             "method m in class Main cannot be applied to given types;", "incompatible types: inference variable T has incompatible bounds",
             "unreported exception Exception; must be caught or declared to be thrown",
             "incompatible types: bad return type in lambda expression", "reference to g is ambiguous",
             "incompatible types: java.lang.Object cannot be converted to T", "java.lang.Comparable<T> is abstract; cannot be instantiated"],
    "kotlin": ["type mismatch: inferred type is String but Int was expected", "unresolved reference: foo",
               "none of the following functions can be called with the arguments supplied: ",
               "type argument is not within its bounds: should be subtype of 'Number'",
               "   leading spaces are not part of the message", "val cannot be reassigned"],
    "groovy": ["[Static type checking] - Cannot assign value of type java.lang.String to variable of type int",
               "[Static type checking] - Cannot find matching method Main#foo(java.lang.Integer). Please check if the declared type is correct and if the method exists.",
               "Unexpected input: '{'", "[Static type checking] - Incompatible generic argument types. Cannot assign java.util.List<java.lang.String> to: java.util.List<java.lang.Integer>"],
    "scala": ["[E007] Type Mismatch ", "[E006] Not Found ", "", "[E008] Not Found ", "[E057] Type Mismatch ", "Syntax ", "[E172] Type "],
}
DETAILS = {
    "java": ["    Integer x = \"s\";", "                ^", "  symbol:   variable foo", "  location: class Main",
             "  where T is a type-variable:", "    T extends Object declared in method <T>id(T)", "    lower bounds: String,Object",
             "  required: T,T", "  found:    int,String", "  reason: inference variable T has incompatible bounds",
             "    String q = java_lang;", "    String q = java.lang;", "    T extends java.lang.Object declared in class Main", "  both method g2(String,Object) in Main and method g2(Object,String) in Main match"],
    "kotlin": ["    val x: Int = \"s\"", "                 ^", "fun foo(x: Int): String defined in src.foo", "    return bar<String>(1)"],
    "groovy": [" @ line 3, column 9.", "           int x = 'a'", "           ^", "   Main.foo(1)", " @ line 12, column 1."],
    "scala": ["3 |  val x: Int = \"a\"", "  |               ^^^", "  |               Found:    (\"a\" : String)", "  |               Required: Int",
              "", "  |", "  | longer explanation available when compiling with `-explain`", "12 |  foo(1, 2)", "   |  ^^^", "   |  Not found: foo"],
}
NOTES = {
    "java": ["Note: Some input files use unchecked or unsafe operations.", "Note: Recompile with -Xlint:unchecked for details.",
             "Note: /tmp/tmpab12cd34/src/foo/Main.java uses or overrides a deprecated API.",
             "Note: Some messages have been simplified; recompile with -Xdiags:verbose to get full output", "error: invalid flag: -foo",
             "warning: [options] bootstrap class path not set in conjunction with -source 8"],
    "kotlin": ["warning: some JAR files in the classpath have the Kotlin Runtime library bundled into them.",
               "error: no main method found in project.", "OpenJDK 64-Bit Server VM warning: Options -Xverify:none and -noverify were deprecated",
               "info: kotlinc-jvm 1.4.21 (JRE 11.0.9)"],
    "groovy": ["org.codehaus.groovy.control.MultipleCompilationErrorsException: startup failed:", "", "startup failed:",
               "Note: something"],
    "scala": ["there were 2 deprecation warnings; re-run with -deprecation for details", "", "Explanation", "===========",
              "warning: something"],
}
# near-miss header shapes, crash-marker look-alikes and junk: every one is filtered through
# text_ok before it is used in a batch that is meant to be well-formed
TRICKY = [
    "error", "error:", "error: x", "warning: x", "Main.java:3:error: x", "Main.java:3: error", "a.java:", ".java:12:", "x.java:3: Error: y",
    "Main.java: error: no line", "Main.java:x: error: y", "program.kt:1:2:error: y", "program.kt:1: error: y", "x.kt:1:2: warning: w",
    "Main.groovy", "Main.groovy :", "a.groovy 3:", "groovy", "x.groovy;", "-- Error:x.scala:1:1 ---", "-- Error x.scala:1:2 ---",
    "Error:", "x.scala:1:2", "-- [E007] Type Mismatch Warning: a.scala:1:2 ---", "---", "-", " - ", "java.lan", "java lang", "javaxlang",
    "org.jetbrains", "org_jetbrains.", "at  dotty", "at dott", "atdotty", "at org.codehaus", "StackOverflowError", "java.lang",
    "java.lang.String", "java.lang.Object cannot be converted", "org.jetbrains.kotlin.X", "\tat dotty.tools.dotc.Run", "at org.codehaus.groovy.X",
    "٣: error: x", "Main.java:٣: error: x", "a\rb", "\t", " ", "", "é ü 漢字 𝟎𝟏", "12", "1 error", "2 errors found", "\\", "C:\\tmp\\Main.groovy",
]
ALPHA = "abcXYZ 019:._-/\\\t()[]<>\"';,=+*#@|`~é٣𝟎"


def rand_text(rng):
    r = rng.random()
    if r < 0.5:
        return " ".join(rng.choice(words()) for _ in range(rng.randint(0, 5)))
    if r < 0.8:
        return "".join(rng.choice(ALPHA) for _ in range(rng.randint(0, 12)))
    return rng.choice(TRICKY)


def pick_ok(rng, c, pool, ok):
    """a text from `pool`/tricky/random that satisfies `ok` (rejection sampling; falls back to a word)"""
    for _ in range(20):
        r = rng.random()
        t = rng.choice(pool) if r < 0.6 else (rng.choice(TRICKY) if r < 0.8 else rand_text(rng))
        if rng.random() < 0.15:
            t = t + " " + rand_text(rng)
        if ok(t):
            return t
    return rng.choice(words())


# =================================================================== rendered batches
def gen_error(rng, c, f, wf=True):
    line = str(rng.choice([1, 3, 12, 123, rng.randint(1, 99999)]))
    col = str(rng.randint(1, 120)) if c in ("kotlin", "scala") or rng.random() < 0.2 else ""
    pad = rng.choice([0, 1, 3, 30, rng.randint(0, 80)])

    def hdr_ok(m):
        return "\n" not in m and not line_crash(c, py_lines(c, {"k": "error", "file": f, "line": line, "col": col, "msg": m, "pad": pad, "detail": []})[0])
    msg = pick_ok(rng, c, MSGS[c], hdr_ok)
    if c == "scala" and msg and not msg.endswith(" ") and rng.random() < 0.8:
        msg += " "
    nd = rng.choice([0, 0, 2, 2, 3, 5]) if c != "scala" else rng.choice([1, 2, 3, 4, 6])
    if c in ("java", "kotlin", "scala"):
        dok = lambda d: text_ok(c, d)
    else:
        dok = lambda d: d != "" and "\n" not in d and not line_crash(c, d)
    det = [pick_ok(rng, c, DETAILS[c], dok) for _ in range(nd)]
    if c == "scala" and det and det[0].startswith("-"):
        det[0] = " " + det[0]
    return {"k": "error", "file": f, "line": line, "col": col, "msg": msg, "pad": pad, "detail": det}


def gen_warning(rng, c, f):
    if c == "groovy":
        return gen_note(rng, c)
    it = gen_error(rng, c, f)
    it["k"] = "warning"
    ok = lambda t: text_ok(c, t)
    for _ in range(20):
        if all(text_ok(c, l) for l in py_lines(c, it)):
            return it
        it["msg"] = pick_ok(rng, c, MSGS[c], ok)
        if c == "scala" and not it["msg"].endswith(" "):
            it["msg"] += " "
    return gen_note(rng, c)


def gen_note(rng, c):
    return {"k": "note", "text": pick_ok(rng, c, NOTES[c], lambda t: text_ok(c, t))}


def gen_batch(rng, c, max_files=40):
    """items of a batch meant to be well-formed: files in batch order (sometimes interleaved),
    0-5 errors each, warnings/notes in between, summary lines"""
    nfiles = rng.choice([0, 1, 1, 2, 3, 5, 8, rng.randint(0, max_files), max_files])
    tmp = "".join(rng.choice(TMPCH) for _ in range(8))
    pkgs = rng.sample(words(), min(nfiles, len(words())))
    files = [tool_path(rng, c, tmp, p) for p in pkgs]
    if files and rng.random() < 0.25:
        for _ in range(rng.randint(1, 3)):
            files[rng.randrange(len(files))] = other_wf_path(rng, c)
    items, nerr = [], 0
    if c == "groovy" and rng.random() < 0.8:
        items.append({"k": "note", "text": NOTES["groovy"][0]})
    for f in files:
        k = rng.choice([0, 0, 1, 1, 1, 2, 3, 5])
        for _ in range(k):
            if rng.random() < 0.25:
                items.append(gen_warning(rng, c, f))
            if rng.random() < 0.1:
                items.append(gen_note(rng, c))
            items.append(gen_error(rng, c, f))
            nerr += 1
        if k == 0 and rng.random() < 0.5:
            items.append(gen_warning(rng, c, f))
    if rng.random() < 0.3:
        body = items[1:] if (c == "groovy" and items and items[0]["k"] == "note") else items
        head = items[:len(items) - len(body)]
        rng.shuffle(body)
        items = head + body
    for _ in range(rng.choice([0, 0, 1, 2])):
        items.append(gen_note(rng, c))
    r = rng.random()
    if r < 0.7:
        items.append({"k": "summary", "count": str(nerr)})
    elif r < 0.8:
        items.insert(rng.randint(0, len(items)), {"k": "summary", "count": str(rng.randint(0, 200))})
    return items


TRACES = {
    "java": [["An exception has occurred in the compiler (17.0.9). Please file a bug against the Java compiler via the Java bug reporting page (http://bugreport.java.com) after checking the Bug Database (http://bugs.java.com) for duplicates.",
              "java.lang.AssertionError: Unexpected intersection type: java.lang.Object&I", "\tat jdk.compiler/com.sun.tools.javac.code.Types.x(Types.java:1)",
              "\tat jdk.compiler/com.sun.tools.javac.main.Main.main(Main.java:50)"],
             ["java.lang.NullPointerException", "\tat com.sun.tools.javac.comp.Attr.visitApply(Attr.java:2)"],
             ["The system is out of resources.", "Consult the following stack trace for details.", "java.lang.StackOverflowError",
              "\tat jdk.compiler/com.sun.tools.javac.code.Type.map(Type.java:3)"]],
    "kotlin": [["exception: org.jetbrains.kotlin.backend.common.BackendException: Backend Internal error: Exception during IR lowering",
                "File being compiled: /tmp/tmpab12cd34/src/foo/program.kt", "\tat org.jetbrains.kotlin.backend.common.CodegenUtil.reportBackendException(CodegenUtil.kt:239)"],
               ["org.jetbrains.kotlin.util.KotlinFrontEndException: Exception while analyzing expression at (3,5) in /tmp/x/program.kt", "\tat org.jetbrains.kotlin.types.X.y(X.kt:1)"]],
    "groovy": [["java.lang.NullPointerException", "\tat org.codehaus.groovy.transform.stc.StaticTypeCheckingVisitor.visitMethodCallExpression(StaticTypeCheckingVisitor.java:3422)",
                "\tat org.codehaus.groovy.ast.expr.MethodCallExpression.visit(MethodCallExpression.java:76)"],
               [">>> a serious error occurred: BUG! exception in phase 'instruction selection' in source unit 'Main.groovy' unexpected NullPointerException",
                ">>> stacktrace:", "BUG! exception in phase 'instruction selection'", "\tat org.codehaus.groovy.control.CompilationUnit$IPrimaryClassNodeOperation.doPhaseOperation(CompilationUnit.java:905)"]],
    "scala": [["exception occurred while typechecking /tmp/tmpab12cd34/src/foo/program.scala", "java.lang.AssertionError: assertion failed",
               "\tat dotty.tools.dotc.typer.Typer.typedUnadapted(Typer.scala:2500)", "\tat dotty.tools.dotc.Run.compile(Run.scala:200)"],
              ["Exception in thread \"main\" java.lang.StackOverflowError", "\tat dotty.tools.dotc.core.Types$Type.widen(Types.scala:1)"]],
}
GROOVY_SO = [">>> a serious error occurred: null", ">>> stacktrace:", "java.lang.StackOverflowError",
             "\tat java.base/java.util.HashMap.hash(HashMap.java:340)", "\tat java.base/java.util.HashMap.get(HashMap.java:553)"]


def unl(lines):
    return "".join(l + "\n" for l in lines)


def make_rendered_cases(rng, c, n):
    """cases = dicts: compiler, items, text (own rendering, possibly with a trace spliced in or
    cut), filters, gt (or None), kind; for filter cases `gt_items` are the items whose rendering is
    the filtered text"""
    cases = []
    for i in range(n):
        items = gen_batch(rng, c, 40)
        kind = rng.choice(["plain"] * 5 + ["filter"] * 2 + ["trace"] * 2 + ["nonwf"] * 3)
        case = {"compiler": c, "items": items, "filters": [], "kind": kind, "gt_items": None, "trace": None}
        if kind == "plain":
            case["text"] = py_render(c, items)
        elif kind == "filter":
            make_filter_case(rng, c, case)
        elif kind == "trace":
            make_trace_case(rng, c, case)
        else:
            make_nonwf_case(rng, c, case)
        cases.append(case)
    return cases


def make_filter_case(rng, c, case):
    items = case["items"]
    errs = [it for it in items if it["k"] == "error"]
    case["text"] = py_render(c, items)
    if not errs:
        case["filters"] = [rng.choice(["nothing", "error", ""])]
        case["gt_items"] = items if case["filters"][0] not in case["text"] or case["filters"][0] == "" else None
        return
    victim = rng.choice(errs)
    mode = rng.choice(["header", "block", "fragment", "fragment", "two"])
    if mode == "header":
        # the whole header line (without its newline): the error disappears, an empty line and
        # the detail lines stay behind
        h = py_lines(c, victim)[0]
        case["filters"] = [h]
        new = []
        for it in items:
            if it["k"] == "error" and py_lines(c, it)[0] == h:
                new.append({"k": "note", "text": ""})
                new += [{"k": "note", "text": d} for d in py_lines(c, it)[1:]]
            else:
                new.append(it)
        case["gt_items"] = new
    elif mode == "block":
        blk = unl(py_lines(c, victim))
        case["filters"] = [blk]
        case["gt_items"] = [it for it in items if not (it["k"] == "error" and unl(py_lines(c, it)) == blk)]
    else:
        frags = []
        for _ in range(2 if mode == "two" else 1):
            src = rng.choice([victim["msg"]] + victim["detail"] + [victim["file"]])
            if len(src) >= 2:
                a = rng.randrange(len(src) - 1)
                b = rng.randint(a + 1, min(len(src), a + 8))
                frags.append(src[a:b])
        if not frags:
            frags = ["zzz"]
        case["filters"] = frags

        def sub(t):
            for fr in frags:
                t = t.replace(fr, "")
            return t
        new = []
        for it in items:
            it2 = dict(it)
            for k in ("file", "line", "col", "msg", "text", "count"):
                if k in it2:
                    it2[k] = sub(it2[k])
            if "detail" in it2:
                it2["detail"] = [sub(d) for d in it2["detail"]]
            new.append(it2)
        case["gt_items"] = new
    # the ground truth is claimed only when removing the literals from the text really is the
    # rendering of gt_items (a literal could also match across item borders)
    t = case["text"]
    for fr in case["filters"]:
        if fr:
            t = t.replace(fr, "")
    if case["gt_items"] is not None and py_render(c, case["gt_items"]) != t:
        case["gt_items"] = None


def make_trace_case(rng, c, case):
    items = case["items"]
    if c == "groovy" and rng.random() < 0.4:
        tr, so = GROOVY_SO, True
    else:
        tr, so = rng.choice(TRACES[c]), False
    pos = rng.choice([len(items), len(items), 0, rng.randint(0, len(items))])
    if so:
        pos = rng.choice([0, len(items)])
    case["text"] = py_render(c, items[:pos]) + unl(tr) + py_render(c, items[pos:])
    case["trace"] = {"lines": tr, "pos": pos, "stackoverflow": so}


def make_nonwf_case(rng, c, case):
    """break the grammar on purpose: no ground truth is claimed (model against code only)"""
    items = [dict(it) for it in case["items"]]
    f0 = tool_path(rng, c)
    shapes = {
        "java": ["%s:3: error: nested" % f0, "x.java:1: error: y", "java.lang.Object cannot be converted", " error: ", "a-b/Main.java:1: error: z",
                 "/tmp/a.b/Main.java:2: error: q", "Main.java:٣: error: unicode digit", "Main.java:1:  error:   spaced", "Main.java:1:error: nospace"],
        "kotlin": ["%s:3:4: error: nested" % f0, "x.kt:1:2: error: y", "org.jetbrains.kotlin.X", "a-b/program.kt:1:1: error: z", "program.kt:١:٢: error: u"],
        "groovy": ["%s: 3: nested" % f0, "x.groovy: 1: y", "at org.codehaus.groovy.X", "java.lang.StackOverflowError", "", "C:\\a\\Main.groovy: 2: z", "a.b.groovy: 1: q"],
        "scala": ["-- Error: %s:3:4 ---" % f0, "-- [E007] Type Mismatch Error: x.scala:1:2 -", "at dotty.tools", "-", "- x", "--", "Error: ", "-- Error: a b.scala:1:2 --"],
    }[c]
    how = rng.choice(["detail", "note", "msg", "file", "line", "cut", "nodetail", "warn", "newline", "emptydetail"])
    errs = [i for i, it in enumerate(items) if it["k"] == "error"]
    cut = None
    if how == "detail" and errs:
        i = rng.choice(errs)
        d = list(items[i]["detail"])
        d.insert(rng.randint(0, len(d)), rng.choice(shapes))
        items[i]["detail"] = d
    elif how == "msg" and errs:
        i = rng.choice(errs)
        items[i]["msg"] = rng.choice(shapes) + (" " if c == "scala" else "")
    elif how == "file" and errs:
        i = rng.choice(errs)
        e = "." + EXT[c]
        items[i]["file"] = rng.choice(["/tmp/my-dir/src/a/" + MAIN[c], "/tmp/a.b/src/x/" + MAIN[c], "/tmp/with space/" + MAIN[c],
                                       "C:\\tmp\\src\\" + MAIN[c], "/tmp/é/" + MAIN[c], "noext", e, "x" + e + e, "/tmp/x/Main" + e.upper(),
                                       "/tmp/tmp12345678/src/foo/Main" + "x" + EXT[c], "a:b" + e])
    elif how == "line" and errs:
        i = rng.choice(errs)
        items[i][rng.choice(["line", "col"])] = rng.choice(["", "٣", "1２", "x", "-1", " 3", "１２"])
    elif how == "nodetail" and errs:
        i = rng.choice(errs)
        items[i]["detail"] = []
    elif how == "emptydetail" and errs:
        i = rng.choice(errs)
        d = list(items[i]["detail"])
        d.insert(rng.randint(0, len(d)), "")
        items[i]["detail"] = d
    elif how == "warn":
        it = gen_error(rng, c, tool_path(rng, c))
        it["k"] = "warning"
        it["msg"] = rng.choice(shapes) + (" " if c == "scala" else "")
        items.insert(rng.randint(0, len(items)), it)
    elif how == "newline" and errs:
        i = rng.choice(errs)
        items[i]["msg"] = "first\nsecond " + rng.choice(shapes)
    elif how == "cut":
        cut = True
    else:
        items.insert(rng.randint(0, len(items)), {"k": "note", "text": rng.choice(shapes)})
    case["items"] = items
    text = py_render(c, items)
    if cut and text:
        # missing final newline / output cut somewhere
        text = text[:-1] if rng.random() < 0.5 else text[:rng.randrange(len(text))]
        case["raw_cut"] = True
    case["text"] = text


def case_gt(c, case, lean_wf_of):
    """ground truth of a rendered case, or None when none is claimed.  `lean_wf_of(items)` gives
    the Lean side's verdict on well-formedness."""
    kind = case["kind"]
    if kind == "nonwf" or case.get("raw_cut"):
        return None
    items = case["gt_items"] if kind == "filter" else case["items"]
    if items is None:
        return None
    if not all(py_wf(c, it) for it in items) or not all(py_wf(c, it) for it in case["items"]):
        return None
    if not lean_wf_of(items) or not lean_wf_of(case["items"]):
        return None
    if kind == "trace":
        if case["trace"]["stackoverflow"]:
            # groovyc's own rule: a StackOverflowError counts as crash only when no error block
            # was reported (`if stack_overflow and not matches`)
            exp = py_expected(c, items)
            return {"crash": not exp, "failed": [] if not exp else exp}
        return {"crash": True, "failed": []}
    return {"crash": False, "failed": py_expected(c, items)}


# =================================================================== corpus
def corpus_cases():
    """minimised cases, incl. the known weak spots; `gt` only where the grammar makes a claim"""
    J, K, G, S = "java", "kotlin", "groovy", "scala"
    P = "/tmp/tmpab12cd34/src/"
    cs = [
        # --- javac
        (J, "", [], {"crash": False, "failed": []}),
        (J, P + "foo/Main.java:3: error: incompatible types: String cannot be converted to Integer\n    Integer x = \"s\";\n                ^\n1 error\n", [],
         {"crash": False, "failed": [[P + "foo/Main.java", ["3: error: incompatible types: String cannot be converted to Integer"]]]}),
        (J, P + "foo/Main.java:3: warning: [deprecation] x\n" + P + "bar/Main.java:7: error: cannot find symbol\n  symbol:   variable foo\n  location: class Main\n"
            + P + "foo/Main.java:9: error: ';' expected\n" + P + "bar/Main.java:8: error: b\nNote: Some input files use unchecked or unsafe operations.\n3 errors\n", [],
         {"crash": False, "failed": [[P + "bar/Main.java", ["7: error: cannot find symbol", "8: error: b"]], [P + "foo/Main.java", ["9: error: ';' expected"]]]}),
        (J, P + "foo/Main.java:3: error: last line without newline", [], None),                       # weak spot (b)
        (J, "a/Main.java:1: error: x\nb/Main.java:2: error: y", [], None),
        (J, "/tmp/my-dir/src/a/Main.java:1: error: x\n", [], None),                                  # weak spot (c)
        (J, "/tmp/a.b/src/x/Main.java:3: error: y\n", [], None),
        (J, P + "foo/Main.java:3: error: incompatible types: java.lang.Object cannot be converted to Foo\n", [], None),   # weak spot (a)
        (J, P + "foo/Main.java:13: error: incompatible types: Integer cannot be converted to String\n    String q = java.lang;\n                   ^\n1 error\n", [], None),
        (J, "java.lang.AssertionError", [], None),
        (J, "x java.lang\n", [], None),
        (J, "java.lang.AssertionError: x\n\tat com.sun.tools.javac.Main\n", [], {"crash": True, "failed": []}),
        (J, "Caused by: java.lang.NullPointerException\n    at com.sun.tools.javac.comp.Attr.visitApply(Attr.java:2)\n", [], {"crash": True, "failed": []}),
        (J, P + "foo/Main.java:3: error: incompatible types: java.lang.Object cannot be converted to T\n    at = o;\n    ^\n1 error\n", [], None),   # identifier `at` (not a word of the tool)
        (J, "java.lang.Error\nat x\n", [], None),
        (J, "java.lang.Error\n\n\tat x\n", [], None),
        (J, "java.lang.Error\n \t at x\n", [], None),
        (J, "java.lang.Error\n\tat", [], None),
        (J, "Main.java:3:error: x\nMain.java:3: error:x\nMain.java:: error: x\nMain.java:3 : error: x\n", [], None),
        (J, "Main.java:٣: error: x\nMain.java:1２:  error:   y\n", [], None),
        (J, "xMain.java:1: error: a.java:2: error: b\n", [], None),
        (J, "java:1: error: x\n.java:1: error: x\n/.java:1: error: y\nMainxjava:1: error: z\n", [], None),
        (J, "a/Main.java:1: error: x\n\n\nb/Main.java:2: error: y\r\n", [], None),
        (J, P + "foo/Main.java:3: error: abc\n", ["abc"], {"crash": False, "failed": [[P + "foo/Main.java", ["3: error: "]]]}),
        (J, P + "foo/Main.java:3: error: abc\n" + P + "bar/Main.java:4: error: d\n", [P + "foo/Main.java:3: error: abc"],
         {"crash": False, "failed": [[P + "bar/Main.java", ["4: error: d"]]]}),
        (J, "a/Main.java:1: error: x\n", ["", ".", "ja"], None),
        (J, "a/Main.jaXva:1: errXor: x\n", ["X"], None),
        # --- kotlinc
        (K, P + "foo/program.kt:3:5: error: type mismatch: inferred type is String but Int was expected\n    val x: Int = \"s\"\n                 ^\n", [],
         {"crash": False, "failed": [[P + "foo/program.kt", ["type mismatch: inferred type is String but Int was expected"]]]}),
        (K, P + "foo/program.kt:3:5: warning: unused\n" + P + "foo/program.kt:4:1: error:    spaced\n", [],
         {"crash": False, "failed": [[P + "foo/program.kt", ["spaced"]]]}),
        (K, "a/program.kt:3:5: error: no newline at the end", [], None),
        (K, "program.kt:3: error: x\nprogram.kt:3:4:error: x\nprogram.kt:٣:٤: error: y\n", [], None),
        (K, "exception: org.jetbrains.kotlin.X: y\n\tat org.jetbrains.kotlin.Z\n", [], {"crash": True, "failed": []}),
        (K, "org.jetbrains.kotlin.X", [], None),
        (K, "org.jetbrains\norg_jetbrains.x\n", [], None),
        (K, "a.kt:1:2: error: x\nb/c.kt:3:4: error: y\na.kt:5:6: error: z\n", ["b/c"], None),
        # --- groovyc
        (G, "org.codehaus.groovy.control.MultipleCompilationErrorsException: startup failed:\n" + P + "foo/Main.groovy: 3: [Static type checking] - Cannot assign value of type java.lang.String to variable of type int\n @ line 3, column 9.\n           int x = 'a'\n           ^\n\n1 error\n\n", [],
         {"crash": False, "failed": [[P + "foo/Main.groovy", [" 3: [Static type checking] - Cannot assign value of type java.lang.String to variable of type int\n @ line 3, column 9.\n           int x = 'a'\n           ^"]]]}),
        (G, P + "foo/Main.groovy: 3: block without blank line\n @ line 3\n1 error\n", [], None),
        (G, P + "foo/Main.groovy: 3: a\n\n" + P + "foo/Main.groovy: 4: b\n\n\n" + P + "bar/Main.groovy: 1: c\n\n", [],
         {"crash": False, "failed": [[P + "foo/Main.groovy", [" 3: a", " 4: b"]], [P + "bar/Main.groovy", [" 1: c"]]]}),
        (G, "java.lang.StackOverflowError\n", [], {"crash": True, "failed": []}),
        (G, P + "foo/Main.groovy: 3: a\n\njava.lang.StackOverflowError\n", [], {"crash": False, "failed": [[P + "foo/Main.groovy", [" 3: a"]]]}),
        (G, "javaxlangxStackOverflowError", [], None),
        (G, "\tat org.codehaus.groovy.control.X(Y.java:1)\n", [], {"crash": True, "failed": []}),
        (G, "at org_codehaus_groovy", [], None),
        (G, "at org.codehaus.groov\n", [], None),
        (G, "C:\\tmp\\Main.groovy: 1: x\n\n", [], None),
        (G, "a.groovy:\n\n", [], None),
        (G, "a.groovy:\n\nb.groovy:x\n\n\nc.groovy:", [], None),
        (G, "a.groovy: 1: x\n\njava.lang.StackOverflowError\n", ["a.groovy"], None),
        # --- scalac
        (S, "-- [E007] Type Mismatch Error: " + P + "foo/program.scala:3:15 ------------\n3 |  val x: Int = \"a\"\n  |               ^^^\n  |               Found:    (\"a\" : String)\n  |               Required: Int\n1 error found\n", [],
         {"crash": False, "failed": [[P + "foo/program.scala", ["3 |  val x: Int = \"a\"\n  |               ^^^\n  |               Found:    (\"a\" : String)\n  |               Required: Int\n1 error found\n"]]]}),
        (S, "-- Error: a.scala:1:2 -\nx - y\n-- Warning: b.scala:1:2 --\nw\n-- [E006] Not Found Error: b.scala:3:4 ---\nq\n", [],
         {"crash": False, "failed": [["a.scala", ["x "]], ["b.scala", ["q\n"]]]}),
        (S, "-- Error: a.scala:1:2 -\n-- Error: b.scala:1:2 -\n", [], None),
        (S, "-- Error: a.scala:1:2 -", [], None),
        (S, "-- Error: a.scala:1:2 -\n", [], None),
        (S, "-- Error: Error: a.scala:1:2 - Error: b.scala:3:4 --\nz", [], None),
        (S, "-- Error: a.scala.scala:1:2 -\nz\n--  Error: .scala:٣:٤ -\ny", [], None),
        (S, "x\n\tat dotty.tools.dotc.X\n", [], {"crash": True, "failed": []}),
        (S, "xat dottyy", [], None),
        (S, "at dott y\nat  dotty\n", [], None),
        (S, "-- Error: a.scala:1:2 ---\nabc\n", ["b"], {"crash": False, "failed": [["a.scala", ["ac\n"]]]}),
    ]
    out = []
    for c, text, filters, gt in cs:
        out.append({"compiler": c, "text": text, "filters": filters, "gt": gt, "kind": "corpus"})
    d = os.path.join(common.VERIF, "corpus", "C14")
    for path in sorted(glob.glob(os.path.join(d, "*.json"))):
        try:
            obj = json.load(open(path, encoding="utf-8"))
        except Exception as e:
            raise HarnessError("corpus file %s unreadable: %r" % (path, e))
        for e in (obj if isinstance(obj, list) else [obj]):
            text = e["output"] if "output" in e else "".join(map(chr, e["output_cps"]))
            out.append({"compiler": e["compiler"], "text": text, "filters": e.get("filters", []),
                        "gt": e.get("gt"), "kind": "corpus:" + os.path.basename(path)})
    return out


# =================================================================== adversarial stream
FRAG_COMMON = ["\n", "\n", "\n\n", "\n\n\n", " ", "  ", ":", ": ", "error", "error:", " error: ", ": error: ", ":error:", " error:", "warning:",
               ": warning: ", "0", "1", "12", "3", "٣", "１", "𝟎", "/", "_", "\\", "\r", "\t", ".", "-", "x", "a", "Main", "/tmp/tmpab12_x9z/src/foo/",
               "é", "", "A/b_9", "\r\n", ";", "3:", ":3:", ":1:2:", "1:2"]
FRAG = {
    "java": ["Main.java", ".java", "java", "xjava", "Main.java:", ".java:3:", "3: error: ", "java.lang", "java.lang.AssertionError", "java_lang",
             "javaxlang", "java.lan", "\tat com.sun.tools.javac", "Note: ", "1 error\n", "Main.jav", "Main.javaa", "a/Main.java:1: error: m\n",
             "java.lang.", "lang", "Main.java:3: warning: w\n",
             # crash-shaped pieces (javac reports of internal errors: exception line, then `\tat <frame>` lines)
             "\tat ", " at ", "    at ", "\t at ", " \tat ", "at ", "\nat ", "\n\tat ", "\n at x", "\tat\n", "\tatx", " a t ", "\t", "\n\t",
             "java.lang.AssertionError\n\tat jdk.compiler/com.sun.tools.javac.util.Assert.error(Assert.java:155)\n",
             "java.lang.NullPointerException: Cannot invoke \"com.sun.tools.javac.code.Type.getTag()\" because \"t\" is null\n",
             "java.lang.StackOverflowError\n", "Caused by: java.lang.IllegalStateException\n", "\t... 14 more\n",
             "\tat jdk.compiler/com.sun.tools.javac.comp.Attr.visitApply(Attr.java:2000)\n",
             "    String q = java.lang;\n", "    at = o;\n", "java.lang.Object cannot be converted to T\n"],
    "kotlin": ["program.kt", ".kt", "kt", "xkt", ".kt:", "program.kt:", "1:2: error: ", "org.jetbrains.", "org.jetbrains", "orgxjetbrains.",
               "org.jetbrainsx", "org.jetbrains.kotlin.X", "a/program.kt:1:2: error: m\n", "program.k", "jetbrains.", "org."],
    "groovy": ["Main.groovy", ".groovy", "groovy", ".groovy:", "xgroovy:", "Main.groovy:", " 3: ", "at org.codehaus.groovy", "at orgxcodehausxgroovy",
               "at org.codehaus.groov", "\tat org.codehaus.groovy.control", "java.lang.StackOverflowError", "javaxlangxStackOverflowError",
               "java.lang.StackOverflowErro", "StackOverflowError", "java.lang.", "C:\\tmp\\", "a.groovy: 1: m\n\n", "at org", ".codehaus", "at org\ncodehaus.groovy",
               "java\nlang.StackOverflowError", "1 error\n\n"],
    "scala": ["-- ", "--", " ---", " -", "-", "---\n", "Error: ", "Error:", "[E007] Type Mismatch Error: ", "Warning: ", ".scala", "xscala", "program.scala",
              ":1:2", ":1:2 ---\n", " -\n", "at dotty", "at dott", "\tat dotty.tools", "xat dottyy", "1 |  val", "-- Error: a.scala:1:2 -\nm\n", "-- Error: ",
              "scala", " --", "- -", "Error", "at\ndotty"],
}
TEMPLATES = {
    "java": ["a/Main.java:12: error: msg x\n", "/tmp/tmpab12_x9z/src/foo/Main.java:3:  error:  y\n  sym\n", "x java.lang.Error\n\tat q\n",
             "Main.java:1: error: a\nB.java:2: error: b\n", "a_1/Main.java:7: error: \n", "/Main.java:1: error: p\n\nq.java:2: error: r\n\n",
             # real shapes of javac internal-error reports (JDK bug database), and near misses of the frame line
             "An exception has occurred in the compiler (17.0.9). Please file a bug against the Java compiler via the Java bug reporting page.\n"
             "java.lang.AssertionError: Unexpected intersection type: java.lang.Object&I\n"
             "\tat jdk.compiler/com.sun.tools.javac.util.Assert.error(Assert.java:162)\n"
             "\tat jdk.compiler/com.sun.tools.javac.main.Main.main(Main.java:50)\n",
             "\n\nThe system is out of resources.\nConsult the following stack trace for details.\njava.lang.StackOverflowError\n"
             "\tat jdk.compiler/com.sun.tools.javac.code.Types$MapVisitor.visitClassType(Types.java:1)\n",
             "java.lang.NullPointerException\n\tat com.sun.tools.javac.comp.Attr.visitApply(Attr.java:2)\nCaused by: java.lang.Error\n\t... 3 more\n",
             "a/Main.java:3: error: incompatible types: java.lang.Object cannot be converted to T\n    at = o;\n    ^\n1 error\n",
             "a/Main.java:3: error: incompatible types: Integer cannot be converted to String\n    String q = java.lang;\n                   ^\n1 error\n",
             "java.lang.Error\n\nat x\n", "java.lang.Error\nat x\n", "java.lang.Error \tat x\n", "java.lang.Error\n\t at x\n", "java.lang.Error\n\tat\n"],
    "kotlin": ["a/program.kt:1:22: error: msg\n", "/tmp/tmpab12_x9z/src/foo/program.kt:3:4:  error:  y\n  src\n", "org.jetbrains.kotlin.E: x\n at y\n",
               "p.kt:1:2: error: a\nq.kt:3:4: error: b", "a_1/program.kt:7:1: error: \n"],
    "groovy": ["a/Main.groovy: 3: msg\n @ line 3\n\n1 error\n\n", "C:\\a\\Main.groovy: 1: x\n\n", "\tat org.codehaus.groovy.X(Y)\n", "java.lang.StackOverflowError\n",
               "a.groovy: 1: x\n\njava.lang.StackOverflowError\n", "a.groovy: 1: x\n\nb.groovy: 2: y\n\n\n", "a.groovy:\n\n"],
    "scala": ["-- [E007] Type Mismatch Error: a/program.scala:1:22 ---\n1 |x\n  |^ y\n-- Error: b.scala:3:4 -\nzz\n", "x\n\tat dotty.tools.X\n",
              "-- Error: a.scala:1:2 -\nm", "-- Error: Error: a.scala:1:2 --\n\n-", "-- Error: a.scala.scala:1:2 -\nq-r"],
}
EDIT_CH = " :.-\n\\/_0٣aE\r\t𝟎"


def adv_string(rng, c):
    r = rng.random()
    if r < 0.5:
        k = rng.choice([1, 2, 3, 3, 4, 5, 6, 8])
        return "".join(rng.choice(FRAG[c]) if rng.random() < 0.6 else rng.choice(FRAG_COMMON) for _ in range(k))
    s = rng.choice(TEMPLATES[c])
    if r < 0.6:
        s = s + rng.choice(TEMPLATES[c])
    for _ in range(rng.choice([1, 1, 1, 2, 3])):
        if not s:
            break
        i = rng.randrange(len(s))
        e = rng.random()
        if e < 0.3:
            s = s[:i] + s[i + 1:]
        elif e < 0.55:
            s = s[:i] + rng.choice(EDIT_CH) + s[i:]
        elif e < 0.75:
            s = s[:i] + rng.choice(EDIT_CH) + s[i + 1:]
        elif e < 0.85:
            s = s[:i] + s[i] + s[i:]
        elif e < 0.93:
            s = s[:i] + s[i + 1:i + 2] + s[i] + s[i + 2:]
        else:
            s = s[:i]
    return s


def adv_filters(rng, c):
    if rng.random() > 0.15:
        return []
    return [rng.choice(FRAG[c] + FRAG_COMMON + [".", "[", "(", "\\d", "a|b", "$", "^"]) for _ in range(rng.choice([1, 1, 2]))]


def adv_shard(args):
    """one shard of the adversarial stream (runs in a worker process): returns
    (n, nontrivial, diffs (first few), tallies, hashes of distinct nontrivial cases)"""
    c, seed, n = args
    rng = random.Random(seed)
    rqs, impls = [], []
    for _ in range(n):
        s = adv_string(rng, c)
        fl = adv_filters(rng, c)
        rqs.append(analyze_rq(c, s, fl))
        impls.append(impl_analyze(c, s, fl))
    answers = common.run_driver(rqs)
    diffs, tallies, hashes, nt = [], {}, set(), 0
    for rq, ia, ma in zip(rqs, impls, answers):
        if "error" in ma:
            raise HarnessError("adversarial: driver error on %s: %s" % (common.canon(rq)[:300], ma["error"]))
        key = "crash" if ia["crash"] else ("files=%d" % min(len(ia["failed"]), 3))
        tallies[key] = tallies.get(key, 0) + 1
        if ia["crash"] or ia["failed"]:
            nt += 1
            hashes.add(hash(common.canon(rq)))
        if ma["r"] != ia:
            if len(diffs) < 5:
                diffs.append((rq, ia, ma["r"]))
            tallies["differ"] = tallies.get("differ", 0) + 1
    return n, nt, diffs, tallies, hashes


# =================================================================== real javac
JAVA_PROGRAMS = {
    # package word -> (source of Main.java, expectation: "ok" | "error" | "warn")
    "alpha": ("ok", """package src.alpha;
class Foo<T extends Number> { T f; Foo(T x) { f = x; } T get() { return f; } }
class Main {
  static public final void main(String[] args) { Foo<Integer> x = new Foo<Integer>(1); Integer y = x.get(); }
}
"""),
    "bravo": ("error", """package src.bravo;
class Main {
  static public final void main(String[] args) {
    Integer x = "s";
    String y = 3;
  }
}
"""),
    "charlie": ("error", """package src.charlie;
class Main {
  static Integer foo(Integer a) { return a; }
  static public final void main(String[] args) {
    Number n = bar;
    foo("x");
    Main.baz(1);
  }
}
"""),
    "echo": ("error", """package src.echo;
import java.util.*;
class Main {
  static <T extends Comparable<T>> T max(T a, T b) { return a; }
  static <T> T id(T x) { return x; }
  static public final void main(String[] args) {
    String s = id(new Object());
    Object o = max(1, "a");
    List<? extends Number> ln = null; ln.add(3);
  }
}
"""),
    "foxtrot": ("warn", """package src.foxtrot;
import java.util.*;
class Main {
  @SuppressWarnings("rawtypes")
  static public final void main(String[] args) { List l = new ArrayList(); l.add(1); List<String> ls = l; }
}
"""),
    "golf": ("warn", """package src.golf;
class Old { @Deprecated static void f() {} }
class Main {
  static public final void main(String[] args) { Old.f(); Thread.currentThread().stop(); }
}
"""),
    "hotel": ("ok", """package src.hotel;
interface Function1<A, R> { R apply(A a); }
class Thread<T> { T f; }
class Process extends Thread<String> { }
class Main {
  static public final void main(String[] args) { Function1<String, Integer> g = (x) -> x.length(); Thread<String> t = new Process(); }
}
"""),
    "india": ("error", """package src.india;
interface Function1<A, R> { R apply(A a); }
class Record<T extends Number> { T lang; }
class Main {
  static void g2(String s, Object o) {} static void g2(Object o, String s) {}
  static public final void main(String[] args) {
    Function1<String, Integer> f = (x) -> x;
    Record<String> e = null;
    g2("a", "b");
  }
}
"""),
    "kilo": ("ok", """package src.kilo;
class Main { static public final void main(String[] args) { Object o = "x"; Number n = 1; } }
"""),
    "lima": ("error", """package src.lima;
class Exception {}
class Main {
  static public final void main(String[] args) {
    Exception ex = new Exception();
    try { } catch (Exception e2) { }
  }
}
"""),
}
# javac's default policy (should-stop.ifError) skips the flow analysis of every class that comes
# after the first reported error: programs whose only errors are flow errors (missing return,
# unreported exception, uninitialised variable) then look as if they compiled.  Probed and
# written into the evidence; outside what the tool generates (its ill-typed programs carry type
# errors, which attribution reports for every file), so no ground-truth claim is made here.
FLOW_PROGRAMS = {
    "alfa": """package src.alfa;
class Main { static public final void main(String[] args) { Integer x = "s"; } }
""",
    "delta": """package src.delta;
class Main {
  static void m() throws Exception {}
  static public final void main(String[] args) { m(); }
}
""",
    "juliet": """package src.juliet;
class Main {
  static int f(boolean b) { if (b) { return 1; } }
  static public final void main(String[] args) { final int k; int q = k; }
}
""",
}
# weak spot (a): identifiers `java` and `lang` (both are entries of src/resources/words) give the
# field access `java.lang` (translator: "{expr}.{field}"); javac quotes the source line of an error
QUOTED_JAVA_LANG = """package src.mike;
class Record { Integer lang; Record() { lang = 1; } }
class Main {
  static public final void main(String[] args) {
    Record java = new Record();
    String q = java.lang;
  }
}
"""
OK_PROGRAM = """package src.%s;
class Main { static public final void main(String[] args) { Integer x = 1; } }
"""


def many_errors_program(pkg, n):
    body = "\n".join("    Integer x%d = \"s\";" % i for i in range(n))
    return "package src.%s;\nclass Main {\n  static public final void main(String[] args) {\n%s\n  }\n}\n" % (pkg, body)


def tool_run_command(args):
    """what hephaestus.run_command does on POSIX: the argument list joined by blanks and run
    through the shell (so the shell expands the `*/*.java` glob), stderr folded into stdout,
    the bytes decoded as UTF-8, nothing stripped"""
    env = os.environ.copy()
    env["JAVA_OPTS"] = "-Xmx8g"
    try:
        p = subprocess.Popen(" ".join(args), stdout=subprocess.PIPE, stderr=subprocess.STDOUT, shell=True, env=env)
        out, _ = p.communicate(timeout=300)
    except subprocess.TimeoutExpired:
        p.kill()
        raise HarnessError("javac timed out")
    return out.decode("utf-8") if out else ""


def write_batch(progs):
    """progs: {pkg: source}; returns (tmpdir, {path: pkg}) with the tool's layout"""
    tmp = tempfile.mkdtemp()
    paths = {}
    for pkg, src in progs.items():
        d = os.path.join(tmp, "src", pkg)
        os.makedirs(d)
        path = os.path.join(d, "Main.java")
        with open(path, "w") as f:
            f.write(src)
        paths[path] = pkg
    return tmp, paths


def javac_batch(tmp):
    cmd = classes()["java"](os.path.join(tmp, "src")).get_compiler_cmd()
    return cmd, tool_run_command(cmd)


ALONE_DRIVER = """import javax.tools.*;
import java.io.*;
import java.nio.file.*;
public class AloneCompile {
  public static void main(String[] a) throws Exception {
    JavaCompiler jc = ToolProvider.getSystemJavaCompiler();
    OutputStream sink = OutputStream.nullOutputStream();
    for (String f : a) {
      Path out = Files.createTempDirectory("alone");
      int rc = jc.run(null, sink, sink, "-nowarn", "-d", out.toString(), f);
      System.out.println(f + "\t" + rc);
    }
  }
}
"""


def javac_alone(paths, workdir):
    """{path: does the file compile on its own} — every file compiled separately by javac (one
    JVM, the compiler called once per file through javax.tools; classes go to scratch dirs)"""
    if not paths:
        return {}
    drv = os.path.join(workdir, "AloneCompile.java")
    with open(drv, "w") as f:
        f.write(ALONE_DRIVER)
    try:
        p = subprocess.run(["java", "-Djava.io.tmpdir=" + workdir, drv] + list(paths), stdout=subprocess.PIPE,
                           stderr=subprocess.PIPE, text=True, timeout=600)
    except subprocess.TimeoutExpired:
        raise HarnessError("per-file javac timed out")
    res = {}
    for line in p.stdout.splitlines():
        f, _, rc = line.rpartition("\t")
        if f in paths:
            res[f] = rc.strip() == "0"
    if p.returncode != 0 or set(res) != set(paths):
        raise HarnessError("per-file javac failed: rc=%d %s" % (p.returncode, p.stderr[-400:]))
    return res


def parse_javac_errors(output, paths):
    """ground truth of a real javac output by a plain line parser (no regex): the lines
    `<path>:<n>: error: <msg>` of the known paths, grouped by file in order of first error"""
    pairs = []
    for line in output.split("\n"):
        for p in paths:
            if line.startswith(p + ":"):
                rest = line[len(p) + 1:]
                num, sep, tail = rest.partition(":")
                if sep and num.isascii() and num.isdigit() and tail.startswith(" error: "):
                    pairs.append((p, rest))
                break
    return group_pairs(pairs)


def has_javac_trace(output):
    """a compiler-internal stack trace: a line starting with a Java exception/error class name
    followed by a stack frame line"""
    ls = output.split("\n")
    for a, b in zip(ls, ls[1:]):
        if b.startswith("\tat ") and ("Exception" in a or "Error" in a):
            return True
    return False


# =================================================================== the check
class State:
    """what the streams accumulate for the verdict at the end"""

    def __init__(self):
        self.diffs = []      # (stream, request, impl, model)
        self.gt_bad = []     # (stream, compiler, case for replay, impl, gt)
        self.reported_sigs = []   # signatures of failing inputs already reported by a probe


def run_cases(run, st, label, cases, count_nontrivial=True):
    """cases = dicts with compiler, text, filters, gt (or None): real code against the model
    (exactly) and against the ground truth"""
    rqs = [analyze_rq(k["compiler"], k["text"], k["filters"]) for k in cases]
    impls = [impl_analyze(k["compiler"], k["text"], k["filters"]) for k in cases]
    CH = 20000
    for i in range(0, len(rqs), CH):
        ds = common.compare_stream(run, rqs[i:i + CH], impls[i:i + CH], label,
                                   nontrivial=lambda rq, ia: ia["crash"] or bool(ia["failed"]))
        st.diffs += [(label, rq, ia, ma) for _, rq, ia, ma in ds]
    for k, ia in zip(cases, impls):
        c = k["compiler"]
        run.tally("compiler", c)
        run.tally("stream:" + label.split(":")[0], c + ":" + ("crash" if ia["crash"] else "files=%s" % (len(ia["failed"]) if len(ia["failed"]) < 5 else "5+")))
        if k.get("gt") is not None:
            run.tally("ground_truth_judged", c)
            if ia != k["gt"]:
                st.gt_bad.append((label, c, k, ia, k["gt"]))
    return impls


def transport_selftest():
    """the JSON transport must carry every character we send, both ways"""
    s = "a\x00\x01\x7f\t\r é٣１𝟎\u2028\ufeff\uffff\\\"'/ <\u00a0>"
    rqs = [{"op": "diag.findall", "compiler": "groovy", "output": "a.groovy:" + s + "\n\n"},
           {"op": "diag.findall", "compiler": "groovy", "output_cps": [ord(ch) for ch in "a.groovy:" + s + "\n\n"]},
           {"op": "diag.render", "compiler": "java", "items": [{"k": "note", "text": s}]}]
    a = common.run_driver(rqs)
    if a[0].get("r") != [["a.groovy", s]] or a[1].get("r") != [["a.groovy", s]] or a[2].get("r", {}).get("text") != s + "\n":
        raise HarnessError("driver transport mangles characters: %r" % (a,))


def lean_render(items_by_case):
    """[(compiler, items)] -> Lean's (text, wf, expected)"""
    rqs = [{"op": "diag.render", "compiler": c, "items": items} for c, items in items_by_case]
    out = []
    for rq, a in zip(rqs, common.run_driver(rqs)):
        if "error" in a:
            raise HarnessError("diag.render: %s on %s" % (a["error"], common.canon(rq)[:300]))
        out.append(a["r"])
    return out


def stream_rendered(run, st, n_per_compiler):
    rng = run.rng
    t0 = time.time()
    for c in COMPILERS:
        cases = make_rendered_cases(rng, c, n_per_compiler)
        # (i) own renderer + ground truth against the Lean grammar
        todo = []
        for k in cases:
            todo.append((c, k["items"]))
            if k["gt_items"] is not None:
                todo.append((c, k["gt_items"]))
        lean = lean_render(todo)
        wf_cache, j = {}, 0
        for k in cases:
            for items in [k["items"]] + ([k["gt_items"]] if k["gt_items"] is not None else []):
                lr = lean[j]
                j += 1
                mine = py_render(c, items)
                if lr["text"] != mine:
                    raise HarnessError("own renderer differs from Spec/Diag.render (%s): %r vs %r" % (c, mine[:300], lr["text"][:300]))
                if lr["expected"] != py_expected(c, items):
                    raise HarnessError("own ground truth differs from Spec/Diag.expected (%s) on %r: %r vs %r"
                                       % (c, mine[:300], py_expected(c, items)[:3], lr["expected"][:3]))
                pw = all(py_wf(c, it) for it in items)
                if pw != lr["wf"]:
                    run.tally("wf_disagree", "%s:py=%s,lean=%s" % (c, pw, lr["wf"]))
                    ex = run.cov.setdefault("wf_disagree_examples", [])
                    if len(ex) < 5:
                        ex.append({"compiler": c, "py": pw, "lean": lr["wf"],
                                   "items": [it for it in items if not py_wf(c, it)][:3] or items[:3]})
                wf_cache[id(items)] = lr["wf"]
                run.tally("render_crosscheck", c)
        for k in cases:
            k["gt"] = case_gt(c, k, lambda items: wf_cache[id(items)])
            run.tally("rendered_kind", "%s:%s:%s" % (c, k["kind"], "gt" if k["gt"] is not None else "nogt"))
            if k["kind"] in ("plain", "trace") and not all(py_wf(c, it) for it in k["items"]):
                raise HarnessError("a batch generated as well-formed is not: %s %r" % (c, [it for it in k["items"] if not py_wf(c, it)][:2]))
        # (ii) + (iii)
        run_cases(run, st, "rendered:" + c, cases)
    run.log("stream rendered: %d batches per compiler, %.1fs" % (n_per_compiler, time.time() - t0))


def stream_adversarial(run, st, total):
    t0 = time.time()
    per = total // len(COMPILERS)
    SH = 50000
    jobs = []
    for c in COMPILERS:
        left = per
        while left > 0:
            n = min(SH, left)
            jobs.append((c, run.rng.getrandbits(48), n))
            left -= n
    if len(jobs) <= 4 and total <= 50000:
        results = [adv_shard(j) for j in jobs]
    else:
        import multiprocessing
        classes()
        with multiprocessing.get_context("fork").Pool(min(14, len(jobs))) as pool:
            results = pool.map(adv_shard, jobs, chunksize=1)
    nt_total = 0
    for (c, _, _), (n, nt, diffs, tallies, hashes) in zip(jobs, results):
        run.cov["evaluations"] += n
        run.cov["traces_validated_against_impl"] += n
        run._distinct |= hashes
        run.cov["distinct_nontrivial"] = len(run._distinct)
        nt_total += nt
        d = run.cov.setdefault("ops", {})
        d["diag.analyze"] = d.get("diag.analyze", 0) + n
        for k, v in tallies.items():
            dd = run.cov.setdefault("stream:adversarial", {})
            dd[c + ":" + k] = dd.get(c + ":" + k, 0) + v
        for rq, ia, ma in diffs:
            st.diffs.append(("adversarial:" + c, rq, ia, ma))
    run.cov["adversarial_nontrivial"] = nt_total
    if st.diffs:
        for lab, rq, ia, ma in [d for d in st.diffs if d[0].startswith("adversarial")][:3]:
            run.log("   adversarial differs: request=%s impl=%s model=%s" % (common.canon(rq)[:300], common.canon(ia)[:200], common.canon(ma)[:200]))
    run.log("stream adversarial: %d strings (%d with matches or crash), %.1fs" % (per * len(COMPILERS), nt_total, time.time() - t0))


def judge_real(path_pkgs, output):
    gt_failed = parse_javac_errors(output, list(path_pkgs))
    return {"crash": has_javac_trace(output), "failed": gt_failed}


def stream_javac(run, st):
    """real javac 17 on hand-written programs in the tool's layout, run by the tool's command"""
    if shutil.which("javac") is None:
        raise HarnessError("javac not found")
    rng = run.rng
    t0 = time.time()
    tmps = []
    try:
        progs = {pkg: src for pkg, (_, src) in JAVA_PROGRAMS.items()}
        expect = {pkg: e for pkg, (e, _) in JAVA_PROGRAMS.items()}
        batches = [("all", progs)]
        clean = {p: s for p, s in progs.items() if expect[p] != "error"}
        batches.append(("no-errors", clean))
        for i in range(1 if run.tier == "quick" else 3):
            sub = rng.sample(sorted(progs), rng.randint(2, 6))
            batches.append(("sub%d" % i, {p: progs[p] for p in sub}))
        cap = {"papa": many_errors_program("papa", 60), "quebec": many_errors_program("quebec", 60),
               "romeo": many_errors_program("romeo", 60), "sierra": OK_PROGRAM % "sierra"}
        quoted = {"mike": QUOTED_JAVA_LANG, "november": OK_PROGRAM % "november"}
        written = []
        for name, ps in batches + [("maxerrs", cap), ("quoted-java.lang", quoted), ("flow", dict(FLOW_PROGRAMS))]:
            tmp, paths = write_batch(ps)
            tmps.append(tmp)
            written.append((name, tmp, paths))
        work = tempfile.mkdtemp()
        tmps.append(work)
        with ThreadPoolExecutor(max_workers=8) as ex:
            fouts = [ex.submit(javac_batch, w[1]) for w in written]
            alone_paths = [p for name, _, paths in written if name in ("all", "maxerrs", "quoted-java.lang", "flow") for p in paths]
            falone = ex.submit(javac_alone, alone_paths, work)
            outs = [f.result() for f in fouts]
            alone = falone.result()
        run.cov["javac_cmd"] = " ".join(outs[0][0])
        run.cov["javac_runs"] = {"batch_runs_by_tool_command": len(written), "files_compiled_alone": len(alone_paths)}
        cases, chunk_cases = [], []
        for (name, tmp, paths), (cmd, out) in zip(written, outs):
            run.tally("javac_output_ends_with_newline", str(out.endswith("\n") or out == ""))
            run.tally("javac_output_mentions_java.lang", name + ":" + str("java.lang" in out))
            gt = judge_real(paths, out)
            case = {"compiler": "java", "text": out, "filters": [], "gt": gt, "kind": "javac:" + name,
                    "files": sorted(paths), "alone_ok": {p: alone[p] for p in paths if p in alone}}
            if name in ("maxerrs", "quoted-java.lang"):
                probe_known(run, st, name, case)
                continue
            if name == "flow":
                case["gt"] = None
                cases.append(case)
                run.cov["javac_flow_probe"] = {
                    "faulty_when_compiled_alone": sorted(paths[p] for p in paths if not alone[p]),
                    "reported_in_batch": sorted(paths[f] for f, _ in gt["failed"]),
                    "note": "javac (default should-stop.ifError) skips flow analysis after the first error of a batch"}
                continue
            cases.append(case)
            if name == "all":
                # the line parser against javac itself: a file has error lines iff it does not compile alone
                faulty = {p for p in paths if not alone[p]}
                if faulty != {f for f, _ in gt["failed"]}:
                    raise HarnessError("line parser and per-file javac disagree: %r vs %r" % (sorted(faulty), gt["failed"]))
                want = {p for p, pkg in paths.items() if expect[pkg] == "error"}
                if faulty != want:
                    raise HarnessError("javac does not judge the hand-written programs as intended: %r vs %r" % (sorted(faulty), sorted(want)))
            # the output cut into pieces: at line borders and anywhere (no ground truth claimed)
            ls = out.split("\n")
            for _ in range(25):
                a = rng.randrange(len(ls))
                b = rng.randint(a, len(ls))
                piece = "\n".join(ls[a:b]) + rng.choice(["\n", "\n", ""])
                chunk_cases.append({"compiler": "java", "text": piece, "filters": [], "gt": None, "kind": "javac-lines"})
            for _ in range(25):
                if out:
                    a = rng.randrange(len(out))
                    b = rng.randint(a, len(out))
                    chunk_cases.append({"compiler": "java", "text": out[a:b], "filters": [], "gt": None, "kind": "javac-bytes"})
            # a filter taken from the real output
            errl = [l for l in ls if ": error: " in l]
            if errl:
                l = rng.choice(errl)
                chunk_cases.append({"compiler": "java", "text": out, "filters": [l], "gt": None, "kind": "javac-filter"})
                chunk_cases.append({"compiler": "java", "text": out, "filters": [l.split(": error: ")[1][:9]], "gt": None, "kind": "javac-filter"})
        run_cases(run, st, "javac", cases)
        run_cases(run, st, "javac-chunks", chunk_cases)
    finally:
        for t in tmps:
            shutil.rmtree(t, ignore_errors=True)
    run.log("stream javac: %d batch runs, %.1fs" % (len(tmps), time.time() - t0))


def probe_known(run, st, name, case):
    """the two weak spots that real javac output reaches: judged by ground truth like any other
    case, reported under a stable signature (listed in known_findings.json while /repo is unfixed)"""
    out = case["text"]
    ia = impl_analyze("java", out)
    rq = analyze_rq("java", out)
    ma = common.run_driver([rq])[0].get("r")
    run.count({"request": {"kind": case["kind"]}, "answer": ia})
    run.cov["traces_validated_against_impl"] += 1
    if ma != ia:
        st.diffs.append(("javac:" + name, rq, ia, ma))
    faulty = sorted(p for p, ok in case["alone_ok"].items() if not ok)
    reported = [f for f, _ in ia["failed"]]
    rec = {"kind": "failing-input", "stream": "javac:" + name, "compiler": "java", "output": out, "filters": [],
           "implementation": ia, "ground_truth": case["gt"], "files": case["files"], "faulty_when_compiled_alone": faulty}
    if name == "maxerrs":
        run.cov["maxerrs_probe"] = {"faulty_alone": len(faulty), "reported": len(reported),
                                    "error_lines_in_output": sum(len(m) for _, m in case["gt"]["failed"])}
        if ia["crash"] or sorted(reported) != faulty:
            rec["note"] = ("javac stops reporting after 100 errors (-Xmaxerrs default): files whose errors come later in the batch "
                           "are missing from the output, so the analysis reports them as compiled")
            run.violation(rec, signature="java:maxerrs-cap-drops-files")
    else:
        run.cov["quoted_java_lang_probe"] = {"crash_reported": ia["crash"], "trace_in_output": has_javac_trace(out), "faulty_alone": len(faulty)}
        if ia != case["gt"] or sorted(reported) != faulty:
            rec["note"] = ("the output contains no stack trace, only an ordinary diagnostic whose quoted source line contains "
                           "`java.lang` (identifiers java and lang are entries of src/resources/words); CRASH_REGEX fires on it")
            run.violation(rec, signature="java:crash-regex-on-quoted-java.lang")
            st.reported_sigs.append("java:crash-regex-on-quoted-java.lang")


# obligations of Props/C14.lean that stop checking when the tree implements the as-is javac crash
# pattern, and the failing input (by signature) that explains them
EXPLAINS = {
    "java:crash-regex-on-quoted-java.lang": {"javaCrashPattern_expected", "javaCrashVariant_live"},
}


def broken_theorems(run):
    """names of the theorems of Props/C14.lean at which the build reported an error"""
    path = os.path.join(common.LEAN, "Heph", "Props", "C14.lean")
    try:
        src = open(path, encoding="utf-8").read().split("\n")
    except OSError:
        return []
    names = set()
    for b in run.broken:
        det = b.get("detail")
        for line in (det if isinstance(det, list) else [str(det)]):
            m = re.search(r"C14\.lean:(\d+):", line)
            if not m:
                continue
            ln = int(m.group(1))
            for i in range(min(ln, len(src)) - 1, -1, -1):
                mm = re.match(r"\s*theorem\s+([A-Za-z0-9_'.]+)", src[i])
                if mm:
                    names.add(mm.group(1))
                    break
    return sorted(names)


def case_replay(k):
    d = {"compiler": k["compiler"], "filters": k["filters"], "case_kind": k.get("kind")}
    key, v = text_field(k["text"])
    d[key] = v
    d["gt"] = k.get("gt")
    if k.get("items") is not None:
        d["items"] = k["items"]
    return d


def verdict(run, st, proofs_ok):
    """2.4: a broken obligation or correspondence is not by itself the violation; the failing
    input is an input on which the real code differs from the ground truth"""
    thms = broken_theorems(run)
    if st.gt_bad:
        # smallest failing input per (compiler, shape)
        best = {}
        for lab, c, k, ia, gt in st.gt_bad:
            sig = "%s:%s" % (c, diff_shape(ia, gt))
            if sig not in best or len(k["text"]) < len(best[sig][2]["text"]):
                best[sig] = (lab, c, k, ia, gt)
        for sig, (lab, c, k, ia, gt) in sorted(best.items()):
            rec = {"kind": "failing-input", "stream": lab, "implementation": ia, "ground_truth": gt,
                   "broken_obligations": thms, "correspondence_differs": bool(st.diffs)}
            rec.update(case_replay(k))
            run.log("failing input (%s, %s): implementation=%s ground truth=%s" % (sig, lab, common.canon(ia)[:200], common.canon(gt)[:200]))
            run.violation(rec, signature=sig)
        return
    if st.diffs:
        lab, rq, ia, ma = st.diffs[0]
        run.violation({"kind": "broken-correspondence", "correspondence": "analyze_compiler_output vs Model/Diag.analyze",
                       "stream": lab, "request": rq, "implementation": ia, "model": ma, "differing_requests": len(st.diffs),
                       "broken_obligations": thms or run.broken,
                       "note": "the real code agrees with the ground truth on every well-formed batch explored"},
                      signature="%s:model-differs" % rq.get("compiler"), no_input=True)
        return
    if not proofs_ok:
        # 2.4: the failing-input search has already found (and reported under its signature) the
        # input that explains these obligations: the unrepaired javac crash pattern
        explained = set()
        for sig in list(run.known_hit) + [s_ for s_ in getattr(st, "reported_sigs", [])]:
            explained |= EXPLAINS.get(sig, set())
        left = [t for t in thms if t not in explained]
        only_props = all("Heph.Props.C14" in str(b.get("obligation", "")) for b in run.broken)
        if thms and not left and only_props:
            run.log("broken obligations %s are explained by the reported failing input(s)" % ", ".join(thms))
            run.cov["broken_obligations_explained_by"] = sorted(set(run.known_hit) | set(getattr(st, "reported_sigs", [])))
            return
        run.violation({"kind": "broken-proof", "theorems": thms, "obligations": run.broken,
                       "note": "no input found on which the real code differs from the model or from the ground truth"},
                      signature="proof", no_input=True)


ASSUMPTIONS = [
    "output grammar (Spec/Diag.WFItem) of kotlinc, groovyc and scalac is assumed, not validated against the real compilers (not installed); javac's is validated on real javac 17 output of hand-written programs",
    "filters are literal substrings (the real code receives re.escape(literal)); general regular expressions as filters are not modelled",
    "weak spot (b): an error whose line is not newline-terminated is dropped by the Java pattern; javac terminates every line and hephaestus.run_command neither strips nor truncates the output (checked on every real javac run of this check), so this is outside what the tool produces",
    "weak spot (c): a directory name containing a character outside [a-zA-Z0-9/_] truncates the file key; tempfile.mkdtemp() names are tmp+[a-z0-9_]{8} under /tmp, package directories are lower-case words of src/resources/words; only a TMPDIR with such characters reaches it (environment assumption)",
    "javac's default should-stop policy skips flow analysis (missing return, unreported exception, uninitialised variable) for every class after the first error of a batch, so a program whose ONLY errors are flow errors prints no diagnostic when an earlier program of the batch failed (see coverage.javac_flow_probe); the programs the tool expects to fail carry type errors, which javac reports for every file; -XDshould-stop.ifError=FLOW would remove the assumption",
    "the compiler is run the way hephaestus.run_command runs it on POSIX (shell=True, joined arguments, stderr folded into stdout, UTF-8 decoding); this check re-implements those five lines because importing hephaestus.py parses the command line",
    "for groovyc a java.lang.StackOverflowError line counts as crash only when no error block was reported (the code's explicit rule), ground truth follows that rule",
]


def check(run):
    quick = run.tier == "quick"
    changed = regen.regen_regex()
    run.cov["regenerated"] = {"Heph/Generated/Regex.lean": "rewritten" if changed else "unchanged"}
    proofs_ok = run.build_and_audit()
    if not proofs_ok:
        run.log("broken obligations:", ", ".join(broken_theorems(run)) or run.broken)
    if not os.path.exists(common.DRV):
        raise HarnessError("driver not built: " + common.DRV)
    transport_selftest()
    classes()
    st = State()
    run.assumptions += ASSUMPTIONS
    run.cov["rule"] = (
        "case = (compiler, output text, literal filters); compared exactly: crash flag and failed map as ordered list of "
        "[file, [messages]]. Streams: corpus of minimised cases; rendered batches (0-40 files, 0-5 errors each, warnings, notes, "
        "summaries, tool paths /tmp/tmpXXXXXXXX/src/<word>/<file> and variations; kinds plain/filter/trace/non-wf) with ground truth "
        "from an own renderer cross-checked with Spec/Diag via diag.render; adversarial strings (fragment soup and edited header "
        "templates, 15% with filters); real javac 17 output (whole, cut at lines, cut at bytes, filtered). non-trivial = the real "
        "code reports a crash or at least one file; distinct by canonical JSON of the request")
    run.cov["exhaustive"] = False
    # a. corpus
    cs = corpus_cases()
    run_cases(run, st, "corpus", cs)
    run.log("stream corpus: %d cases" % len(cs))
    # b. rendered batches with ground truth
    stream_rendered(run, st, 120 if quick else 1500)
    # c. adversarial
    stream_adversarial(run, st, 40000 if quick else 1000000)
    # d. real javac
    stream_javac(run, st)
    run.cov["correspondence_differs"] = len(st.diffs)
    run.cov["ground_truth_differs"] = len(st.gt_bad)
    verdict(run, st, proofs_ok)


def replay(run, rp):
    src = rp if "compiler" in rp else rp.get("request")   # broken-correspondence records carry the request
    if not src or ("output" not in src and "output_cps" not in src):
        raise HarnessError("replay file names no input (kind=%s): nothing to re-run" % rp.get("kind"))
    c = src["compiler"]
    text = rq_output(src)
    filters = src.get("filters", [])
    ia = impl_analyze(c, text, filters)
    rq = analyze_rq(c, text, filters)
    ma = common.run_driver([rq])[0].get("r")
    gt = rp.get("gt") if rp.get("gt") is not None else rp.get("ground_truth")
    run.count({"request": rq, "answer": ia})
    run.cov["rule"] = "replay of one recorded case"
    run.log("implementation:", common.canon(ia)[:500])
    run.log("model:         ", common.canon(ma)[:500])
    run.log("ground truth:  ", common.canon(gt)[:500] if gt is not None else "none claimed")
    sig = rp.get("signature")
    if gt is not None and ia != gt:
        if sig in ("java:maxerrs-cap-drops-files", "java:crash-regex-on-quoted-java.lang"):
            run.violation({"kind": "failing-input", "compiler": c, "output": text, "filters": filters, "implementation": ia, "ground_truth": gt}, signature=sig)
        else:
            run.violation(dict(rp, implementation=ia, kind="failing-input"), signature="%s:%s" % (c, diff_shape(ia, gt)))
    elif sig == "java:maxerrs-cap-drops-files" and rp.get("faulty_when_compiled_alone") is not None \
            and sorted(f for f, _ in ia["failed"]) != sorted(rp["faulty_when_compiled_alone"]):
        run.violation({"kind": "failing-input", "compiler": c, "output": text, "filters": filters, "implementation": ia,
                       "faulty_when_compiled_alone": rp["faulty_when_compiled_alone"]}, signature=sig)
    elif ma != ia:
        run.violation({"kind": "broken-correspondence", "request": rq, "implementation": ia, "model": ma},
                      signature="%s:model-differs" % c, no_input=True)
