"""Shared machinery of the checks: Lean build + audit, driver transport, evidence,
violations, known findings.  Everything a check reports goes through `Run`."""
import json
import os
import random
import re
import subprocess
import sys
import time

VERIF = os.path.dirname(os.path.dirname(os.path.abspath(__file__)))
REPO = os.environ.get("HEPH_REPO", "/repo")
LEAN = os.path.join(VERIF, "lean")
DRV = os.path.join(LEAN, ".lake", "build", "bin", "hephdrv")
ALLOWED_AXIOMS = {"propext", "Classical.choice", "Quot.sound"}
FORBIDDEN = re.compile(
    r"\bsorry\b|\badmit\b|^\s*axiom\s|native_decide|bv_decide|implemented_by|\bunsafe\s|maxHeartbeats\s+0\b",
    re.M)

TRUSTED_BASE = [
    "Lean 4.33.0 kernel (axioms audited per theorem: subset of propext, Classical.choice, Quot.sound)",
    "hand-written Lean model in lean/Heph/Model (tied to /repo only by the correspondence run of this check)",
    "harness/*.py (request generation, canonicalisation, comparison) and the JSON reader of lean/Driver",
    "CPython, and for Java properties javac, as external artefacts",
]


class HarnessError(Exception):
    """something is wrong with the machinery itself: exit 2, never a violation"""


def strip_lean_comments(src):
    out, i, depth, n = [], 0, 0, len(src)
    while i < n:
        if src.startswith("/-", i):
            depth += 1
            i += 2
        elif depth and src.startswith("-/", i):
            depth -= 1
            i += 2
        elif depth:
            if src[i] == "\n":
                out.append("\n")
            i += 1
        elif src.startswith("--", i):
            while i < n and src[i] != "\n":
                i += 1
        else:
            out.append(src[i])
            i += 1
    return "".join(out)


def lean_sources(sub="Heph"):
    root = os.path.join(LEAN, sub)
    for d, _, fs in os.walk(root):
        for f in sorted(fs):
            if f.endswith(".lean"):
                yield os.path.join(d, f)


def forbidden_tokens():
    """grep of the Lean tree (comments stripped) for constructs the task forbids"""
    hits = []
    for path in lean_sources("Heph"):
        txt = strip_lean_comments(open(path, encoding="utf-8").read())
        for m in FORBIDDEN.finditer(txt):
            line = txt.count("\n", 0, m.start()) + 1
            hits.append("%s:%d:%s" % (os.path.relpath(path, LEAN), line, m.group(0).strip()))
    return hits


def lake_build(targets, timeout=3000):
    """returns (ok, log)"""
    cmd = ["lake", "build"] + list(targets)
    p = subprocess.run(cmd, cwd=LEAN, stdout=subprocess.PIPE, stderr=subprocess.STDOUT,
                       text=True, timeout=timeout)
    return p.returncode == 0, p.stdout


def prop_theorems(prop):
    """names of the theorems of Props/<prop>.lean (namespace Heph.Props.<prop>), followed by those of every
    file Props/<prop><Suffix>.lean that it imports (`import Heph.Props.<prop><Suffix>`; its theorems live in
    the namespace named by its first `namespace Heph.Props.<prop>.<Sub>` line and are returned as `<Sub>.<name>`)"""
    path = os.path.join(LEAN, "Heph", "Props", prop + ".lean")
    raw = open(path, encoding="utf-8").read()
    txt = strip_lean_comments(raw)
    names = re.findall(r"^\s*theorem\s+([A-Za-z0-9_'.]+)", txt, re.M)
    for suffix in re.findall(r"^import Heph\.Props\.%s([A-Za-z0-9_]+)\s*$" % re.escape(prop), raw, re.M):
        sub = strip_lean_comments(open(os.path.join(LEAN, "Heph", "Props", prop + suffix + ".lean"),
                                       encoding="utf-8").read())
        ns = re.search(r"^namespace Heph\.Props\.%s\.([A-Za-z0-9_.]+)" % re.escape(prop), sub, re.M)
        pre = ns.group(1) + "." if ns else ""
        names += [pre + n for n in re.findall(r"^\s*theorem\s+([A-Za-z0-9_'.]+)", sub, re.M)]
    return names


def audit(prop):
    """`#print axioms` for every theorem of the property file; returns {theorem: [axioms]}"""
    names = prop_theorems(prop)
    os.makedirs(os.path.join(LEAN, "Audit"), exist_ok=True)
    path = os.path.join(LEAN, "Audit", prop + ".lean")
    with open(path, "w") as f:
        f.write("import Heph.Props.%s\nopen Heph.Props.%s\n" % (prop, prop))
        for n in names:
            f.write("#print axioms %s\n" % n)
    p = subprocess.run(["lake", "env", "lean", path], cwd=LEAN, stdout=subprocess.PIPE,
                       stderr=subprocess.STDOUT, text=True, timeout=1800)
    out = p.stdout
    res = {}
    flat = re.sub(r"\n\s+", " ", out)      # long axiom lists wrap over lines
    found = []
    for m in re.finditer(r"^'(.+)' depends on axioms: \[([^\]]*)\]", flat, re.M):
        found.append((m.group(1), [a.strip() for a in m.group(2).split(",") if a.strip()]))
    for m in re.finditer(r"^'(.+)' does not depend on any axioms", flat, re.M):
        found.append((m.group(1), []))
    # keyed by the last name component (as always) and, taking precedence, by the name relative to
    # Heph.Props.<prop> (theorems of an imported Props/<prop><Suffix>.lean are `<Sub>.<name>`)
    pfx = "Heph.Props.%s." % prop
    for full, ax in found:
        res.setdefault(full.split(".")[-1], ax)
    for full, ax in found:
        if full.startswith(pfx):
            res[full[len(pfx):]] = ax
    missing = [n for n in names if audit_lookup(res, n) is None]
    return names, res, missing, out


def audit_lookup(res, name):
    return res[name] if name in res else res.get(name.split(".")[-1])


def leanchecker(modules, timeout=3000):
    p = subprocess.run(["lake", "env", "leanchecker"] + list(modules), cwd=LEAN,
                       stdout=subprocess.PIPE, stderr=subprocess.STDOUT, text=True, timeout=timeout)
    return p.returncode == 0, p.stdout[-2000:]


def run_driver(requests, timeout=3000):
    """send requests (list of dict) through hephdrv, return list of answers (dict)"""
    if not os.path.exists(DRV):
        raise HarnessError("driver not built: " + DRV)
    data = "".join(json.dumps(r, separators=(",", ":")) + "\n" for r in requests)
    # Through files, not pipes: a worker pool of the calling check may fork a replacement worker while
    # a pipe to the driver is open; the child inherits the write end, the driver never sees end of
    # input and the check hangs.  Regular files have no such end-of-file dependence.
    import tempfile
    with tempfile.TemporaryDirectory(prefix="hephdrv_") as td:
        fin, fout, ferr = (os.path.join(td, n) for n in ("in", "out", "err"))
        with open(fin, "w", encoding="utf-8", newline="") as f:
            f.write(data)
        with open(fin, "rb") as i, open(fout, "wb") as o, open(ferr, "wb") as e:
            rc = subprocess.run([DRV], stdin=i, stdout=o, stderr=e, timeout=timeout, close_fds=True).returncode
        out = open(fout, encoding="utf-8", newline="").read()
        err = open(ferr, encoding="utf-8", errors="replace").read()

    class _P:
        pass
    p = _P()
    p.returncode, p.stdout, p.stderr = rc, out, err
    # not splitlines(): answers may carry U+2028, U+0085 ... raw inside JSON strings
    lines = p.stdout.split("\n")
    if lines and lines[-1] == "":
        lines.pop()
    if len(lines) != len(requests):
        raise HarnessError("driver answered %d lines for %d requests" % (len(lines), len(requests)))
    return [json.loads(l) for l in lines]


def canon(x):
    """canonical JSON text of a value (for distinct counting)"""
    return json.dumps(x, sort_keys=True, separators=(",", ":"))


def known_findings():
    path = os.path.join(VERIF, "known_findings.json")
    if not os.path.exists(path):
        return {"findings": [], "fixed": []}
    return json.load(open(path))


class Run:
    """one invocation of a check"""

    def __init__(self, prop, tier, seed, level="proof"):
        self.prop, self.tier, self.seed, self.level = prop, tier, seed, level
        self.t0 = time.time()
        self.rng = random.Random(seed)
        self.violations = []          # (replay path, note)
        self.known_hit = []
        self.cov = {
            "evaluations": 0, "distinct_nontrivial": 0, "rule": "", "samples": [],
            "traces_validated_against_impl": 0, "obligations": 0, "discharged": 0,
            "checker_cmd": "cd lean && lake build Heph.Props.%s hephdrv && lake env lean Audit/%s.lean" % (prop, prop),
            "trusted_base": list(TRUSTED_BASE),
        }
        self.assumptions = []
        self._distinct = set()
        self.broken = []              # names of proof obligations / correspondences that no longer check
        self._kf = [f for f in known_findings().get("findings", []) if f.get("property") == prop]

    # ---- logging -------------------------------------------------------------------
    def log(self, *a):
        print("[%s %6.1fs]" % (self.prop, time.time() - self.t0), *a, flush=True)

    # ---- proof side ----------------------------------------------------------------
    def build_and_audit(self, extra_targets=(), thorough_leanchecker=True):
        """build the property's Lean module and the driver, audit axioms.  A failure is
        recorded in self.broken (the caller then runs its failing-input search)."""
        hits = forbidden_tokens()
        if hits:
            self.broken.append({"obligation": "no-forbidden-constructs", "detail": hits[:20]})
        ok, log = lake_build(["Heph.Props." + self.prop, "hephdrv"] + list(extra_targets))
        self.cov["lake_build_ok"] = ok
        if not ok:
            errs = [l for l in log.splitlines() if "error" in l][:20]
            self.broken.append({"obligation": "lake build Heph.Props." + self.prop, "detail": errs})
            self.log("BUILD FAILED", *errs[:5])
            # the driver may still exist from the previous build; try to build it alone
            lake_build(["hephdrv"])
            return False
        names, res, missing, out = audit(self.prop)
        self.cov["obligations"] = len(names)
        good = 0
        for n in names:
            ax = audit_lookup(res, n)
            if ax is None:
                self.broken.append({"obligation": "audit " + n, "detail": "no #print axioms output"})
            elif set(ax) - ALLOWED_AXIOMS:
                self.broken.append({"obligation": "audit " + n, "detail": "axioms " + ",".join(ax)})
            else:
                good += 1
        self.cov["discharged"] = good
        self.cov["theorems"] = {n: audit_lookup(res, n) for n in names}
        if self.tier == "thorough" and thorough_leanchecker:
            ok2, tail = leanchecker(["Heph.Props." + self.prop])
            self.cov["leanchecker_ok"] = ok2
            if not ok2:
                self.broken.append({"obligation": "leanchecker Heph.Props." + self.prop, "detail": tail[-500:]})
        self.log("theorems %d/%d audited, forbidden hits %d" % (good, len(names), len(hits)))
        return not self.broken

    # ---- coverage ------------------------------------------------------------------
    def count(self, case, nontrivial=True, sample_cap=6):
        self.cov["evaluations"] += 1
        if nontrivial:
            k = canon(case)
            if k not in self._distinct:
                self._distinct.add(k)
                if len(self.cov["samples"]) < sample_cap:
                    self.cov["samples"].append(case)
        self.cov["distinct_nontrivial"] = len(self._distinct)

    def tally(self, key, sub):
        d = self.cov.setdefault(key, {})
        d[sub] = d.get(sub, 0) + 1

    # ---- violations ----------------------------------------------------------------
    def write_replay(self, obj, tag="v"):
        d = os.path.join(VERIF, "replays")
        os.makedirs(d, exist_ok=True)
        path = os.path.join(d, "%s_%s_%d_%d.json" % (self.prop, tag, self.seed, len(self.violations)))
        with open(path, "w") as f:
            json.dump(obj, f, indent=1, sort_keys=True, default=str)
        return path

    def match_known(self, signature):
        for f in self._kf:
            if f.get("signature") == signature:
                return f
        return None

    def violation(self, replay_obj, signature=None, no_input=False):
        """report a failing input (or a broken obligation without one).  `signature`
        identifies the shape of the failure for the known-findings file."""
        if signature is not None:
            f = self.match_known(signature)
            if f is not None:
                if signature not in self.known_hit:
                    self.known_hit.append(signature)
                    print("KNOWN-FINDING: property=%s %s" % (self.prop, f.get("what", signature)), flush=True)
                return
        replay_obj = dict(replay_obj)
        replay_obj.setdefault("property", self.prop)
        replay_obj.setdefault("signature", signature)
        replay_obj.setdefault("seed", self.seed)
        path = self.write_replay(replay_obj)
        self.violations.append(path)
        print("VIOLATION property=%s replay=%s%s" % (self.prop, path, " no-failing-input-found" if no_input else ""),
              flush=True)

    # ---- end -----------------------------------------------------------------------
    def finish(self):
        ev = {
            "property_id": self.prop, "tier": self.tier, "seed": self.seed, "level": self.level,
            "coverage": self.cov, "assumptions": self.assumptions,
            "wall_s": round(time.time() - self.t0, 2), "violations": len(self.violations),
        }
        ev["coverage"]["known_findings_hit"] = self.known_hit
        ev["coverage"]["broken_obligations"] = self.broken
        normalise_evidence(ev)
        os.makedirs(os.path.join(VERIF, "evidence"), exist_ok=True)
        with open(os.path.join(VERIF, "evidence", self.prop + ".json"), "w") as f:
            json.dump(ev, f, indent=1, sort_keys=True, default=str)
        self.log("done: evaluations=%d distinct=%d violations=%d wall=%.1fs" % (
            self.cov["evaluations"], self.cov["distinct_nontrivial"], len(self.violations), ev["wall_s"]))
        return 1 if self.violations else 0


_INT_KEYS = ("evaluations", "distinct_nontrivial", "states", "transitions", "traces_validated_against_impl",
             "obligations", "discharged", "programs", "disagreements_checked")
_LEVELS = ("exploration", "fault_enumeration", "model_checking", "proof", "translation_validation", "other")


def normalise_evidence(ev):
    """keep the evidence file inside EVIDENCE.schema.json whatever a check put into its coverage: the
    schema's integer keys hold integers (a structured value moves to `<key>_detail`), samples is a
    non-empty list, the level is one of the schema's categories (the technique of this framework is proof;
    what is partial about a claim is said in MANIFEST.json's level text)"""
    cov = ev["coverage"]
    for k in _INT_KEYS:
        if k in cov and not (isinstance(cov[k], int) and not isinstance(cov[k], bool) and cov[k] >= 0):
            v = cov.pop(k)
            cov[k + "_detail"] = v
            if isinstance(v, dict):
                nums = [x for x in v.values() if isinstance(x, int) and not isinstance(x, bool)]
                cov[k] = max(nums) if nums else 0
            elif isinstance(v, (list, tuple, set)):
                cov[k] = len(v)
            elif isinstance(v, float) and v >= 0:
                cov[k] = int(v)
    if not isinstance(cov.get("samples"), list):
        cov["samples"] = [cov.get("samples")]
    if ev.get("level") not in _LEVELS:
        cov["level_as_written_by_check"] = ev.get("level")
        ev["level"] = "proof"
    for k in ("rule", "checker_cmd", "explanation"):
        if k in cov and not isinstance(cov[k], str):
            cov[k] = str(cov[k])
    if "exhaustive" in cov and not isinstance(cov["exhaustive"], bool):
        cov["exhaustive"] = bool(cov["exhaustive"])


def compare_stream(run, requests, impl_answers, label, canon_answer=None, nontrivial=None, max_report=3):
    """run `requests` through the model driver and compare with the implementation's
    answers.  Returns the list of (index, request, impl, model) that differ."""
    answers = run_driver(requests)
    diffs = []
    for i, (rq, ia, ma) in enumerate(zip(requests, impl_answers, answers)):
        if "error" in ma:
            raise HarnessError("%s: driver error on %s: %s" % (label, canon(rq)[:300], ma["error"]))
        m = ma.get("r")
        if canon_answer is not None:
            m = canon_answer(rq, m)
        nt = True if nontrivial is None else nontrivial(rq, ia)
        run.count({"request": rq, "answer": ia}, nontrivial=nt)
        run.cov["traces_validated_against_impl"] += 1
        run.tally("ops", rq.get("op", "?"))
        if m != ia:
            diffs.append((i, rq, ia, m))
    if diffs:
        run.log("%s: %d of %d requests differ" % (label, len(diffs), len(requests)))
        for d in diffs[:max_report]:
            run.log("   request=%s impl=%s model=%s" % (canon(d[1])[:400], canon(d[2])[:200], canon(d[3])[:200]))
    return diffs
