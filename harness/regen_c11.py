"""Regenerates lean/Heph/Generated/TransWrites.lean from /repo/src/translators/*.py on every run
(C11: "translation is a function of the program only / history independent").

Purely syntactic extraction with Python's `ast` (trusted, stated in the trusted base):

  transWrites     every attribute store in the file: targets of `=`, `op=`, annotated assignment (with
                  or without value), `del x.a`, for-loop / with / walrus targets, and subscript stores
                  whose base is an attribute (`self.x[k] = v`, `del self.x[k]`); tuple/list/starred
                  targets are unpacked.  Columns: file, qualified function, line, root Name of the
                  target's base chain (`self`, `node`, `res` …; "?" when the chain does not start at a
                  Name, e.g. `f().a = 1`), dotted attribute chain below the root (`ident`,
                  `context`, `a.b`; subscripts inside the chain are printed as `[]`).
  transMutCalls   calls `<recv>.<m>(…)` with m a mutating container method, whose receiver's root Name
                  is a parameter (other than `self`) of the innermost or any enclosing function.
                  Columns: file, qualified function, line, receiver chain (`node.args`), method.
  transInitAttrs / transResetAttrs
                  for every class that defines `_reset_state`: sorted de-duplicated names a with a
                  store `self.a = …` (any of the store forms above, first attribute of the chain)
                  in `__init__` of that very class resp. in `_reset_state`.
  transFilesScanned  the files parsed.
 extras (not asked for by the plan, needed to state what is true):
  transLocalCtor  (file, qualified function, line, local name, class): assignments `x = C(…)` of a plain local
                  name from a call of a class defined in the scanned files (the written objects of the six
                  non-`self` stores are such fresh translators).
  transResetCalls (file, qualified function, line): every call `<anything>._reset_state(…)`.
  transSelfMutAttrs  owner ↦ sorted first attributes a of `self.a…` that are stored to (any store form)
                  or are the receiver of a mutating method call, anywhere in the owner (nested functions
                  included) EXCEPT inside its `__init__` and `_reset_state`, i.e. the attributes a
                  translation run can change; owner = enclosing top-level class, or "<file>:<module>" for module-level
                  functions (the `append_to` decorators).

Qualified function = dotted path of enclosing classes/functions (`KotlinTranslator.visit_block`,
`append_to.inner`, `KotlinTranslator.visit_lambda.inside_block_unit_function`); "<module>" at module level.
Deterministic: files sorted by name, entries sorted by (file, line, column)."""
import ast
import os
import common

MUTATORS = ("append", "extend", "insert", "pop", "remove", "clear", "update", "add", "discard",
            "setdefault", "sort", "reverse", "popitem")


def chain(e):
    """(root name or "?", [attr, …]) of an attribute/subscript chain"""
    parts = []
    while True:
        if isinstance(e, ast.Attribute):
            parts.append(e.attr)
            e = e.value
        elif isinstance(e, ast.Subscript):
            parts.append("[]")
            e = e.value
        elif isinstance(e, ast.Name):
            return e.id, list(reversed(parts))
        else:
            return "?", list(reversed(parts))


def chain_text(parts):
    out = ""
    for p in parts:
        if p == "[]":
            out += "[]"
        else:
            out += ("." if out else "") + p
    return out


class Scan(ast.NodeVisitor):
    def __init__(self, fname):
        self.fname = fname
        self.scope = []          # names of enclosing classes / functions
        self.params = []         # stack of parameter-name sets of enclosing functions
        self.writes = []         # (file, qual, line, col, root, chain)
        self.mutcalls = []       # (file, qual, line, col, receiver chain, method)
        self.cls_attrs = {}      # class -> {"__init__": set, "_reset_state": set, "has_reset": bool}
        self.cls_stack = []
        self.local_ctor = []     # (file, qual, line, col, name, class)
        self.reset_calls = []    # (file, qual, line, col)
        self.self_mut = {}       # owner -> set of attrs
        self.class_names = set()

    def qual(self):
        return ".".join(self.scope) if self.scope else "<module>"

    def owner(self):
        return self.cls_stack[0][0] if self.cls_stack else self.fname + ":<module>"

    def in_init_or_reset(self):
        if not self.cls_stack:
            return False
        depth = self.cls_stack[-1][1]
        return len(self.scope) > depth and self.scope[depth] in ("__init__", "_reset_state")

    # ---- scopes
    def visit_ClassDef(self, node):
        for d in node.decorator_list:
            self.visit(d)
        for b in node.bases + [k.value for k in node.keywords]:
            self.visit(b)
        self.scope.append(node.name)
        self.cls_stack.append((node.name, len(self.scope)))
        self.cls_attrs.setdefault(node.name, {"__init__": set(), "_reset_state": set(), "has_reset": False,
                                              "has_init": False})
        for st in node.body:
            self.visit(st)
        self.cls_stack.pop()
        self.scope.pop()

    def _func(self, node):
        for d in node.decorator_list:
            self.visit(d)
        a = node.args
        for dflt in a.defaults + [d for d in a.kw_defaults if d is not None]:
            self.visit(dflt)
        names = {x.arg for x in a.posonlyargs + a.args + a.kwonlyargs}
        if a.vararg:
            names.add(a.vararg.arg)
        if a.kwarg:
            names.add(a.kwarg.arg)
        self.scope.append(node.name)
        self.params.append(names)
        if self.cls_stack and self.cls_stack[-1][1] == len(self.scope) - 1:
            info = self.cls_attrs[self.cls_stack[-1][0]]
            if node.name == "_reset_state":
                info["has_reset"] = True
            if node.name == "__init__":
                info["has_init"] = True
        for st in node.body:
            self.visit(st)
        self.params.pop()
        self.scope.pop()

    visit_FunctionDef = _func
    visit_AsyncFunctionDef = _func

    def visit_Lambda(self, node):
        a = node.args
        names = {x.arg for x in a.posonlyargs + a.args + a.kwonlyargs}
        self.params.append(names)
        self.visit(node.body)
        self.params.pop()

    # ---- stores
    def store(self, tg, lineno):
        if isinstance(tg, (ast.Tuple, ast.List)):
            for el in tg.elts:
                self.store(el, lineno)
        elif isinstance(tg, ast.Starred):
            self.store(tg.value, lineno)
        elif isinstance(tg, ast.Attribute) or (isinstance(tg, ast.Subscript) and self._has_attr(tg)):
            root, parts = chain(tg)
            if isinstance(tg, ast.Subscript):
                # x.a[k] = v : the written object is x.a ; drop the trailing [] markers
                while parts and parts[-1] == "[]":
                    parts.pop()
            self.writes.append((self.fname, self.qual(), lineno, tg.col_offset, root, chain_text(parts)))
            self._class_attr(root, parts)
            if root == "self" and parts and not self.in_init_or_reset():
                self.self_mut.setdefault(self.owner(), set()).add(parts[0])
        # plain Name / subscript of a Name: not an attribute write

    @staticmethod
    def _has_attr(e):
        while isinstance(e, ast.Subscript):
            e = e.value
        return isinstance(e, ast.Attribute)

    def _class_attr(self, root, parts):
        if root != "self" or not parts or not self.cls_stack:
            return
        cls, depth = self.cls_stack[-1]
        # the method directly inside the class body
        if len(self.scope) >= depth + 1:
            meth = self.scope[depth]
            if meth in ("__init__", "_reset_state") and len(self.scope) == depth + 1:
                self.cls_attrs[cls][meth].add(parts[0])

    def visit_Assign(self, node):
        self.visit(node.value)
        v = node.value
        if isinstance(v, ast.Call) and isinstance(v.func, ast.Name) and v.func.id in self.class_names:
            for tg in node.targets:
                if isinstance(tg, ast.Name):
                    self.local_ctor.append((self.fname, self.qual(), node.lineno, tg.col_offset, tg.id, v.func.id))
        for tg in node.targets:
            self.store(tg, node.lineno)
            self.visit(tg)

    def visit_AugAssign(self, node):
        self.visit(node.value)
        self.store(node.target, node.lineno)
        self.visit(node.target)

    def visit_AnnAssign(self, node):
        if node.value is not None:
            self.visit(node.value)
        self.store(node.target, node.lineno)
        self.visit(node.target)

    def visit_Delete(self, node):
        for tg in node.targets:
            self.store(tg, node.lineno)
            self.visit(tg)

    def visit_For(self, node):
        self.store(node.target, node.lineno)
        self.generic_visit(node)

    visit_AsyncFor = visit_For

    def visit_With(self, node):
        for it in node.items:
            if it.optional_vars is not None:
                self.store(it.optional_vars, node.lineno)
        self.generic_visit(node)

    visit_AsyncWith = visit_With

    def visit_NamedExpr(self, node):
        self.store(node.target, node.lineno)
        self.generic_visit(node)

    def visit_comprehension(self, node):
        self.store(node.target, getattr(node.target, "lineno", 0))
        self.generic_visit(node)

    # ---- mutating calls
    def visit_Call(self, node):
        f = node.func
        if isinstance(f, ast.Attribute) and f.attr == "_reset_state":
            self.reset_calls.append((self.fname, self.qual(), node.lineno, node.col_offset))
        if isinstance(f, ast.Attribute) and f.attr in MUTATORS:
            root, parts = chain(f.value)
            if root == "self" and parts and not self.in_init_or_reset():
                self.self_mut.setdefault(self.owner(), set()).add(parts[0])
            if root not in ("self", "?") and any(root in ps for ps in self.params):
                self.mutcalls.append((self.fname, self.qual(), node.lineno, node.col_offset,
                                      chain_text([root] + parts) if parts else root, f.attr))
        self.generic_visit(node)


def collect():
    d = os.path.join(common.REPO, "src", "translators")
    files = sorted(f for f in os.listdir(d) if f.endswith(".py"))
    writes, mut, init, reset, lctor, rcalls, selfmut = [], [], [], [], [], [], []
    trees = {f: ast.parse(open(os.path.join(d, f), encoding="utf-8").read()) for f in files}
    class_names = {n.name for t in trees.values() for n in ast.walk(t) if isinstance(n, ast.ClassDef)}
    for f in files:
        sc = Scan(f)
        sc.class_names = class_names
        sc.visit(trees[f])
        lctor += sc.local_ctor
        rcalls += sc.reset_calls
        selfmut += [(o, sorted(a)) for o, a in sc.self_mut.items()]
        writes += sc.writes
        mut += sc.mutcalls
        for cls in sorted(sc.cls_attrs):
            info = sc.cls_attrs[cls]
            if info["has_reset"]:
                init.append((cls, sorted(info["__init__"])))
                reset.append((cls, sorted(info["_reset_state"])))
    writes.sort(key=lambda w: (w[0], w[2], w[3], w[1], w[4], w[5]))
    mut.sort(key=lambda w: (w[0], w[2], w[3], w[1], w[4], w[5]))
    writes = [(a, b, c, e, g) for (a, b, c, _, e, g) in writes]
    mut = [(a, b, c, e, g) for (a, b, c, _, e, g) in mut]
    init.sort()
    reset.sort()
    selfmut.sort()
    lctor = [(a, b, c, e, g) for (a, b, c, _, e, g) in sorted(lctor, key=lambda w: (w[0], w[2], w[3]))]
    rcalls = [(a, b, c) for (a, b, c, _) in sorted(rcalls, key=lambda w: (w[0], w[2], w[3]))]
    return {"files": files, "writes": writes, "mutcalls": mut, "init": init, "reset": reset,
            "local_ctor": lctor, "reset_calls": rcalls, "self_mut": selfmut}


def lean_str(s):
    return '"' + s.replace("\\", "\\\\").replace('"', '\\"') + '"'


def _table(name, doc, rows):
    out = ["/-- %s -/" % doc, "def %s : List (String × String × Nat × String × String) := [" % name]
    out += ["  (%s, %s, %d, %s, %s)%s" % (lean_str(a), lean_str(b), c, lean_str(d), lean_str(e),
                                         "," if i + 1 < len(rows) else "")
            for i, (a, b, c, d, e) in enumerate(rows)]
    out += ["]", ""]
    return out


def _attrs(name, doc, rows):
    out = ["/-- %s -/" % doc, "def %s : List (String × List String) := [" % name]
    out += ["  (%s, [%s])%s" % (lean_str(c), ", ".join(lean_str(a) for a in attrs), "," if i + 1 < len(rows) else "")
            for i, (c, attrs) in enumerate(rows)]
    out += ["]", ""]
    return out


def render(r):
    out = ["/-! GENERATED by harness/regen_c11.py from src/translators/*.py — do not edit. -/",
           "namespace Heph.Generated", ""]
    out += _table("transWrites",
                  "(file, qualified function, line, root name of the written object's access path, attribute chain)"
                  " of every attribute store / attribute-based item store / `del` in src/translators",
                  r["writes"])
    out += _table("transMutCalls",
                  "(file, qualified function, line, receiver, method): calls of mutating container methods"
                  " on objects reached from a non-`self` parameter",
                  r["mutcalls"])
    out += _attrs("transInitAttrs",
                  "class ↦ attributes assigned on `self` in its own `__init__` (classes defining `_reset_state`)",
                  r["init"])
    out += _attrs("transResetAttrs",
                  "class ↦ attributes assigned on `self` in `_reset_state`", r["reset"])
    out += _table("transLocalCtor",
                  "(file, qualified function, line, local name, class): `name = Class(…)` with Class defined in"
                  " src/translators", r["local_ctor"])
    out += ["/-- (file, qualified function, line) of every call of `_reset_state` -/",
            "def transResetCalls : List (String × String × Nat) := ["]
    out += ["  (%s, %s, %d)%s" % (lean_str(a), lean_str(b), c, "," if i + 1 < len(r["reset_calls"]) else "")
            for i, (a, b, c) in enumerate(r["reset_calls"])]
    out += ["]", ""]
    out += _attrs("transSelfMutAttrs",
                  "owner (class, or `<file>:<module>`) ↦ attributes of `self` stored to or mutated through a"
                  " container method anywhere in the owner outside `__init__`/`_reset_state`", r["self_mut"])
    out += ["/-- files parsed -/",
            "def transFilesScanned : List String := [%s]" % ", ".join(lean_str(f) for f in r["files"]),
            "", "end Heph.Generated", ""]
    return "\n".join(out)


def regen():
    r = collect()
    txt = render(r)
    dst = os.path.join(common.LEAN, "Heph", "Generated", "TransWrites.lean")
    os.makedirs(os.path.dirname(dst), exist_ok=True)
    old = open(dst, encoding="utf-8").read() if os.path.exists(dst) else None
    if old != txt:
        with open(dst, "w", encoding="utf-8") as f:
            f.write(txt)
    return r


if __name__ == "__main__":
    r = regen()
    print("files:", r["files"])
    print("writes:", len(r["writes"]), "roots:", sorted({w[3] for w in r["writes"]}))
    print("mutcalls:", r["mutcalls"])
    print("local ctor:", r["local_ctor"])
    print("reset calls:", r["reset_calls"])
    for o, a in r["self_mut"]:
        print("self-mutated", o, a)
    for (c, a), (_, b) in zip(r["init"], r["reset"]):
        print(c, "\n  init :", a, "\n  reset:", b, "\n  init-reset:", sorted(set(a) - set(b)),
              "\n  reset-init:", sorted(set(b) - set(a)))
