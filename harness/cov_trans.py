"""Branch / line / call coverage of ONE source file of the repository under check (by default
`src/translators/java.py`) while real translations run, measured with `sys.monitoring`
(Python 3.12; no third-party coverage package is needed).

Why: the correspondence "Lean model text == real translator text" only sees the branches of the
translator that the explored programs execute.  The evidence of a check therefore lists which
`visit_*` methods ran how often and which conditional branches (both outcomes of every
conditional jump of the byte code, comprehension loops included) were never taken in the run.

Use in process:
    cov = cov_trans.Coverage(module)        # module object, e.g. src.translators.java
    with cov: ... translate ...
    rep = cov.report()                      # jsonable; merge several with cov_trans.merge
Use as a pipeline plugin (worker processes): spec["plugins"] = [..., "cov_trans"],
spec["cov_module"] = "src.translators.java"; result["plugins"]["cov_trans"] is a raw report.

A *branch* is identified by (qualified function name, source text of the tested expression, line,
column, kind); its two outcomes are "jump" and "fall" (for `if c:` compiled to POP_JUMP_IF_FALSE:
fall = c true, jump = c false; `for`: fall = next item, jump = exhausted).  `outcome_meaning`
translates that to true/false/none/not-none/iterate/exhausted.  Line numbers are data of the tree
under check; the allow-list of branches that no well-typed program reaches (`check_C02.DEAD`) is
keyed by function + source text + outcome meaning, not by line.
"""
import dis
import importlib
import sys
import types

TOOL = 3        # sys.monitoring tool id (0-5; 0 debugger, 1 coverage, 2 profiler are conventional)
COND = {"POP_JUMP_IF_FALSE", "POP_JUMP_IF_TRUE", "POP_JUMP_IF_NONE", "POP_JUMP_IF_NOT_NONE", "FOR_ITER"}


def code_objects(module):
    """every code object whose file is the module's file, reachable from the module's functions and classes
    (closures of decorators followed: `append_to(visit)` hides the decorated method in a cell)"""
    fname = module.__file__
    seen_objs, codes = set(), {}

    def add_code(c):
        if c.co_filename == fname and c not in codes:
            codes[c] = True
        for k in c.co_consts:
            if isinstance(k, types.CodeType) and k not in codes:
                if k.co_filename == fname:
                    add_code(k)

    def walk(o):
        if id(o) in seen_objs:
            return
        seen_objs.add(id(o))
        if isinstance(o, (staticmethod, classmethod)):
            walk(o.__func__)
        elif isinstance(o, property):
            for f in (o.fget, o.fset, o.fdel):
                if f is not None:
                    walk(f)
        elif isinstance(o, types.FunctionType):
            add_code(o.__code__)
            for cell in o.__closure__ or ():
                try:
                    walk(cell.cell_contents)
                except ValueError:
                    pass
        elif isinstance(o, type) and getattr(o, "__module__", None) == module.__name__:
            for v in vars(o).values():
                walk(v)

    for v in vars(module).values():
        if isinstance(v, (types.FunctionType, type)) and getattr(v, "__module__", None) == module.__name__:
            walk(v)
    return list(codes)


def _segment(lines, pos):
    l1, l2, c1, c2 = pos
    if l1 is None or l2 is None or c1 is None or c2 is None:
        return ""
    if l1 == l2:
        s = lines[l1 - 1][c1:c2]
    else:
        s = " ".join([lines[l1 - 1][c1:]] + [x.strip() for x in lines[l1:l2 - 1]] + [lines[l2 - 1][:c2].strip()])
    return " ".join(s.split())[:160]


def outcome_meaning(kind, outcome):
    return {("POP_JUMP_IF_FALSE", "fall"): "true", ("POP_JUMP_IF_FALSE", "jump"): "false",
            ("POP_JUMP_IF_TRUE", "fall"): "false", ("POP_JUMP_IF_TRUE", "jump"): "true",
            ("POP_JUMP_IF_NONE", "fall"): "not-none", ("POP_JUMP_IF_NONE", "jump"): "none",
            ("POP_JUMP_IF_NOT_NONE", "fall"): "none", ("POP_JUMP_IF_NOT_NONE", "jump"): "not-none",
            ("FOR_ITER", "fall"): "iterate", ("FOR_ITER", "jump"): "exhausted"}[(kind, outcome)]


class Coverage:
    def __init__(self, module):
        if isinstance(module, str):
            module = importlib.import_module(module)
        self.module = module
        self.codes = code_objects(module)
        with open(module.__file__, encoding="utf-8") as fh:
            self.lines = fh.read().split("\n")
        self.static = {}        # (code, offset) -> branch record
        self.by_code = {}
        for c in self.codes:
            ins = list(dis.get_instructions(c, show_caches=False))
            offs = [i.offset for i in ins]
            for k, i in enumerate(ins):
                if i.opname in COND:
                    p = i.positions
                    nxt = offs[k + 1] if k + 1 < len(offs) else None
                    self.static[(c, i.offset)] = {
                        "func": c.co_qualname, "line": p.lineno, "col": p.col_offset, "kind": i.opname,
                        "src": _segment(self.lines, (p.lineno, p.end_lineno, p.col_offset, p.end_col_offset)),
                        "jump_to": i.argval, "fall_to": nxt, "jump": 0, "fall": 0, "other": 0}
        self.line_hits = {}     # (code, line) -> n
        self.calls = {}         # qualname -> n
        self.unknown = 0
        self._on = False

    # ---- monitoring callbacks
    def _branch(self, code, off, dest):
        b = self.static.get((code, off))
        if b is None:
            self.unknown += 1
            return
        if dest == b["jump_to"]:
            b["jump"] += 1
        elif dest == b["fall_to"] or (b["fall_to"] is not None and b["fall_to"] < dest < b["jump_to"]):
            b["fall"] += 1      # fall-through lands behind the inline caches
        elif dest < off or dest > b["jump_to"]:
            b["jump"] += 1      # FOR_ITER's exhausted target is END_FOR (argval) or just behind it
        else:
            b["other"] += 1

    def _line(self, code, line):
        k = (code, line)
        self.line_hits[k] = self.line_hits.get(k, 0) + 1

    def _start(self, code, off):
        self.calls[code.co_qualname] = self.calls.get(code.co_qualname, 0) + 1

    def __enter__(self):
        mon = sys.monitoring
        if mon.get_tool(TOOL) is None:
            mon.use_tool_id(TOOL, "heph-verif-cov")
        ev = mon.events
        mon.register_callback(TOOL, ev.BRANCH, self._branch)
        mon.register_callback(TOOL, ev.LINE, self._line)
        mon.register_callback(TOOL, ev.PY_START, self._start)
        for c in self.codes:
            mon.set_local_events(TOOL, c, ev.BRANCH | ev.LINE | ev.PY_START)
        self._on = True
        return self

    def __exit__(self, *a):
        mon = sys.monitoring
        for c in self.codes:
            mon.set_local_events(TOOL, c, 0)
        for e in (mon.events.BRANCH, mon.events.LINE, mon.events.PY_START):
            mon.register_callback(TOOL, e, None)
        mon.free_tool_id(TOOL)
        self._on = False
        return False

    # ---- report
    def all_lines(self):
        out = set()
        for c in self.codes:
            for _, _, ln in c.co_lines():
                if ln is not None and ln != c.co_firstlineno:
                    out.add((c.co_qualname, ln))
        return out

    def report(self):
        """raw, mergeable: branches keyed by 'func|line|col|kind|src', lines by 'func|line', calls by function"""
        br = {}
        for b in self.static.values():
            key = "%s|%d|%d|%s|%s" % (b["func"], b["line"] or 0, b["col"] or 0, b["kind"], b["src"])
            r = br.setdefault(key, {"jump": 0, "fall": 0, "other": 0})
            for k in ("jump", "fall", "other"):
                r[k] += b[k]
        lines = {"%s|%d" % k: 0 for k in self.all_lines()}
        for (c, ln), n in self.line_hits.items():
            k = "%s|%d" % (c.co_qualname, ln)
            if k in lines:
                lines[k] += n
        return {"file": self.module.__file__, "branches": br, "lines": lines, "calls": dict(self.calls),
                "functions": sorted({c.co_qualname for c in self.codes}), "unknown_branch_events": self.unknown}


def merge(reports):
    out = None
    for r in reports:
        if not r or "branches" not in r:
            continue
        if out is None:
            out = {"file": r["file"], "branches": {}, "lines": {}, "calls": {}, "functions": list(r["functions"]),
                   "unknown_branch_events": 0}
        for k, v in r["branches"].items():
            d = out["branches"].setdefault(k, {"jump": 0, "fall": 0, "other": 0})
            for kk in d:
                d[kk] += v.get(kk, 0)
        for k, v in r["lines"].items():
            out["lines"][k] = out["lines"].get(k, 0) + v
        for k, v in r["calls"].items():
            out["calls"][k] = out["calls"].get(k, 0) + v
        out["unknown_branch_events"] += r.get("unknown_branch_events", 0)
    return out


def never(report):
    """the (branch, outcome) pairs that were never taken: list of dicts {func, line, src, kind, outcome, meaning, other_outcome_hits}"""
    out = []
    for key, v in sorted(report["branches"].items(), key=lambda kv: (int(kv[0].split("|")[1]), int(kv[0].split("|")[2]))):
        func, line, col, kind, src = key.split("|", 4)
        for oc in ("fall", "jump"):
            if v[oc] == 0:
                out.append({"func": func, "line": int(line), "col": int(col), "src": src, "kind": kind, "outcome": oc,
                            "meaning": outcome_meaning(kind, oc), "other_outcome_hits": v["jump" if oc == "fall" else "fall"]})
    return out


def summary(report, dead=()):
    """evidence form.  `dead`: iterable of (func-suffix, src-substring, meaning, reason): never-taken outcomes that no
    well-typed program reaches; everything else that was never taken is listed under `never_taken_unexplained`"""
    nv = never(report)
    expl, unexpl = [], []
    for n in nv:
        why = None
        for f, s, m, reason in dead:
            if n["func"].endswith(f) and s in n["src"] and (m is None or m == n["meaning"]):
                why = reason
                break
        rec = {"where": "%s:%d" % (n["func"].replace("JavaTranslator.", ""), n["line"]), "test": n["src"], "kind": n["kind"],
               "never": n["meaning"], "other_outcome_hits": n["other_outcome_hits"]}
        if why:
            rec["reason"] = why
            expl.append(rec)
        else:
            unexpl.append(rec)
    nb = len(report["branches"])
    both = sum(1 for v in report["branches"].values() if v["jump"] and v["fall"])
    lines_never = sorted((k for k, v in report["lines"].items() if v == 0), key=lambda k: int(k.split("|")[1]))
    methods = {}
    for f in report["functions"]:
        short = f.replace("JavaTranslator.", "")
        methods[short] = report["calls"].get(f, 0)
    return {"file": report["file"], "conditional_branches": nb, "both_outcomes_taken": both,
            "outcomes_total": 2 * nb, "outcomes_taken": 2 * nb - len(nv),
            "function_calls": dict(sorted(methods.items())),
            "functions_never_called": sorted(k for k, v in methods.items() if v == 0),
            "lines_total": len(report["lines"]), "lines_never_executed": lines_never,
            "never_taken_unexplained": unexpl, "never_taken_explained_dead": expl,
            "unknown_branch_events": report["unknown_branch_events"]}


# ---- pipeline plugin ------------------------------------------------------------------------
def install(state, spec):
    state["cov"] = Coverage(spec.get("cov_module", "src.translators.java"))
    state["cov"].__enter__()


def collect(state):
    return state["cov"].report() if "cov" in state else {}


def uninstall(state):
    c = state.pop("cov", None)
    if c is not None and c._on:
        c.__exit__()
