"""C18 — the pipeline never fails internally and always terminates (*partial*).

Proof side  lean/Heph/Props/C18.lean: `nesting_bound` (for every skeleton table satisfying the decidable
            hypothesis `SkeletonOK`), `skeleton_ok` (`decide` on the table REGENERATED from
            src/generators/generator.py by harness/regen_c18.py on every run), `bound_generated`,
            `height_unbounded`, `combinations_count`, `erasure_steps`.
Check side  (a) regenerate the skeleton, build, audit;
            (b) runs of the REAL pipeline (generator -> type erasure -> type overwriting, each intermediate
                program translated in its language): every stage must complete without an exception
                (an exception is a failing input: replay = (lang, seed, switches, max_depth, stage) +
                traceback); cut-offs are counted, never violations;
            (c) correspondence: the plugin harness/plugin_depth.py matches EVERY `generate_expr` call of
                the real generator to a transition of the skeleton (site, depth offset, only_leaves, void,
                cut, dispatch branch) and measures the raised-counter nesting of the real call tree
                (`Shape.wdepth`); the Lean measure `depth.expr` of every 'gen' export is compared with an
                independent Python measure, with the call-tree measure, and with the bound;
                the erasure search is compared with the model (`depth.erasure`, `depth.walk`);
            (d) specification side, judged directly on the real code (independent of the offsets of the table):
                every recursive generate_expr call of a dispatched generator is entered above the depth of the
                enclosing call unless it is one of the listed same-depth sites; the raised-counter recursion of
                a leaf generator is cut above 2*max_depth; nesting (call tree and export) <= 2*max_depth + 8
                (the bound the property file states for the current source); feasibility tests of one function
                <= n0 + min(2^n - 1, max_combinations + 1); `itertools` walk = 2^n - 1 non-empty subsets.
                Each of these yields a concrete replay (lang, seed, switches, max_depth) when it fails;
            (f) the per-iteration driver (harness/proc_lib.py): the REAL `ProgramProcessor` (get_program, can_transform,
                transform_program, inject_fault, the schedule) and the REAL loops of hephaestus.py (gen_program,
                process_cp_transformations, process_ncp_transformations) are run with SCRIPTED transformers — every
                pattern of "transforms / transforms nothing / mutates in place / returns a copy / raises" up to a small
                length, plus random ones, over 1–3 iterations — under a step cap and an alarm, so that a loop that
                does not end is a failing input (not a hang); compared field by field (step counts, counter, saved
                files, results) with lean/Heph/Model/Processor.lean (`proc.run`; theorems `transform_counter_increases`,
                `cp_loop_terminates`, `cp_loop_steps`, `gen_program_terminates`, `late_counter_diverges`) and judged
                directly: the loop ends, transform_program is called exactly as often as the schedule is long, every
                call advances the counter;
            (g) the depth cut of gen_new on crafted class tables: classes that reach themselves through array- /
                function-typed fields (and control shapes) are put into an empty context and `generate_expr` is
                entered at the depth limit under several seeds in every language, instrumented by plugin_depth:
                no exception (RecursionError), constructor nesting <= 2*max_depth + 8, every raised-counter
                recursion of the leaf generator above 2*max_depth cut unless the type is primitive; the guard of the
                cut is part of the regenerated table (`cutExempt`: exactly `<type argument>.is_primitive()`);
            (e) finding 13 (`TypeParameter.has_bound_of` needs a factory it does not have): the constructed
                call, and `has_bound_of` against an independent reference on random generic hierarchies.
"""
import itertools
import json
import multiprocessing
import os
import re
import time

import common
import pipeline
import regen_c18

LEVEL = "proof"
PLUGIN = "plugin_depth"
STAGES = ["gen", "erase", "overwrite"]
SIG_HBO = "generator:has_bound_of:factory-None:AttributeError"
QUICK_SWITCHES = [(0, 0, 0, 0), (1, 1, 0, 0), (0, 0, 1, 1), (1, 1, 1, 1)]


# ------------------------------------------------------------------ specification side (Python, independent)
def spec_bound(max_depth):
    """the bound the property claims for the current source (Props/C18 `nesting_bound_generated`)"""
    return 2 * max_depth + 8


COUNTED = {"binop": ("l", "r"), "cond": ("c", "t", "f"), "new": ("args",), "fieldaccess": ("e",),
           "call": ("args",), "assign": ("receiver",)}
SAME = {"block": ("body",), "super": ("args",), "class": ("supers",), "var": ("expr",), "arg": ("expr",),
        "param": ("default",), "funcref": ("receiver",), "array": ("exprs",), "is": ("e",),
        "call": ("receiver",), "assign": ("expr",)}


def _kids(v):
    if v is None:
        return []
    return v if isinstance(v, list) else [v]


def ref_region(n, memo):
    """nesting of one region below node `n` (reference definition: a table of counted / same-depth edges;
    functions, lambdas and fields close the region)"""
    k = id(n)
    if k in memo:
        return memo[k]
    kind = n["n"]
    best = 0
    for key in COUNTED.get(kind, ()):
        for ch in _kids(n.get(key)):
            best = max(best, 1 + ref_region(ch, memo))
    for key in SAME.get(kind, ()):
        for ch in _kids(n.get(key)):
            best = max(best, ref_region(ch, memo))
    memo[k] = best
    return best


def ref_expr_depth(decl):
    """max over every node of the declaration, taken as the root of a region"""
    memo, best, todo = {}, 0, [decl]
    while todo:
        x = todo.pop()
        if isinstance(x, dict):
            if "n" in x:
                best = max(best, ref_region(x, memo))
            todo.extend(v for v in x.values() if isinstance(v, (dict, list)))
        elif isinstance(x, list):
            todo.extend(x)
    return best


def erasure_bound(n0, n, max_comb):
    full = 2 ** n - 1
    return n0 + (min(full, max_comb + 1) if max_comb else full)


# ------------------------------------------------------------------ exceptions
def exc_signature(exc):
    tb = exc.get("traceback", "")
    frames = re.findall(r'File "([^"]+)", line \d+, in (\w+)', tb)
    if exc["type"] == "AttributeError" and "get_any_type" in exc.get("msg", "") and \
            any(fn == "has_bound_of" for _, fn in frames):
        return SIG_HBO
    src = [(f, fn) for f, fn in frames if "/src/" in f]
    if src:
        f, fn = src[-1]
        mod = f.split("/src/")[-1][:-3].replace("/", ".")
    else:
        mod, fn = "?", "?"
    return "%s:%s.%s:%s" % (exc["stage"], mod, fn, exc["type"])


def spec_key(spec):
    return {"lang": spec["lang"], "seed": spec["seed"], "switches": list(spec["switches"]),
            "max_depth": spec["max_depth"], "erasure_options": spec.get("erasure_options", {})}


def make_spec(lang, seed, switches, max_depth, cap, erasure_options=None):
    return {"lang": lang, "seed": seed, "switches": tuple(switches), "max_depth": max_depth,
            "stages": list(STAGES), "export": True, "translate": [lang], "cap": cap, "plugins": [PLUGIN],
            "erasure_options": dict(erasure_options or {})}


def make_specs(run, quick):
    """the grid (languages x switch settings x seeds x max_depth), ordered so that a budget cut leaves every
    (language, switch setting) class and every depth represented: per depth the runs are interleaved over seeds,
    switches and languages; the depths are merged by a fixed weighted round robin (deep programs cost minutes
    each on a loaded machine: they get fewer slots per round, not none)"""
    if quick:
        langs, sws, nseeds, cap = pipeline.LANGS, QUICK_SWITCHES, 8, 60
        weights = [(3, 5), (6, 3)]
    else:
        langs, sws, nseeds, cap = pipeline.LANGS, pipeline.all_switch_settings(), 60, 300
        weights = [(3, 6), (6, 5), (8, 3), (10, 2)]
    base = run.rng.randrange(1, 10 ** 6) if run.seed else 1000
    per_depth = {}
    for di, (md, _w) in enumerate(weights):
        lst = []
        for si in range(nseeds):
            for wi, sw in enumerate(sws):
                for li, lang in enumerate(langs):
                    seed = base + si * 7919 + di * 101 + wi * 13 + li
                    # a small cap on the erasure search in a quarter of the runs: the `max_combinations` cut
                    eo = {"max_combinations": 3} if (si + wi + li) % 4 == 3 else {}
                    lst.append(make_spec(lang, seed, sw, md, cap, eo))
        per_depth[md] = lst
    specs, pos = [], {md: 0 for md, _ in weights}
    pattern = []
    for k in range(max(w for _, w in weights)):
        pattern += [md for md, w in weights if k < w]
    while any(pos[md] < len(per_depth[md]) for md, _ in weights):
        for md in pattern:
            if pos[md] < len(per_depth[md]):
                specs.append(per_depth[md][pos[md]])
                pos[md] += 1
    return specs


def stream_results(specs, deadline, workers):
    """results of pipeline.run_one in order of completion, from forked workers; stops at `deadline` (the
    machine is shared: the number of programs done within the budget is reported)"""
    if len(specs) <= 2:
        for s in specs:
            yield pipeline.run_one(s)
        return
    ctx = multiprocessing.get_context("fork")
    pool = ctx.Pool(workers, initializer=pipeline._worker_init, maxtasksperchild=40)
    try:
        it = pool.imap_unordered(pipeline.run_one, specs, chunksize=1)
        for _ in specs:
            left = deadline - time.time()
            if left <= 0:
                return
            try:
                yield it.next(timeout=left)
            except multiprocessing.TimeoutError:
                return
    finally:
        pool.terminate()
        pool.join()


# ------------------------------------------------------------------ judging one pipeline result
def report(run, obj, signature, cap=2):
    """at most `cap` VIOLATION lines per signature; the rest is tallied"""
    seen = run.cov.setdefault("failing_inputs_by_signature", {})
    seen[signature] = seen.get(signature, 0) + 1
    if seen[signature] <= cap:
        run.violation(obj, signature=signature)


class Acc:
    def __init__(self):
        self.mismatch = []          # (spec, mismatch) : real call is not a transition of the skeleton
        self.measure_diff = []      # Lean depth.expr vs Python reference
        self.tree_diff = []         # exported nesting above the nesting of the real call tree
        self.erasure_diff = []      # model erasureTests vs observed tests
        self.max_by_depth = {}      # max_depth -> {"expr":…, "wdepth":…, "self_depth":…, "pyframes":…}
        self.failing = 0


def judge_result(run, r, acc, driver_requests, owners):
    """records everything that needs no driver; queues the driver requests of this result"""
    spec = r["spec"]
    m = spec["max_depth"]
    key = spec_key(spec)
    if "cutoff" in r:
        run.tally("pipeline_cutoff", "%s:max_depth=%d" % (r["cutoff"], m))
    exc = r.get("exception")
    if exc is not None:
        sig = exc_signature(exc)
        run.tally("pipeline_exception", sig)
        acc.failing += 1
        report(run, {"kind": "failing-input", "what": "the pipeline raised in stage " + exc["stage"],
                       "replay": "pipeline", "spec": key, "stage": exc["stage"], "exception": exc["type"],
                       "message": exc["msg"], "traceback": exc["traceback"]}, sig)
    for st in STAGES:
        if st in r["stages"]:
            run.tally("stages_completed", st)
            if "texts" in r["stages"][st]:
                run.tally("translations_completed", "%s:%s" % (st, spec["lang"]))
    pl = (r.get("plugins") or {}).get(PLUGIN)
    if pl is None or "error" in pl:
        raise common.HarnessError("plugin_depth: %r" % (pl,))
    done = exc is None and "cutoff" not in r
    run.count({"spec": key, "calls": pl["calls"], "max_wdepth": pl["max_wdepth"]},
              nontrivial=pl["calls"] > 0 and done)
    run.cov["generate_expr_calls"] += pl["calls"]
    run.cov["generate_expr_calls_matched_to_skeleton"] += pl["validated"]
    run.cov["dispatch_choices_checked"] += pl["dispatch_checked"]
    run.cov["calls_entered_above_entry_plus_offset"] = run.cov.get("calls_entered_above_entry_plus_offset", 0) + pl["leaks"]
    run.cov["gen_bottom_calls"] = run.cov.get("gen_bottom_calls", 0) + pl["bottoms"]
    run.cov["traces_validated_against_impl"] += pl["validated"]
    for k, v in pl["site_hits"].items():
        d = run.cov.setdefault("site_hits", {})
        d[k] = d.get(k, 0) + v
    mb = acc.max_by_depth.setdefault(m, {"expr": 0, "wdepth": 0, "slack": -10 ** 6, "self_depth": 0,
                                         "gen_nesting": 0, "pyframes": 0, "programs": 0})
    mb["programs"] += 1
    mb["wdepth"] = max(mb["wdepth"], pl["max_wdepth"])
    mb["slack"] = max(mb["slack"], pl["max_slack"])
    mb["self_depth"] = max(mb["self_depth"], pl["max_depth_seen"])
    mb["gen_nesting"] = max(mb["gen_nesting"], pl["max_nesting"])
    mb["pyframes"] = max(mb["pyframes"], pl["max_pyframes"])
    # (c) every generate_expr call is a transition of the skeleton
    for mm in pl["mismatches"]:
        acc.mismatch.append((key, mm))
    for kind, cnt in pl["mismatch_counts"].items():
        run.tally("skeleton_mismatch", kind)
    if pl["validated"] != pl["calls"] - pl.get("rootless", 0) and not pl["mismatches"]:
        acc.mismatch.append((key, {"kind": "unmatched-calls", "calls": pl["calls"], "validated": pl["validated"]}))
    # (d) specification side on the real call tree: every recursive call raises the counter …
    if pl["norise_count"]:
        acc.failing += 1
        run.tally("norise_sites", pl["norise"][0]["site"][0])
        report(run, {"kind": "failing-input", "what": "a dispatched generator enters a recursive generate_expr call "
                       "without raising self.depth above the depth of the enclosing call, at a site that is not one of "
                       "the listed same-depth sites (receiver of a call / function reference, assignment value, array "
                       "elements): the nesting bound rests on this", "replay": "pipeline", "spec": key,
                       "calls": pl["norise"], "count": pl["norise_count"]}, "generator:recursive-call-without-depth-increase:" + pl["norise"][0]["site"][0])
    if pl["uncut_count"]:
        acc.failing += 1
        report(run, {"kind": "failing-input", "what": "a leaf generator recurses under a raised counter above "
                     "2*max_depth without cutting to the bottom constant", "replay": "pipeline", "spec": key,
                     "calls": pl["uncut"], "count": pl["uncut_count"]},
               "generator:leaf-generator-recursion-not-cut:" + pl["uncut"][0]["site"][0])
    # … and the raised-counter nesting stays within the bound
    if pl["max_wdepth"] > spec_bound(m):
        acc.failing += 1
        report(run, {"kind": "failing-input", "what": "raised-counter nesting of the real generate_expr call "
                       "tree exceeds 2*max_depth+8", "replay": "pipeline", "spec": key,
                       "observed": pl["max_wdepth"], "bound": spec_bound(m), "over": pl["over"]}, "generator:nesting-above-bound:calltree")
    # erasure search
    for e in pl["erasure"]:
        if not e.get("complete", True):
            run.tally("erasure", "search-interrupted-by-cut-off")
            continue
        s = e["summary"]
        mc = e["max_combinations"] or 0
        run.cov["erasure_functions"] += 1
        run.tally("erasure_survivors_n", str(min(s["n"], 6)) + ("+" if s["n"] >= 6 else ""))
        if mc and s["first"] is None and 2 ** s["n"] - 1 > mc + 1:
            run.tally("erasure", "max_combinations-cut-reached")
        if e["tests"] > erasure_bound(s["n0"], s["n"], mc):
            acc.failing += 1
            report(run, {"kind": "failing-input", "what": "feasibility tests of one function exceed "
                           "n0 + min(2^n - 1, max_combinations + 1)", "replay": "pipeline", "spec": key,
                           "erasure": {k: e[k] for k in ("tests", "summary", "max_combinations")}}, "erasure:tests-above-bound")
        if not s["sizes_descend"] or (s["first_size"] is not None and s["first_size"] != s["n"]):
            acc.failing += 1
            report(run, {"kind": "failing-input", "what": "the erasure search does not walk the combinations "
                           "from the full set downwards", "replay": "pipeline", "spec": key,
                           "erasure": {k: e[k] for k in ("tests", "summary", "max_combinations")}}, "erasure:walk-order")
        driver_requests.append({"op": "depth.erasure", "n0": s["n0"], "n": s["n"], "maxComb": mc, "first": s["first"]})
        owners.append(("erasure", key, e))
    # nesting of the exported program
    g = r["stages"].get("gen")
    if g is not None and "export" in g:
        ex = g["export"]
        ref = [ref_expr_depth(d) for d in ex["decls"]]
        rq = {"op": "depth.expr"}
        rq.update(ex)
        driver_requests.append(rq)
        owners.append(("expr", key, {"ref": ref, "wdepth": pl["max_wdepth"], "m": m, "ndecls": len(ex["decls"])}))


def judge_driver(run, acc, driver_requests, owners):
    if not driver_requests:
        return
    answers = common.run_driver(driver_requests)
    for (kind, key, info), rq, a in zip(owners, driver_requests, answers):
        if "error" in a:
            raise common.HarnessError("driver error on %s: %s" % (rq["op"], a["error"]))
        run.tally("ops", rq["op"])
        if kind == "erasure":
            if a["r"] != info["tests"]:
                acc.erasure_diff.append((key, info["summary"], info["max_combinations"], info["tests"], a["r"]))
        else:
            ds = a["r"]["decls"]
            m = info["m"]
            mb = acc.max_by_depth[m]
            mb["expr"] = max([mb["expr"]] + ds)
            run.cov["programs_measured"] += 1
            if ds != info["ref"]:
                acc.measure_diff.append((key, info["ref"], ds))
            top = max(ds + info["ref"] + [0])
            if top > spec_bound(m):
                acc.failing += 1
                i = (ds + info["ref"]).index(top) % max(1, info["ndecls"])
                report(run, {"kind": "failing-input", "what": "expression nesting of a generated declaration "
                               "exceeds 2*max_depth+8", "replay": "pipeline", "spec": key, "declaration_index": i,
                               "observed": top, "bound": spec_bound(m)}, "generator:nesting-above-bound:program")
            if max(info["ref"] + [0]) > info["wdepth"]:
                acc.tree_diff.append((key, max(info["ref"]), info["wdepth"]))


# ------------------------------------------------------------------ combinations walk
def walk_stream(run):
    rqs, impl = [], []
    for n in range(0, 8):
        xs = list(range(n))
        w = [list(c) for c in itertools.chain.from_iterable(itertools.combinations(xs, r) for r in range(n, 0, -1))]
        # specification side: 2^n - 1 distinct non-empty subsets
        if len(w) != 2 ** n - 1 or len({tuple(c) for c in w}) != len(w) or any(not c for c in w):
            run.violation({"kind": "failing-input", "what": "itertools walk is not the 2^n-1 non-empty subsets", "n": n},
                          signature="erasure:walk-count")
        rqs.append({"op": "depth.walk", "n": n})
        impl.append(w)
    return common.compare_stream(run, rqs, impl, "itertools power-set walk vs powerWalk")


# ------------------------------------------------------------------ finding 13: has_bound_of
def ref_enclosed(t):
    """reference: the type variables occurring in the type arguments (recursively through parameterized
    arguments, wildcards and wildcard bounds; not through the bounds of the variables found)"""
    out = set()
    if t.is_wildcard():
        if t.bound is not None:
            if t.bound.is_type_var():
                out.add(t.bound)
            else:
                out |= ref_enclosed(t.bound)
    elif t.is_parameterized():
        for a in t.type_args:
            if a.is_type_var():
                out.add(a)
            else:
                out |= ref_enclosed(a)
    return out


def ref_has_bound_of(tpar, other):
    b = tpar.bound
    if not b:
        return False
    if b == other:
        return True
    if hasattr(b, "get_type_variables"):
        return other in ref_enclosed(b)
    return False


def constructed_has_bound_of():
    """T : C<X>, X : D<Y>, Y unbounded — `T.has_bound_of(Z)` needs the bound of X converted to a
    type-variable-free type, which asks the (absent) factory for the top type"""
    import src.ir.types as tp
    Y = tp.TypeParameter("Y")
    D = tp.TypeConstructor("D", [tp.TypeParameter("A")])
    C = tp.TypeConstructor("C", [tp.TypeParameter("B")])
    X = tp.TypeParameter("X", bound=D.new([Y]))
    T = tp.TypeParameter("T", bound=C.new([X]))
    Z = tp.TypeParameter("Z")
    return T, [("Z", Z, False), ("X", X, True), ("Y", Y, False)]


def instantiate_witness():
    import traceback
    import src.ir.types as tp
    import src.ir.type_utils as tu
    import src.ir.kotlin_types as kt
    from src import utils
    pipeline.setup()
    bt = kt.KotlinBuiltinFactory()
    Y = tp.TypeParameter("Y")
    D = tp.TypeConstructor("D", [tp.TypeParameter("A")])
    C = tp.TypeConstructor("C", [tp.TypeParameter("B")])
    X = tp.TypeParameter("X", bound=D.new([Y]))
    T = tp.TypeParameter("T", bound=C.new([X]))
    K = tp.TypeConstructor("K", [Y, X, T])
    utils.random.r.seed(1)
    try:
        r = tu.instantiate_type_constructor(K, [D, C, K] + list(bt.get_non_nothing_types()))
        return "instantiated" if r is not None else "none"
    except Exception as e:      # noqa: BLE001 — the answer of the real code, as data
        return {"error": type(e).__name__, "msg": str(e)[:200], "traceback": traceback.format_exc()[-1500:]}


def call_hbo(tpar, other):
    try:
        return bool(tpar.has_bound_of(other))
    except Exception as e:      # noqa: BLE001 — the answer of the real code, as data
        import traceback
        return {"error": type(e).__name__, "msg": str(e)[:200], "traceback": traceback.format_exc()[-1500:]}


def hbo_stream(run, quick):
    import src.ir.types as tp
    import gen_types
    T, cases = constructed_has_bound_of()
    raised = 0
    for nm, other, want in cases:
        got = call_hbo(T, other)
        run.count({"has_bound_of": "constructed", "other": nm, "answer": got if isinstance(got, bool) else got["error"]})
        if isinstance(got, dict):
            raised += 1
            sig = SIG_HBO if got["error"] == "AttributeError" and "get_any_type" in got["msg"] \
                else "has_bound_of:constructed:" + got["error"]
            run.violation({"kind": "failing-input", "replay": "has_bound_of-constructed",
                           "what": "TypeParameter.has_bound_of raises on T : C<X>, X : D<Y>, Y unbounded "
                                   "(T.has_bound_of(%s)); expected answer %s" % (nm, want),
                           "exception": got["error"], "message": got["msg"], "traceback": got["traceback"]},
                          signature=sig)
        elif got != want:
            run.violation({"kind": "failing-input", "replay": "has_bound_of-constructed",
                           "what": "T.has_bound_of(%s) = %s, reference %s" % (nm, got, want)},
                          signature="has_bound_of:constructed:wrong-answer")
    run.cov["has_bound_of_constructed"] = "raises (finding 13 present)" if raised else "answers as the reference"
    # the same class through the generator's own utility: instantiating `class K<Y, X : D<Y>, T : C<X>>`
    # (type_utils.instantiate_type_constructor -> _get_type_arg_variance -> has_bound_of)
    got = instantiate_witness()
    run.count({"has_bound_of": "instantiate_type_constructor", "answer": got if isinstance(got, str) else got["error"]})
    run.cov["has_bound_of_instantiate"] = got if isinstance(got, str) else "raises " + got["error"]
    if isinstance(got, dict):
        sig = SIG_HBO if got["error"] == "AttributeError" and "get_any_type" in got["msg"] and "has_bound_of" in got["traceback"] \
            else "instantiate_type_constructor:constructed:" + got["error"]
        run.violation({"kind": "failing-input", "replay": "has_bound_of-constructed",
                       "what": "type_utils.instantiate_type_constructor raises on the well-formed class "
                               "K<Y, X : D<Y>, T : C<X>> (kotlin built-ins)",
                       "exception": got["error"], "message": got["msg"], "traceback": got["traceback"]}, signature=sig)
    # random generic hierarchies: answers of the real code against the reference
    ntab = 60 if quick else 1500
    agree = err = 0
    for _ in range(ntab):
        tb = gen_types.Table(run.rng, pbound=0.6)
        tvars = []
        for con in tb.cons:
            tvars += list(con.type_parameters)
        # chains of bounds the tables do not produce on their own: a variable bounded by an instantiation
        # that mentions another bounded variable
        extra = []
        for con in tb.cons[:3]:
            if tvars:
                a = run.rng.choice(tvars)
                extra.append(tp.TypeParameter("Q%d" % len(extra), bound=con.new([a] * len(con.type_parameters))))
        for tv in tvars + extra:
            for other in run.rng.sample(tvars + extra, min(3, len(tvars + extra))) + [tb.any]:
                got = call_hbo(tv, other)
                want = ref_has_bound_of(tv, other)
                if isinstance(got, dict):
                    err += 1
                    run.tally("has_bound_of_random", "raises:" + got["error"])
                    sig = SIG_HBO if got["error"] == "AttributeError" and "get_any_type" in got["msg"] \
                        else "has_bound_of:random:" + got["error"]
                    import export
                    run.violation({"kind": "failing-input", "replay": "has_bound_of-random",
                                   "what": "has_bound_of raises; reference answer %s" % want,
                                   "tparam": export.short(tv), "other": export.short(other),
                                   "exception": got["error"], "message": got["msg"]}, signature=sig)
                else:
                    run.count({"has_bound_of": "random", "answer": got}, nontrivial=False)
                    run.tally("has_bound_of_random", str(got))
                    if got == want:
                        agree += 1
                    else:
                        import export
                        run.violation({"kind": "failing-input", "replay": "has_bound_of-random",
                                       "what": "has_bound_of = %s, reference %s" % (got, want),
                                       "tparam": export.short(tv), "other": export.short(other)},
                                      signature="has_bound_of:random:wrong-answer")
    run.cov["has_bound_of_random_agree"] = agree
    run.cov["has_bound_of_random_raises"] = err
    run.log("has_bound_of: constructed raises=%d; random agree=%d raises=%d" % (raised, agree, err))


# ------------------------------------------------------------------ (f) the per-iteration driver
PROC_NOTE = ("C18: one iteration (generate / replay, scheduled transformations, fault injection, saving) has to end "
             "after a bounded amount of work for every behaviour of the transformers")


def processor_stream(run, quick, only_case=None):
    import proc_lib
    real = proc_lib.Real()
    try:
        if only_case is not None:
            cases = [only_case]
        else:
            cases = proc_lib.exhaustive_cases() + proc_lib.random_cases(run.rng, 150 if quick else 5000)
        t0 = time.time()
        direct, diffs = proc_lib.stream(run, real, cases, "driver", PROC_NOTE)
        run.cov["processor_cases_total"] = len(cases)
        run.cov["processor_wall_s"] = round(time.time() - t0, 1)
    finally:
        real.close()
    run.log("processor: %d cases, %d direct failures, %d model differences" % (len(cases), direct, len(diffs)))
    return direct, diffs


# ------------------------------------------------------------------ (g) crafted recursive class tables
REC_SHAPES = {
    # (class, [(field, type)]) ; type: ("cls", name) | ("arr", t) | ("fun", [params], ret) | ("int",)
    "array-self": [("Node", [("children", ("arr", ("cls", "Node")))])],
    "array-array-self": [("Node", [("children", ("arr", ("arr", ("cls", "Node"))))])],
    "function0-self": [("Node", [("mk", ("fun", [], ("cls", "Node")))])],
    "function1-self": [("Node", [("mk", ("fun", [("int",)], ("cls", "Node")))])],
    "mutual-through-array": [("A", [("b", ("arr", ("cls", "B")))]), ("B", [("a", ("cls", "A"))])],
    "mutual-through-function": [("A", [("b", ("fun", [], ("cls", "B")))]), ("B", [("a", ("arr", ("cls", "A")))])],
    "mutual-plain": [("A", [("b", ("cls", "B"))]), ("B", [("a", ("cls", "A")), ("n", ("int",))])],
    "direct-self": [("Node", [("next", ("cls", "Node")), ("n", ("int",))])],
}


def new_nesting(node):
    from src.ir import ast
    best, stack = 0, [(node, 0)]
    while stack:
        n, d = stack.pop()
        if isinstance(n, ast.New):
            d += 1
        best = max(best, d)
        ch = getattr(n, "children", None)
        if ch is not None:
            for c in ch():
                stack.append((c, d))
    return best


def rec_one(lang, shape, seed, m, depth, ol):
    """one request: the class table `shape` in an empty context, generate_expr(first class) entered with
    self.depth = depth, only_leaves = ol, max_depth = m"""
    import traceback
    from src import utils
    from src.generators.generator import Generator
    from src.ir import ast
    from src.ir.context import Context
    import plugin_depth
    pipeline.configure(lang, (0, 0, 0, 0), m)
    utils.random.r.seed(seed)
    utils.random.reset_word_pool()
    gen = Generator(language=lang, options={})
    gen.context = Context()
    bt = gen.bt_factory
    classes = {name: ast.ClassDeclaration(name, superclasses=[], class_type=ast.ClassDeclaration.REGULAR, fields=[],
                                          functions=[], is_final=True, type_parameters=[])
               for name, _ in REC_SHAPES[shape]}

    def ty(e):
        if e[0] == "cls":
            return classes[e[1]].get_type()
        if e[0] == "arr":
            return bt.get_array_type().new([ty(e[1])])
        if e[0] == "fun":
            return bt.get_function_type(len(e[1])).new([ty(x) for x in e[1]] + [ty(e[2])])
        return bt.get_integer_type()
    for name, fields in REC_SHAPES[shape]:
        for fname, te in fields:
            classes[name].fields.append(ast.FieldDeclaration(fname, ty(te)))
        gen.context.add_class(ast.GLOBAL_NAMESPACE, name, classes[name])
    gen.namespace = ast.GLOBAL_NAMESPACE + ("main",)
    gen.depth = depth
    st = {}
    plugin_depth.install(st, {})
    r = {}
    try:
        try:
            e = gen.generate_expr(classes[REC_SHAPES[shape][0][0]].get_type(), only_leaves=ol, exclude_var=True)
            r["nesting"] = new_nesting(e)
        except RecursionError:
            r["exception"] = "RecursionError"
        except Exception as ex:   # noqa: BLE001 — the answer of the real code, as data
            r["exception"] = type(ex).__name__
            r["message"] = str(ex)[:300]
            r["traceback"] = traceback.format_exc()[-1500:]
        pl = plugin_depth.collect(st)
    finally:
        plugin_depth.uninstall(st)
    r.update(uncut=pl["uncut"], uncut_count=pl["uncut_count"], wdepth=pl["max_wdepth"], calls=pl["calls"],
             mismatch_counts=pl["mismatch_counts"], mismatches=pl["mismatches"])
    return r


def rec_judge(run, rq, r):
    """direct judges of one crafted request; returns (failing, skeleton mismatch or None)"""
    lang, shape, seed, m, depth, ol = rq
    where = {"replay": "recursive-classes", "lang": lang, "shape": shape, "class_table": REC_SHAPES[shape], "rng_seed": seed,
             "max_depth": m, "entry_depth": depth, "only_leaves": ol}
    failing = 0
    if "exception" in r:
        failing += 1
        report(run, dict(where, kind="failing-input", what="generate_expr raises on a class that reaches itself through "
                         "its fields", exception=r["exception"], message=r.get("message"), traceback=r.get("traceback")),
               "generator:crafted-classes:" + r["exception"], cap=1)
    if r.get("nesting", 0) > spec_bound(m) or r["wdepth"] > spec_bound(m):
        failing += 1
        report(run, dict(where, kind="failing-input", what="nesting of constructor calls / raised-counter calls exceeds "
                         "2*max_depth+8", constructor_nesting=r.get("nesting"), calltree=r["wdepth"], bound=spec_bound(m)),
               "generator:nesting-above-bound:crafted-classes", cap=1)
    if r["uncut_count"]:
        failing += 1
        report(run, dict(where, kind="failing-input", what="gen_new recurses under a raised counter above 2*max_depth into "
                         "a non-primitive field type without cutting to the bottom constant", calls=r["uncut"],
                         count=r["uncut_count"]), "generator:leaf-generator-recursion-not-cut:crafted-classes", cap=1)
    return failing, (r["mismatches"][0] if r["mismatches"] else None)


def rec_requests(run, quick):
    rqs = []
    nseeds = 3 if quick else 40
    for li, lang in enumerate(pipeline.LANGS):
        for si, shape in enumerate(REC_SHAPES):
            for k in range(nseeds):
                m = 2 if quick or k % 2 == 0 else 3
                depth, ol = [(m, True), (m, False), (0, False)][(k + li + si) % 3] if k else (m, True)
                rqs.append((lang, shape, run.rng.randrange(1, 1 << 30), m, depth, ol))
    return rqs


def rec_stream(run, quick, acc, only=None):
    rqs = [only] if only is not None else rec_requests(run, quick)
    t0 = time.time()
    done = 0
    for rq in rqs:
        if only is None and time.time() - t0 > (25 if quick else 600):
            break
        r = rec_one(*rq)
        done += 1
        run.count({"crafted": list(rq)}, nontrivial=r["calls"] > 1)
        run.tally("crafted_class_tables", rq[1])
        run.tally("crafted_outcome", r.get("exception", "completed"))
        run.cov["crafted_generate_expr_calls"] = run.cov.get("crafted_generate_expr_calls", 0) + r["calls"]
        run.cov["crafted_max_constructor_nesting"] = max(run.cov.get("crafted_max_constructor_nesting", 0), r.get("nesting", 0))
        f, mm = rec_judge(run, rq, r)
        acc.failing += f
        if mm is not None:
            acc.mismatch.append(({"crafted": list(rq)}, mm))
    run.cov["crafted_requests_done"] = done
    run.cov["crafted_wall_s"] = round(time.time() - t0, 1)
    run.log("crafted recursive class tables: %d of %d requests, %s" % (done, len(rqs), run.cov.get("crafted_outcome")))


# ------------------------------------------------------------------ the check
def preload(same_depth):
    """import what the workers need before forking (copy-on-write instead of 14 imports)"""
    pipeline.setup()
    import src.generators.generator  # noqa: F401
    import src.transformations.type_erasure  # noqa: F401
    import src.transformations.type_overwriting  # noqa: F401
    import export_ast  # noqa: F401
    import plugin_depth
    pipeline.translators()
    plugin_depth.table()["same"] = {tuple(p) for p in same_depth}


def table_summary(run, sk):
    sites = [s for g in sk["gens"] + sk["roots"] for s in g["sites"]]
    run.cov["skeleton"] = {
        "methods": len(sk["raw"]), "raw_call_sites": sum(len(m["sites"]) for m in sk["raw"]),
        "dispatched_generators": [g["name"] for g in sk["gens"]], "region_roots": [g["name"] for g in sk["roots"]],
        "flattened_sites": len(sites), "cuts": [list(c) for c in sk["cuts"]], "problems": sk["problems"],
        "other_writes": sk["other_writes"], "leaks": sk["leaks"],
        "dispatch": [[c, [a for a, _ in l]] for c, l in sk["dispatch"]]}


def bound_answers(run):
    b = common.run_driver([{"op": "depth.bound", "maxDepth": m, "d": 0} for m in (3, 6, 8, 10)])
    for a in b:
        if "error" in a:
            raise common.HarnessError("driver: " + a["error"])
    return b


def run_pipeline(run, specs, budget_s, acc, same_depth):
    preload(same_depth)
    workers = min(14, max(2, (os.cpu_count() or 4) - 2))
    done = 0
    rqs, owners = [], []
    for r in stream_results(specs, time.time() + budget_s, workers):
        done += 1
        if os.environ.get("C18_DEBUG"):
            run.log("result", done, r["spec"]["lang"], r["spec"]["seed"], r["spec"]["max_depth"],
                    {k: round(v, 1) for k, v in r["times"].items()}, r.get("cutoff", ""))
        judge_result(run, r, acc, rqs, owners)
        if len(rqs) >= 400:
            judge_driver(run, acc, rqs, owners)
            rqs, owners = [], []
    judge_driver(run, acc, rqs, owners)
    return done


def check(run):
    quick = run.tier == "quick"
    sk = regen_c18.regen_skeleton()
    table_summary(run, sk)
    proofs_ok = run.build_and_audit()
    for k in ("generate_expr_calls", "generate_expr_calls_matched_to_skeleton", "dispatch_choices_checked",
              "erasure_functions", "programs_measured"):
        run.cov[k] = 0
    run.cov["rule"] = ("one case = one run of the real pipeline (language, seed, 4 switches, max_depth, erasure options) "
                       "through generator, type erasure, type overwriting, each intermediate program translated; every "
                       "generate_expr call of the run is matched to a site of the regenerated skeleton; non-trivial = the "
                       "run completed all stages and made at least one generate_expr call; plus has_bound_of calls and "
                       "the power-set walks n = 0..7")
    b = bound_answers(run)
    run.cov["bound_model"] = {str(m): a.get("r") for m, a in zip((3, 6, 8, 10), b)}
    run.cov["skeleton_ok_evaluated"] = b[0].get("ok")
    run.cov["bound_constants"] = {"cutK": b[0].get("cutK"), "maxCnt": b[0].get("maxCnt")}
    bound_moved = [m for m, a in zip((3, 6, 8, 10), b) if a.get("r") != spec_bound(m)]
    # corpus + structured streams first
    hbo_stream(run, quick)
    walk_diffs = walk_stream(run)
    acc = Acc()
    # (f) the per-iteration driver, (g) crafted class tables
    pdirect, pdiffs = processor_stream(run, quick)
    acc.failing += pdirect
    preload(b[0]["sameDepth"])
    rec_stream(run, quick, acc)
    # the pipeline
    specs = make_specs(run, quick)
    # absolute deadline (the build before it may take 20 s or, after a change of the table, 2 min)
    budget = max(30, run.t0 + (145 if quick else 1620) - time.time())
    t0 = time.time()
    done = run_pipeline(run, specs, budget, acc, b[0]["sameDepth"])
    run.cov["pipeline_runs_planned"] = len(specs)
    run.cov["pipeline_runs_done"] = done
    run.cov["pipeline_wall_s"] = round(time.time() - t0, 1)
    run.cov["observed_max_by_max_depth"] = {str(k): v for k, v in sorted(acc.max_by_depth.items())}
    run.log("pipeline: %d of %d runs within %.0fs; calls %d matched %d; exceptions %s; cutoffs %s" % (
        done, len(specs), time.time() - t0, run.cov["generate_expr_calls"],
        run.cov["generate_expr_calls_matched_to_skeleton"], run.cov.get("pipeline_exception", {}),
        run.cov.get("pipeline_cutoff", {})))
    for m, v in sorted(acc.max_by_depth.items()):
        run.log("  max_depth=%d: programs %d, nesting of exports %d, of the call tree %d (bound %d), self.depth %d, "
                "python frames %d" % (m, v["programs"], v["expr"], v["wdepth"], spec_bound(m), v["self_depth"], v["pyframes"]))
    if done == 0:
        raise common.HarnessError("no pipeline run finished within the budget")
    # broken correspondences / obligations: a failing input was searched for above (every run is judged
    # against the specification-side bound); none found -> say so
    broken = []
    if acc.mismatch:
        broken.append(("generate_expr calls vs skeleton transitions", [{"spec": k, "mismatch": mm} for k, mm in acc.mismatch[:5]],
                       "skeleton:" + acc.mismatch[0][1]["kind"]))
    if acc.measure_diff:
        broken.append(("Lean exprDepth vs Python reference measure", [{"spec": k, "reference": a, "model": b_}
                                                                       for k, a, b_ in acc.measure_diff[:3]], "measure:model-differs"))
    if acc.tree_diff:
        broken.append(("nesting of the export <= raised-counter nesting of the call tree",
                       [{"spec": k, "export": a, "calltree": b_} for k, a, b_ in acc.tree_diff[:3]], "measure:export-above-calltree"))
    if acc.erasure_diff:
        broken.append(("erasure tests vs Model erasureTests", [{"spec": k, "summary": s, "max_combinations": mc, "observed": o,
                                                               "model": mo} for k, s, mc, o, mo in acc.erasure_diff[:3]],
                       "erasure:model-differs"))
    if pdiffs:
        broken.append(("ProgramProcessor / loops of hephaestus.py vs Model/Processor.lean (proc.run)", pdiffs[:3],
                       "processor:model-differs"))
    if walk_diffs:
        broken.append(("itertools power-set walk vs powerWalk", [{"request": d[1], "impl": d[2], "model": d[3]} for d in walk_diffs[:2]],
                       "walk:model-differs"))
    if bound_moved or run.cov["skeleton_ok_evaluated"] is not True:
        broken.append(("SkeletonOK / bound of the regenerated table",
                       {"SkeletonOK": run.cov["skeleton_ok_evaluated"], "B(m,0)": run.cov["bound_model"],
                        "claimed": {str(m): spec_bound(m) for m in (3, 6, 8, 10)}}, "skeleton:table-not-ok"))
    for name, detail, sig in broken:
        run.log("BROKEN correspondence:", name, json.dumps(detail, default=str)[:600])
        if not acc.failing:
            first = detail[0] if isinstance(detail, list) and detail and "spec" in detail[0] else None
            run.violation({"kind": "broken-correspondence", "correspondence": name, "detail": detail,
                           **({"replay": "pipeline", "spec": first["spec"]} if first else {}),
                           "searched": "%d pipeline runs judged against 2*max_depth+8 and the erasure bound" % done},
                          signature=sig, no_input=True)
    if not proofs_ok and not run.violations:
        run.violation({"kind": "broken-proof", "obligations": run.broken,
                       "searched": "%d pipeline runs judged against 2*max_depth+8 and the erasure bound" % done},
                      signature="proof", no_input=True)


def replay(run, rp):
    kind = rp.get("replay")
    if kind == "pipeline":
        sk = regen_c18.regen_skeleton()
        table_summary(run, sk)
        for k in ("generate_expr_calls", "generate_expr_calls_matched_to_skeleton", "dispatch_choices_checked",
                  "erasure_functions", "programs_measured"):
            run.cov[k] = 0
        s = rp["spec"]
        spec = make_spec(s["lang"], s["seed"], s["switches"], s["max_depth"], 600, s.get("erasure_options"))
        acc = Acc()
        rqs, owners = [], []
        preload(bound_answers(run)[0]["sameDepth"])
        r = pipeline.run_one(spec)
        judge_result(run, r, acc, rqs, owners)
        judge_driver(run, acc, rqs, owners)
        diffs = {"skeleton": acc.mismatch, "measure": acc.measure_diff, "calltree": acc.tree_diff, "erasure": acc.erasure_diff}
        run.log("replayed", spec_key(spec), "exception" if "exception" in r else "", r.get("cutoff", ""),
                "failing" if acc.failing else "holds", {k: len(v) for k, v in diffs.items()})
        for k, v in diffs.items():
            if v and not acc.failing:
                run.violation({"kind": "broken-correspondence", "correspondence": k, "detail": v[:3], "replay": "pipeline",
                               "spec": spec_key(spec)}, signature="replay:" + k, no_input=True)
    elif kind == "processor":
        direct, diffs = processor_stream(run, True, only_case=rp["case"])
        if diffs and not direct:
            run.violation({"kind": "broken-correspondence", "correspondence": "processor", "detail": diffs[:1],
                           "replay": "processor", "case": rp["case"]}, signature="replay:processor", no_input=True)
    elif kind == "recursive-classes":
        preload(bound_answers(run)[0]["sameDepth"])
        acc = Acc()
        rec_stream(run, True, acc, only=(rp["lang"], rp["shape"], rp["rng_seed"], rp["max_depth"], rp["entry_depth"],
                                         rp["only_leaves"]))
        run.log("replayed", "failing" if acc.failing else "holds")
    elif kind in ("has_bound_of-constructed", "has_bound_of-random"):
        hbo_stream(run, True)
    else:
        raise common.HarnessError("unknown replay kind %r" % (kind,))
