"""Shared by check_C18 (termination of the per-iteration driver) and check_C13 (--replay): the REAL
`ProgramProcessor` (src/modules/processor.py) and the REAL loops of hephaestus.py (`gen_program`,
`process_cp_transformations`, `process_ncp_transformations`) driven with SCRIPTED transformers, compared with
lean/Heph/Model/Processor.lean (driver op `proc.run`) and judged directly.

A *case* = {args: {replay, transformations: n|None, lines: [str]|None, types: [str], keepAll, onlyCP},
            cps: [names registered in CP_TRANSFORMATIONS], stored: [marks], genBase: n, iterations: n,
            script: [{raise, mark, fresh, t, info}]}
`script[k]` is what the k-th transformer run of the case does (runs are counted over all iterations): append the
top-level declaration `mk<mark>` to the program it was given (in place), return that object or a deep copy with
`mk<fresh>` added, report `is_transformed = t` / `error_injected = info`, or raise.  Runs beyond the script change
nothing and report `is_transformed = False`.  Programs are real `ast.Program`s (kotlin) whose content is the list
of their `mk<n>` declarations; they are translated by the real translator and saved / loaded by the tool's own
`save_program` / `dump_program` / `load_program`; what is compared is read back from the files the tool wrote.

Nothing here can hang: a scripted transformer (and the recording subclass of ProgramProcessor) raise `NoProgress`
(a BaseException, not swallowed by gen_program) after `CAP_FACTOR * schedule + CAP_SLACK` runs, and every case runs
under an interval timer as a backstop."""
import copy
import itertools
import os
import re
import shutil
import signal
import sys
import tempfile

import common
import pipeline

CAP_FACTOR, CAP_SLACK, CASE_ALARM_S = 4, 8, 20
LANG = "kotlin"
PKGS = ("pa", "pb")
_MK = re.compile(r"\bmk(\d+)\b")


class NoProgress(BaseException):
    pass


def _alarm(signum, frame):
    raise NoProgress("wall-clock backstop of %d s" % CASE_ALARM_S)


# ---------------------------------------------------------------------------------- programs with marks
def add_mark(program, m):
    from src.ir import ast
    t = program.bt_factory.get_integer_type()
    d = ast.VariableDeclaration("mk%d" % m, ast.IntegerConstant(0, t), is_final=True, var_type=t)
    program.context.add_var(ast.GLOBAL_NAMESPACE, d.name, d)


def make_program(marks):
    from src.ir import ast
    from src.ir.context import Context
    p = ast.Program(Context(), LANG)
    for m in marks:
        add_mark(p, m)
    return p


def marks_of(program):
    return [int(n[2:]) for n in program.get_declarations() if n.startswith("mk")]


def marks_of_text(text):
    return [int(x) for x in _MK.findall(text)]


# ---------------------------------------------------------------------------------- the real code, scripted
class Real:
    def __init__(self):
        pipeline.setup()
        shm = "/dev/shm" if os.path.isdir("/dev/shm") and os.access("/dev/shm", os.W_OK) else None
        self.base = tempfile.mkdtemp(prefix="proc_", dir=shm)
        argv = sys.argv
        sys.argv = ["hephaestus.py", "--language", LANG, "--bugs", os.path.join(self.base, "bugs"), "--name", "s0",
                    "--iterations", "1", "--batch", "1", "-t", "0", "-F", os.path.join(self.base, "log"), "--dry-run"]
        try:
            import hephaestus as H
        finally:
            sys.argv = argv
        if not os.path.abspath(H.__file__).startswith(os.path.abspath(common.REPO)):
            raise common.HarnessError("hephaestus imported from %s, expected %s" % (H.__file__, common.REPO))
        import src.modules.processor as PM
        self.H, self.PM = H, PM
        self.k = 0
        self.saved_args = dict(vars(H.cli_args))
        self.orig = {"PP": H.ProgramProcessor, "cp": PM.ProgramProcessor.CP_TRANSFORMATIONS,
                     "ncp": PM.ProgramProcessor.NCP_TRANSFORMATIONS, "gen": PM.Generator}
        self.st = None
        real = self

        class Recording(PM.ProgramProcessor):
            """the real class; its methods are called through `super()` and observed"""

            def __init__(self, proc_id, args):
                super().__init__(proc_id, args)
                real.st["procs"].append(self)

            def get_program(self):
                st = real.st
                st["pid"] = self.proc_id
                r = super().get_program()
                st["starts"].append({"pid": self.proc_id, "marks": marks_of(r[0]), "obj": r[0]})
                return r

            def transform_program(self, program):
                st = real.st
                st["steps"] += 1
                if st["steps"] > st["cap"]:
                    raise NoProgress("transform_program called %d times for a schedule of %d; can_transform() is still %s"
                                     % (st["steps"], len(self.transformation_schedule), self.can_transform()))
                before = self.current_transformation
                r = super().transform_program(program)
                if self.current_transformation != before + 1:
                    st["counter_stuck"].append({"call": st["steps"], "before": before,
                                                "after": self.current_transformation, "returned_none": r is None})
                return r
        self.Recording = Recording

        class Scripted:
            NAME = "?"
            CORRECTNESS_PRESERVING = True

            def __init__(self, program, language, logger=None, options=None):
                self.program = program
                self.is_transformed = False
                self.error_injected = None

            @classmethod
            def get_name(cls):
                return cls.NAME

            @classmethod
            def preserve_correctness(cls):
                return cls.CORRECTNESS_PRESERVING

            def transform(self):
                st = real.st
                k = st["calls"]
                st["calls"] += 1
                if st["calls"] > st["cap"]:
                    raise NoProgress("transformer run %d for a schedule of %d" % (st["calls"], st["sched_len"]))
                act = st["script"][k] if k < len(st["script"]) else {}
                if act.get("mark") is not None:
                    add_mark(self.program, act["mark"])
                if act.get("raise"):
                    raise RuntimeError(act.get("info", ""))
                if act.get("fresh") is not None:
                    q = copy.deepcopy(self.program)
                    add_mark(q, act["fresh"])
                    self.program = q
                self.is_transformed = bool(act.get("t"))
                self.error_injected = act.get("info", "")

            def result(self):
                return self.program
        self.Scripted = Scripted

        class ScriptedGen:
            def __init__(self, language=None, logger=None, options=None):
                pass

            def generate(self):
                return make_program([real.st["genBase"] + real.st["pid"]])
        self.ScriptedGen = ScriptedGen

    def close(self):
        H, PM = self.H, self.PM
        H.ProgramProcessor = self.orig["PP"]
        PM.ProgramProcessor.CP_TRANSFORMATIONS = self.orig["cp"]
        PM.ProgramProcessor.NCP_TRANSFORMATIONS = self.orig["ncp"]
        PM.Generator = self.orig["gen"]
        for k, v in self.saved_args.items():
            setattr(H.cli_args, k, v)
        shutil.rmtree(self.base, ignore_errors=True)

    # ------------------------------------------------------------------------------ one case
    def run_case(self, case, scripted=True):
        """returns {"iterations": [observation per iteration], "nonterminating": msg|None, "counter_stuck": [...]}"""
        H, PM = self.H, self.PM
        from src import utils
        self.k += 1
        cdir = os.path.join(self.base, "c%d" % self.k)
        td = os.path.join(cdir, "bugs", "s")
        os.makedirs(td)
        ca = case["args"]
        a = H.cli_args
        a.bugs, a.name, a.test_directory = os.path.join(cdir, "bugs"), "s", td
        a.language = LANG
        a.debug = a.log = a.examine = a.print_stacktrace = a.rerun = False
        a.dry_run = True
        a.keep_all = bool(ca["keepAll"])
        a.only_correctness_preserving_transformations = bool(ca["onlyCP"])
        a.transformation_types = list(ca["types"])
        a.transformations = ca["transformations"]
        a.transformation_schedule = None
        if ca["transformations"] is None:
            a.transformation_schedule = os.path.join(cdir, "schedule")
            with open(a.transformation_schedule, "w") as f:
                f.write("".join(l + "\n" for l in ca["lines"]))
        a.replay = None
        if ca["replay"]:
            a.replay = os.path.join(cdir, "stored.kt.bin")
            utils.dump_program(a.replay, make_program(case["stored"]))
        for nm in case["cps"]:
            a.options.setdefault(nm, {})
        sched_len = ca["transformations"] if ca["transformations"] is not None else len(ca["lines"])
        self.st = st = {"script": case["script"], "calls": 0, "steps": 0, "cap": 0, "sched_len": sched_len,
                        "genBase": case["genBase"], "pid": 0, "procs": [], "starts": [], "counter_stuck": []}
        if scripted:
            cps = {}
            for nm in case["cps"]:
                cps[nm] = type("Scripted_" + nm, (self.Scripted,), {"NAME": nm})
            PM.ProgramProcessor.CP_TRANSFORMATIONS = cps
            PM.ProgramProcessor.NCP_TRANSFORMATIONS = {
                "TypeOverwriting": type("Scripted_TypeOverwriting", (self.Scripted,),
                                        {"NAME": "TypeOverwriting", "CORRECTNESS_PRESERVING": False})}
            PM.Generator = self.ScriptedGen
        H.ProgramProcessor = self.Recording
        tr0 = H.TRANSLATORS[LANG]("src." + PKGS[0], a.options["Translator"])
        fn, fni = tr0.get_filename(), tr0.get_incorrect_filename()
        out = {"iterations": [], "nonterminating": None, "counter_stuck": st["counter_stuck"]}
        seen = set()
        old = signal.signal(signal.SIGALRM, _alarm)
        try:
            for it in range(case["iterations"]):
                pid = 1 + it
                dirname = os.path.join(cdir, "batch%d" % pid, "src")
                st["steps"] = 0
                calls0 = st["calls"]
                st["cap"] = st["calls"] + CAP_FACTOR * sched_len + CAP_SLACK
                nprocs, nstarts = len(st["procs"]), len(st["starts"])
                obs = {"pid": pid}
                signal.setitimer(signal.ITIMER_REAL, CASE_ALARM_S)
                try:
                    res = H.gen_program(pid, dirname, PKGS)
                    status = "failed:" + str(res.stats["error"]) if res.failed else "done"
                except NoProgress as e:
                    signal.setitimer(signal.ITIMER_REAL, 0)
                    out["nonterminating"] = {"iteration": pid, "message": str(e), "transformer_runs": st["calls"] - calls0,
                                             "transform_program_calls": st["steps"], "schedule_length": sched_len}
                    obs["status"] = "nonterminating"
                    out["iterations"].append(obs)
                    break
                except (SystemExit, KeyError, IndexError) as e:
                    res, status = None, "raised:" + type(e).__name__
                finally:
                    signal.setitimer(signal.ITIMER_REAL, 0)
                proc = st["procs"][nprocs] if len(st["procs"]) > nprocs else None
                start = st["starts"][nstarts] if len(st["starts"]) > nstarts else None
                obs.update({
                    "status": status,
                    "start": start["marks"] if start else None,
                    "start_obj": start["obj"] if start else None,
                    "steps": st["steps"],
                    "cur": proc.current_transformation if proc is not None else 0,
                    "schedule": [c.get_name() for c in proc.transformation_schedule] if proc is not None else None,
                    "transformations": list(res.stats["transformations"]) if res is not None else [],
                    "injected": res.stats["error"] if res is not None and not res.failed else None,
                })
                files = self._files(cdir, td, pid, fn, fni, seen)
                obs["saves"] = files
                progs = []
                if res is not None and not res.failed:
                    for path, oracle in res.stats["programs"].items():
                        progs.append([self._label(path, cdir, td, fn, fni), bool(oracle)])
                obs["programs"] = progs
                out["iterations"].append(obs)
        finally:
            signal.signal(signal.SIGALRM, old)
        return out

    def _label(self, path, cdir, td, fn, fni):
        rel = os.path.relpath(path, cdir).split(os.sep)
        base = rel[-1]
        if rel[0].startswith("batch"):
            pid = rel[0][5:]
            return ("correct/" if rel[2] == PKGS[0] else "incorrect/") + pid
        rel = os.path.relpath(path, td).split(os.sep)
        if rel[0] == "generator":
            return ("generator/" if base == fn else "generatorIncorrect/") + rel[1][5:]
        if rel[0] == "transformations":
            return "transformation/%s/%s" % (rel[1][5:], rel[2])
        if rel[0] == "tmp":
            return ("tmp/" if base == fn else "tmpIncorrect/") + rel[1]
        return "?/" + "/".join(rel)

    def _files(self, cdir, td, pid, fn, fni, seen):
        """source files written since the last call: label -> {"text": marks in the source text, "bin": marks of
        the program `load_program` reads from the .bin beside it}"""
        from src import utils
        out = {}
        for root, _dirs, names in os.walk(cdir):
            for n in names:
                p = os.path.join(root, n)
                if p in seen or n.endswith(".bin") or n in ("schedule",) or not (n == fn or n == fni):
                    continue
                seen.add(p)
                rec = {"text": marks_of_text(open(p).read())}
                rec["bin"] = marks_of(utils.load_program(p + ".bin")) if os.path.exists(p + ".bin") else None
                out[self._label(p, cdir, td, fn, fni)] = rec
        return out


# ---------------------------------------------------------------------------------- the model's answer
def model_request(case, schedules):
    ca = case["args"]
    return {"op": "proc.run",
            "args": {"replay": bool(ca["replay"]), "transformations": ca["transformations"],
                     "lines": list(ca["lines"] or []), "types": list(ca["types"]),
                     "keepAll": bool(ca["keepAll"]), "onlyCP": bool(ca["onlyCP"])},
            "cps": list(case["cps"]), "drawn": [list(s or []) for s in schedules], "stored": list(case["stored"]),
            "genBase": case["genBase"], "script": [dict(a) for a in case["script"]],
            "iterations": case["iterations"], "first": 1, "loader": "fresh", "step": "real"}


def canon_model(it):
    saves = {}
    for s in it["saves"]:
        saves[s["dest"]] = {"text": s["text"], "bin": s["bin"]}
    st = it["status"]
    return {"pid": it["pid"], "status": st, "start": it["start"], "steps": it["steps"], "cur": it["cur"],
            "transformations": it["transformations"], "injected": it["injected"] if st == "done" else None,
            "programs": sorted(it["programs"]), "saves": saves}


def canon_real(obs):
    return {"pid": obs["pid"], "status": obs["status"], "start": obs.get("start"), "steps": obs.get("steps"),
            "cur": obs.get("cur"), "transformations": obs.get("transformations"), "injected": obs.get("injected"),
            "programs": sorted(obs.get("programs", [])), "saves": obs.get("saves")}


# ---------------------------------------------------------------------------------- cases
def act(kind, k):
    m = 10 * (k + 1)
    return {"T": {"t": True}, "F": {"t": False}, "Tm": {"t": True, "mark": m + 1}, "Fm": {"t": False, "mark": m + 1},
            "Tf": {"t": True, "fresh": m + 2}, "Ff": {"t": False, "fresh": m + 2},
            "Tmf": {"t": True, "mark": m + 1, "fresh": m + 2}, "R": {"raise": True, "info": "boom%d" % k},
            "Rm": {"raise": True, "mark": m + 1, "info": "boom%d" % k}}[kind] | {"info": "note%d" % k if kind[0] != "R" else "boom%d" % k}


def mk_case(kinds, L, iterations=1, replay=False, keepAll=True, onlyCP=False, stored=(7,), via_file=False,
            cps=("TypeErasure",), types=None, lines=None):
    script = [act(kd, k) for k, kd in enumerate(kinds)]
    args = {"replay": replay, "transformations": None if via_file else L,
            "lines": (list(lines) if lines is not None else ["TypeErasure"] * L) if via_file else None,
            "types": list(types if types is not None else cps), "keepAll": keepAll, "onlyCP": onlyCP}
    return {"args": args, "cps": list(cps), "stored": list(stored), "genBase": 1000, "iterations": iterations,
            "script": script, "kinds": list(kinds)}


ALL = ["T", "F", "Tm", "Fm", "Tf", "Ff", "R"]


def exhaustive_cases(replay_only=False):
    """every pattern of transformer behaviours up to a small length"""
    out = []
    if not replay_only:
        for L in (0, 1, 2):
            flags = [(True, False), (False, False), (True, True), (False, True)] if L < 2 else [(True, False), (False, True)]
            for kinds in itertools.product(ALL, repeat=L + 1):
                for ka, oc in flags:
                    if oc and kinds[-1] != "F":
                        continue            # the fault injection never runs: one representative
                    out.append(mk_case(kinds, L, keepAll=ka, onlyCP=oc))
        for kinds in itertools.product(["Tm", "F", "Fm", "R"], repeat=4):
            out.append(mk_case(kinds, 3, keepAll=True))
        for L in (1, 2, 3):                  # the schedule read from a file
            out.append(mk_case(["F"] * (L + 1), L, via_file=True))
            out.append(mk_case(["Tm"] * (L + 1), L, via_file=True))
    # --replay over 1..3 iterations
    for kinds in itertools.product(["Tm", "F", "Fm", "Tf"], repeat=2):
        out.append(mk_case(kinds, 1, iterations=1, replay=True))
    for kinds in itertools.product(["Tm", "F", "Fm", "Tf"], repeat=4):
        out.append(mk_case(kinds, 1, iterations=2, replay=True, keepAll=kinds[0] != "F"))
    for kinds in itertools.product(["Tm", "F"], repeat=6):
        out.append(mk_case(kinds, 1, iterations=3, replay=True))
    for kinds in itertools.product(["Tm", "Fm"], repeat=6):
        out.append(mk_case(kinds, 2, iterations=2, replay=True, keepAll=False))
    for it in (2, 3):                        # only the fault injection mutates
        out.append(mk_case(["Tm"] * it, 0, iterations=it, replay=True, keepAll=False))
        out.append(mk_case(["Tm"] * it, 0, iterations=it, replay=True, keepAll=True, stored=()))
    return out


def random_cases(rng, n, replay_only=False):
    out = []
    kinds_all = ALL + ["Tmf", "Rm"]
    for _ in range(n):
        L = rng.choice([0, 1, 1, 2, 2, 3, 4])
        its = rng.choice([1, 1, 2, 3])
        replay = True if replay_only else rng.random() < 0.4
        two = rng.random() < 0.3
        cps = ("TypeErasure", "Second") if two else ("TypeErasure",)
        via_file = rng.random() < 0.25
        lines = None
        types = None
        if via_file:
            lines = [rng.choice(cps) for _ in range(L)]
            if rng.random() < 0.15:
                lines.insert(rng.randrange(len(lines) + 1), "NoSuchTransformation")
        elif two and rng.random() < 0.5:
            types = [rng.choice(cps)]
        kinds = [rng.choice(kinds_all if rng.random() < 0.8 else ["F", "Fm"]) for _ in range(its * (L + 1) + rng.choice([0, 0, 2]))]
        out.append(mk_case(kinds, L, iterations=its, replay=replay, keepAll=rng.random() < 0.6, onlyCP=rng.random() < 0.25,
                           stored=tuple(rng.sample(range(1, 9), rng.choice([0, 1, 2]))), via_file=via_file, cps=cps,
                           types=types, lines=lines))
    return out


# ---------------------------------------------------------------------------------- judging
def judge_direct(case, real_out):
    """specification side, on the real code alone: list of (signature, what, detail)"""
    bad = []
    ca = case["args"]
    if real_out["nonterminating"]:
        bad.append(("processor:loop-does-not-terminate",
                    "an iteration (hephaestus.gen_program) does not end: the loop of process_cp_transformations keeps "
                    "calling transform_program beyond %d x the schedule length" % CAP_FACTOR, real_out["nonterminating"]))
    if real_out["counter_stuck"]:
        bad.append(("processor:counter-not-advanced", "ProgramProcessor.transform_program returned without advancing "
                    "current_transformation by one", real_out["counter_stuck"][:3]))
    kept = []
    for obs in real_out["iterations"]:
        if obs["status"] == "nonterminating":
            continue
        sched = obs.get("schedule")
        if sched is not None and obs["steps"] > len(sched):
            bad.append(("processor:more-steps-than-scheduled", "transform_program called more often than the schedule is long",
                        {"iteration": obs["pid"], "steps": obs["steps"], "schedule": sched}))
        if obs["status"] == "done" and sched is not None and obs["steps"] != len(sched):
            bad.append(("processor:steps-differ-from-schedule", "a completed iteration made a number of transform_program calls "
                        "different from the schedule length", {"iteration": obs["pid"], "steps": obs["steps"], "schedule": sched}))
        if ca["replay"] and obs.get("start") is not None:
            if obs["start"] != list(case["stored"]):
                bad.append(("replay:start-differs-from-stored", "with --replay, iteration %d starts from a program that differs "
                            "from the stored one" % obs["pid"],
                            {"iteration": obs["pid"], "stored": list(case["stored"]), "start": obs["start"]}))
            if any(obs["start_obj"] is o for o in kept):
                bad.append(("replay:object-reused", "with --replay, iteration %d is handed the very object an earlier iteration "
                            "worked on" % obs["pid"], {"iteration": obs["pid"]}))
            g = (obs.get("saves") or {}).get("generator/%d" % obs["pid"])
            if g is not None and (g["text"] != list(case["stored"]) or g["bin"] != list(case["stored"])):
                bad.append(("replay:saved-initial-program-differs", "with --replay --keep-all, the initial program saved by "
                            "iteration %d differs from the stored one" % obs["pid"],
                            {"iteration": obs["pid"], "stored": list(case["stored"]), "saved": g}))
        if obs.get("start_obj") is not None:
            kept.append(obs["start_obj"])
    return bad


def case_key(case):
    return {k: case[k] for k in ("args", "cps", "stored", "genBase", "iterations", "script")}


def stream(run, real, cases, label, prop_note):
    """runs the cases on the real code and on the model; reports direct failures as violations with the case as
    the replay; returns (number of direct failures, list of model differences)"""
    outs, rqs = [], []
    for c in cases:
        o = real.run_case(c)
        outs.append(o)
        scheds = [obs.get("schedule") for obs in o["iterations"]]
        scheds += [None] * (c["iterations"] - len(scheds))
        rqs.append(model_request(c, scheds))
    answers = common.run_driver(rqs) if rqs else []
    direct, diffs = 0, []
    seen = run.cov.setdefault("processor_failures_by_signature", {})
    for c, o, a in zip(cases, outs, answers):
        if "error" in a:
            raise common.HarnessError("driver (proc.run): " + a["error"])
        ca = c["args"]
        run.tally("processor_cases", "%s:%s" % (label, "replay" if ca["replay"] else "generate"))
        run.tally("processor_iterations", str(c["iterations"]))
        run.tally("processor_schedule_length", str(ca["transformations"] if ca["transformations"] is not None else len(ca["lines"])))
        for obs in o["iterations"]:
            run.tally("processor_iteration_status", obs["status"].split(":")[0])
            if obs.get("schedule") and obs.get("steps") is not None and obs["status"] == "done" and \
                    len(obs["transformations"]) > 0:
                pass
        nt = sum(1 for s in c["script"] if not s.get("t") and not s.get("raise"))
        run.count({"processor": case_key(c)}, nontrivial=len(c["script"]) > 0)
        run.cov["traces_validated_against_impl"] += 1
        if nt:
            run.cov["processor_cases_with_a_step_that_transforms_nothing"] = \
                run.cov.get("processor_cases_with_a_step_that_transforms_nothing", 0) + 1
        bad = judge_direct(c, o)
        for sig, what, detail in bad:
            direct += 1
            seen[sig] = seen.get(sig, 0) + 1
            if seen[sig] <= 1:
                run.violation({"kind": "failing-input", "replay": "processor", "what": what, "detail": detail,
                               "case": case_key(c), "note": prop_note}, signature=sig)
        if o["nonterminating"]:
            continue
        model = [canon_model(x) for x in a["r"]]
        realc = [canon_real(x) for x in o["iterations"]]
        if model != realc:
            first = next((i for i, (x, y) in enumerate(zip(model, realc)) if x != y), min(len(model), len(realc)))
            diffs.append({"case": case_key(c), "iteration": first + 1,
                          "model": model[first] if first < len(model) else None,
                          "real": realc[first] if first < len(realc) else None})
    return direct, diffs


# ---------------------------------------------------------------------------------- the real --replay path, end to end
def e2e_replay(real, program, lang, iterations, rseed, transformations=1):
    """dumps `program` with the tool's own dump_program, then runs hephaestus.gen_program in replay mode
    `iterations` times in this process with the REAL transformations (TypeErasure scheduled `transformations` times,
    then TypeOverwriting), --keep-all, dry run, the same RNG seed before every iteration.  Returns per iteration the
    text of the initial program the tool saved, the texts of the correct / incorrect programs, and the text of the
    in-memory original translated BEFORE the dump."""
    H, PM = real.H, real.PM
    from src import utils
    real.k += 1
    cdir = os.path.join(real.base, "e%d" % real.k)
    td = os.path.join(cdir, "bugs", "s")
    os.makedirs(td)
    a = H.cli_args
    a.bugs, a.name, a.test_directory = os.path.join(cdir, "bugs"), "s", td
    a.language = lang
    a.debug = a.log = a.examine = a.print_stacktrace = a.rerun = False
    a.dry_run, a.keep_all, a.only_correctness_preserving_transformations = True, True, False
    a.transformation_types = ["TypeErasure"]
    a.transformations, a.transformation_schedule = transformations, None
    PM.ProgramProcessor.CP_TRANSFORMATIONS = real.orig["cp"]
    PM.ProgramProcessor.NCP_TRANSFORMATIONS = real.orig["ncp"]
    PM.Generator = real.orig["gen"]
    H.ProgramProcessor = real.Recording
    tr = H.TRANSLATORS[lang]("src." + PKGS[0], a.options["Translator"])
    original_text = utils.translate_program(tr, program)
    fn, fni = tr.get_filename(), tr.get_incorrect_filename()
    a.replay = os.path.join(cdir, "stored.bin")
    utils.dump_program(a.replay, program)
    real.st = st = {"script": [], "calls": 0, "steps": 0, "cap": 0, "sched_len": transformations, "genBase": 0, "pid": 0,
                    "procs": [], "starts": [], "counter_stuck": []}
    out = {"original": original_text, "iterations": [], "nonterminating": None}
    old = signal.signal(signal.SIGALRM, _alarm)
    try:
        for it in range(iterations):
            pid = 1 + it
            st["steps"] = 0
            st["cap"] = CAP_FACTOR * transformations + CAP_SLACK
            utils.random.r.seed(rseed)
            signal.setitimer(signal.ITIMER_REAL, 60)
            try:
                res = H.gen_program(pid, os.path.join(cdir, "batch%d" % pid, "src"), PKGS)
            except NoProgress as e:
                out["nonterminating"] = {"iteration": pid, "message": str(e)}
                break
            finally:
                signal.setitimer(signal.ITIMER_REAL, 0)

            def rd(*parts):
                p = os.path.join(*parts)
                return open(p).read() if os.path.exists(p) else None
            out["iterations"].append({
                "pid": pid, "failed": bool(res.failed), "error": res.stats.get("error"),
                "steps": st["steps"], "transformations": list(res.stats["transformations"]),
                "start": rd(td, "generator", "iter_%d" % pid, fn),
                "correct": rd(cdir, "batch%d" % pid, "src", PKGS[0], fn),
                "incorrect": rd(cdir, "batch%d" % pid, "src", PKGS[1], fn),
                "start_obj_reused": any(st["starts"][-1]["obj"] is s["obj"] for s in st["starts"][:-1]) if st["starts"] else None})
    finally:
        signal.signal(signal.SIGALRM, old)
    return out
