"""pipeline plugin of C11/C12: at every stage (gen, erase, overwrite) of a real pipeline run, inside
the worker, translate the live program with the REAL translators of all four languages under several
histories and record what C11 claims (byte equality, state restoration, program unchanged by value).

History k of language L for program p (H = spec["c11_histories"]):
  0 fresh translator                                  1 the same object a second time
  2 after [pool0]                                     3 after [pool0, pool1, p]
  4 fresh L-translator after p was translated to the next language
  5 after [copy of the gen-stage program]             6 after [gen copy, copy of the previous stage]
  7 after [pool1, pool1, pool1]                       8 after [p, p, p]
  9 fresh L-translator after p was translated to all other languages
  10 after [pool0, p, pool1, p]                       11 a translator constructed with another `options` dict
pool0/pool1: two small programs generated once per worker process *before* the run's own generator
call (so the run's random stream is untouched); copies are pickle round trips (their export must
equal the original's: the UNCLAIMED observation for C13)."""
import pickle

import pipeline
import export_ast
from trans_models import LANGS, MODELS

_POOL = {}


def pool():
    """two small programs, deterministic (lang, seed, depth fixed)"""
    if not _POOL:
        progs = [pipeline.generate("kotlin", 7001, (0, 0, 0, 0), 3), pipeline.generate("java", 7002, (0, 0, 0, 0), 3)]
        _POOL["progs"] = progs
        _POOL["exports"] = [export_ast.export_program(p) for p in progs]
    return _POOL


def canon(v, depth=0):
    """by-value canonical form of an attribute value of a translator object"""
    import src.ir.node as node
    import src.ir.types as tp
    if v is None or isinstance(v, (bool, int, float, str)):
        return v
    if depth > 6:
        return "<deep>"
    if isinstance(v, (list, tuple)):
        return [canon(x, depth + 1) for x in v]
    if isinstance(v, (set, frozenset)):
        return sorted((repr(canon(x, depth + 1)) for x in v))
    if isinstance(v, dict):
        return sorted(([repr(canon(k, depth + 1)), canon(x, depth + 1)] for k, x in v.items()), key=repr)
    if isinstance(v, tp.Type):
        return "type:" + str(v)
    if isinstance(v, node.Node):
        return "node:" + type(v).__name__ + ":" + str(getattr(v, "name", ""))
    return "obj:" + type(v).__name__


EXCLUDED = ("context", "program", "types", "package")


def snapshot(tr):
    return {k: canon(v) for k, v in sorted(tr.__dict__.items()) if k not in EXCLUDED}


def install(state, spec):
    state["pool"] = pool()
    state["copies"] = []
    state["H"] = int(spec.get("c11_histories", 5))


def first_diff(a, b):
    n = min(len(a), len(b))
    k = next((i for i in range(n) if a[i] != b[i]), n)
    line = a.count("\n", 0, k) + 1
    # the enclosing top-level declaration: last line before k that starts in column 0 with a letter
    start = a.rfind("\n", 0, k)
    decl = ""
    pos = k
    while pos > 0:
        ls = a.rfind("\n", 0, pos) + 1
        l = a[ls:a.find("\n", ls) if a.find("\n", ls) >= 0 else len(a)]
        if l[:1].isalpha() or l[:1] == "@":
            decl = l[:120]
            break
        pos = ls - 1
    return {"offset": k, "line": line, "decl": decl, "a": a[max(0, k - 60):k + 60], "b": b[max(0, k - 60):k + 60]}


def stage(state, name, program, st):
    from src import utils
    H = state.get("H", 5)
    pl = state["pool"]["progs"]
    e0 = export_ast.export_program(program)
    out = {"langs": {}, "pool_digest": hash(repr(state["pool"]["exports"])) & 0xffffffff}
    # pickle round trip: copy + C13 observation
    try:
        cp = pickle.loads(pickle.dumps(program))
        out["pickle_equal"] = export_ast.export_program(cp) == e0
    except Exception as e:  # noqa: BLE001
        cp = None
        out["pickle_equal"] = None
        out["pickle_error"] = type(e).__name__
    copies = state["copies"]
    gen_copy = copies[0] if copies else cp
    prev_copy = copies[-1] if copies else cp
    for li, L in enumerate(LANGS):
        rec = {"n_hist": 0, "diffs": [], "snap_diffs": [], "errors": []}

        def tr_new(opts=None):
            return pipeline.new_translator(L, "src.pkg", opts)

        def run_hist(k):
            """returns (text, translator used for the final translation, snapshot after construction)"""
            if k == 0:
                tr = tr_new(); s0 = snapshot(tr)
            elif k == 1:
                tr = tr_new(); s0 = snapshot(tr); utils.translate_program(tr, program)
            elif k == 2:
                tr = tr_new(); s0 = snapshot(tr); utils.translate_program(tr, pl[0])
            elif k == 3:
                tr = tr_new(); s0 = snapshot(tr)
                for q in (pl[0], pl[1], program):
                    utils.translate_program(tr, q)
            elif k == 4:
                other = LANGS[(li + 1) % len(LANGS)]
                utils.translate_program(pipeline.new_translator(other, "src.pkg", {}), program)
                tr = tr_new(); s0 = snapshot(tr)
            elif k == 5:
                tr = tr_new(); s0 = snapshot(tr); utils.translate_program(tr, gen_copy)
            elif k == 6:
                tr = tr_new(); s0 = snapshot(tr)
                for q in (gen_copy, prev_copy):
                    utils.translate_program(tr, q)
            elif k == 7:
                tr = tr_new(); s0 = snapshot(tr)
                for q in (pl[1], pl[1], pl[1]):
                    utils.translate_program(tr, q)
            elif k == 8:
                tr = tr_new(); s0 = snapshot(tr)
                for q in (program, program, program):
                    utils.translate_program(tr, q)
            elif k == 9:
                for other in LANGS:
                    if other != L:
                        utils.translate_program(pipeline.new_translator(other, "src.pkg", {}), program)
                tr = tr_new(); s0 = snapshot(tr)
            elif k == 10:
                tr = tr_new(); s0 = snapshot(tr)
                for q in (pl[0], program, pl[1], program):
                    utils.translate_program(tr, q)
            else:
                tr = tr_new({"cast_numbers": False, "x": 1}); s0 = snapshot(tr_new())
            t = utils.translate_program(tr, program)
            return t, tr, s0

        base = None
        for k in range(H):
            if k in (5, 6) and gen_copy is None:
                continue
            try:
                t, tr, s0 = run_hist(k)
            except Exception as e:  # noqa: BLE001
                rec["errors"].append([k, type(e).__name__, str(e)[:200]])
                continue
            rec["n_hist"] += 1
            if base is None:
                base = t
            elif t != base:
                d = first_diff(base, t)
                d["history"] = k
                rec["diffs"].append(d)
            s1 = snapshot(tr)
            if k == 3 and L in MODELS:
                # the attributes the Lean model's `state_op` answers, after [pool0, pool1, p, p]
                rec["attrs_after"] = {a: canon(getattr(tr, a, "<missing>")) for a in MODELS[L]["state_attrs"]}
                rec["stack_len_after"] = len(getattr(tr, "_nodes_stack", []))
            if s1 != s0:
                rec["snap_diffs"].append({"history": k, "attrs": [[a, s0.get(a), s1.get(a)] for a in sorted(set(s0) | set(s1))
                                                                  if s0.get(a) != s1.get(a)][:6]})
        rec["text"] = base
        out["langs"][L] = rec
    # Kotlin: visit the top-level declarations from a hand-set state (model correspondence off the initial state)
    try:
        from src.translators.kotlin import KotlinTranslator
        vis = []
        for (ident, unit, lam, cast) in ((0, False, False, False), (4, True, False, True), (2, False, True, False)):
            tr = KotlinTranslator("src.pkg", {})
            tr.ident, tr.is_unit, tr.is_lambda, tr._cast_integers = ident, unit, lam, cast
            tr.context = program.context
            for d in program.declarations:
                tr.visit(d)
            vis.append({"init": {"ident": ident, "is_unit": unit, "is_lambda": lam, "_cast_integers": cast},
                        "texts": list(tr._children_res),
                        "state": {"ident": tr.ident, "is_unit": tr.is_unit, "is_lambda": tr.is_lambda,
                                  "_cast_integers": tr._cast_integers, "stack_len": len(tr._nodes_stack)}})
        out["kotlin_visit"] = vis
    except Exception as e:  # noqa: BLE001
        out["kotlin_visit_error"] = type(e).__name__ + ": " + str(e)[:200]
    # Scala: the same visits from hand-set states (+ the text after an explicit `_reset_state()`, which no code calls)
    try:
        from src.translators.scala import ScalaTranslator
        vis = []
        for (ident, unit, lam, cast) in ((0, False, False, False), (4, True, False, True), (2, False, True, False)):
            tr = ScalaTranslator("src.pkg", {})
            tr.ident, tr.is_unit, tr.is_lambda, tr._cast_integers = ident, unit, lam, cast
            tr.context = program.context
            for d in program.declarations:
                tr.visit(d)
            vis.append({"init": {"ident": ident, "is_unit": unit, "is_lambda": lam, "_cast_integers": cast},
                        "texts": list(tr._children_res),
                        "state": {"ident": tr.ident, "is_unit": tr.is_unit, "is_lambda": tr.is_lambda,
                                  "_cast_integers": tr._cast_integers, "stack_len": len(tr._nodes_stack)}})
        out["scala_visit"] = vis
        tr = ScalaTranslator("src.pkg", {})
        utils.translate_program(tr, pl[0])
        tr.ident, tr.is_unit, tr._cast_integers = 6, True, True
        tr._reset_state()
        out["scala_after_reset"] = utils.translate_program(tr, program)
    except Exception as e:  # noqa: BLE001
        out["scala_visit_error"] = type(e).__name__ + ": " + str(e)[:200]
    # Groovy: the same from the hand-set states of the registry (own block; attributes by value as `canon` gives them)
        from src.translators.groovy import GroovyTranslator
        gm = MODELS.get("groovy")
        for init in (gm or {}).get("visit_states", []):
            tr = GroovyTranslator("src.pkg", {})
            for a, v in init.items():
                setattr(tr, a, tuple(v) if a == "_namespace" else v)
            stt = {a: canon(getattr(tr, a, "<missing>")) for a in gm["state_attrs"]}
            stt["stack_len"] = len(tr._nodes_stack)
            vis.append({"init": init, "texts": list(tr._children_res), "state": stt})
        if gm:
            out["groovy_visit"] = vis
        out["groovy_visit_error"] = type(e).__name__ + ": " + str(e)[:200]
    # tu.is_sam on every class declaration (theorem is_sam_never; the translator asks exactly this)
    try:
        from src.ir import type_utils as tu, ast as _ast
        out["is_sam"] = [[d.name, bool(tu.is_sam(program.context, cls_decl=d))]
                         for d in program.declarations if isinstance(d, _ast.ClassDeclaration)]
    except Exception as e:  # noqa: BLE001
        out["is_sam_error"] = type(e).__name__ + ": " + str(e)[:200]
    out["export_unchanged"] = export_ast.export_program(program) == e0
    # classes registered outside the global namespace? (assumption of the is_sam model)
    out["nested_classes"] = sum(1 for ns, kind, _ in e0["context"] if kind == "classes" and ns != ["global"])
    if cp is not None:
        copies.append(cp)
    st["c11"] = out
    st["export"] = e0


def collect(state):
    return {"pool_digest": hash(repr(state["pool"]["exports"])) & 0xffffffff}
