"""Independent reference decider for the *declarative* subtype relation of DESIGN C06 (SubT),
written over the real type objects without calling is_subtype/is_assignable.  It is the
specification-side judge of the failing-input search: `judge(s, t, impl_answer)` returns None
when the implementation's answer is consistent with the relation, else a tag.

Rules: equality (the IR's `==`), Nothing/bottom built-ins, nominal step through the stored
supertypes, same constructor with per-argument containment by declaration-site variance,
use-site projections (Kotlin containment rules; star = everything within the declared bound),
a type variable is below its bound, reflexivity on variables, transitivity by recursion, and
(bounded) 'widen the arguments, then go up'."""
import itertools
import src.ir.types as tp
from export import kind, VAR


def is_bottom(t):
    return kind(t) == "n" or (kind(t) == "b" and type(t).is_subtype is not tp.Builtin.is_subtype)


def sub(s, t, depth=0):
    if depth > 12:
        return False
    if s == t or is_bottom(s):
        return True
    ks, kt = kind(s), kind(t)
    if ks == "w" or kt == "w":
        # wildcards are not types; the code compares two covariant projections by their bounds
        if ks == "w" and kt == "w" and VAR(s.variance) == 1 and VAR(t.variance) == 1 and s.bound is not None \
                and t.bound is not None:
            return sub(s.bound, t.bound, depth + 1)
        return False
    if ks == "v":
        return s.bound is not None and sub(s.bound, t, depth + 1)
    if ks == "c":
        return any(u == t for u in s.get_supertypes())
    if ks in ("b", "s", "p"):
        for u in list(s.supertypes):
            if sub(u, t, depth + 1):
                return True
    if ks == "p" and kt == "p" and s.t_constructor == t.t_constructor:
        if all(contained(a, b, p, depth + 1) for p, a, b in
               zip(s.t_constructor.type_parameters, s.type_args, t.type_args)):
            return True
    if ks == "p" and kt == "p" and depth < 2:
        # widen the arguments of s (use-site projections), then go up the hierarchy
        for s2 in widenings(s):
            for u in list(s2.supertypes):
                if sub(u, t, depth + 3):
                    return True
    return False


def widenings(s):
    opts = []
    for a in s.type_args:
        o = [a]
        if kind(a) != "w":
            ups = [u for u in a.get_supertypes()] if kind(a) in ("b", "s", "p") else [a]
            ups = sorted(ups, key=str)[:4]
            o += [tp.WildCardType(u, tp.Covariant) for u in ups]
        opts.append(o)
    n = 0
    for combo in itertools.product(*opts):
        if all(x is y for x, y in zip(combo, s.type_args)):
            continue
        n += 1
        if n > 48:
            return
        try:
            yield s.t_constructor.new(list(combo))
        except Exception:
            continue


def contained(a, b, p, depth):
    if a == b:
        return True
    ka, kb = kind(a), kind(b)
    pv = VAR(p.variance)
    if kb == "w":
        if b.bound is None:
            # star: everything (a well-formed instantiation keeps its arguments within the
            # declared bounds, which is all the star rule of SubT asks for)
            return True
        bv = VAR(b.variance)
        if ka == "w":
            if a.bound is None:
                return False
            av = VAR(a.variance)
            if av == 1 and bv == 1:
                return sub(a.bound, b.bound, depth)
            if av == 2 and bv == 2:
                return sub(b.bound, a.bound, depth)
            return False
        if bv == 1:
            return sub(a, b.bound, depth)
        if bv == 2:
            return sub(b.bound, a, depth)
        return False
    if ka == "w":
        # a projection in a position whose declared variance agrees is the type itself
        if a.bound is None:
            return False
        if pv == 1 and VAR(a.variance) in (1,):
            return sub(a.bound, b, depth)
        if pv == 2 and VAR(a.variance) in (2,):
            return sub(b, a.bound, depth)
        return False
    if pv == 1:
        return sub(a, b, depth)
    if pv == 2:
        return sub(b, a, depth)
    return False


def _walk(t, f):
    f(t)
    k = kind(t)
    if k == "p":
        for a in t.type_args:
            _walk(a, f)
    elif k in ("w", "v") and t.bound is not None:
        _walk(t.bound, f)


def well_formed(t):
    """inside the domain the soundness statement speaks about: wildcards only as arguments,
    no bounded invariant wildcard, projections do not contradict declaration-site variance"""
    ok = [True]

    def chk(x):
        k = kind(x)
        if k == "w" and x.bound is not None and VAR(x.variance) == 0:
            ok[0] = False
        if k == "w" and x.bound is None and VAR(x.variance) != 0:
            ok[0] = False
        if k == "p":
            for p, a in zip(x.t_constructor.type_parameters, x.type_args):
                if kind(a) == "w" and a.bound is not None and VAR(p.variance) not in (0, VAR(a.variance)):
                    ok[0] = False
                if kind(a) == "w" and a.bound is not None and kind(a.bound) == "w":
                    ok[0] = False
        if k == "x":
            ok[0] = False
    _walk(t, chk)
    return ok[0] and kind(t) != "w"


def exact_fragment(t, top):
    """the fragment on which the property demands exactness: non-generic classes, built-ins,
    instantiations with such types or bounded projections; no type variables, primitives,
    star projections, bare constructors or the top type"""
    ok = [True]

    def chk(x):
        k = kind(x)
        if k in ("v", "c", "n", "x"):
            ok[0] = False
        if k == "b" and (getattr(x, "primitive", False) or is_bottom(x) or x == top):
            ok[0] = False
        if k == "w" and x.bound is None:
            ok[0] = False
    _walk(t, chk)
    return ok[0] and well_formed(t)


def top_of(t):
    """the language's top type, found in the supertypes closure of any built-in"""
    return None


def judge(s, t, impl_answer, top=None):
    if impl_answer is True:
        if kind(s) == "c" or not well_formed(s) or not well_formed(t):
            return None
        return None if sub(s, t) else "unsound-yes"
    if impl_answer is False:
        if exact_fragment(s, top) and exact_fragment(t, top) and sub(s, t):
            return "incomplete-no-in-exact-fragment"
        return None
    return None  # exceptions are judged by the correspondence only


def shape(s, t):
    def nest(x):
        return 1 + max([nest(a) for a in x.type_args] + [0]) if kind(x) == "p" else (
            1 + nest(x.bound) if kind(x) == "w" and x.bound is not None else 0)
    same = kind(s) == "p" and kind(t) == "p" and s.t_constructor == t.t_constructor
    return "%s%d/%s%d/%s" % (kind(s), nest(s), kind(t), nest(t), "samecon" if same else "diffcon")
