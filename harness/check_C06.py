"""C06 — the subtyping judgement is sound, and exact on concrete class types.

proof side : lean/Heph/Props/C06.lean (isSub of Model/Types.lean against the declarative SubT)
tie to code: exact correspondence of Type.__eq__/is_subtype/is_assignable with the model on
             stratified pairs over random completed class tables, a malformed stream, and the
             queries real generator runs issue; `refsub.py` (an independent declarative decider)
             judges failing inputs.
"""
import common
from common import compare_stream, canon
import export
import gen_types
import refsub

LEVEL = "proof"


def call(f):
    try:
        r = f()
        return bool(r)
    except Exception as e:  # error kinds are part of the compared behaviour
        return type(e).__name__


def make_requests(pairs, extra):
    """pairs: list of (s, t, stratum).  Returns (requests, impl answers, meta)"""
    rqs, impl, meta = [], [], []
    for s, t, stratum in pairs:
        tt = export.TypeTable()
        si, ti = tt.add(s), tt.add(t)
        base = {"tt": tt.entries, "s": si, "t": ti}
        for op, f in (("types.eq", lambda: s == t),
                      ("types.subtype", lambda: s.is_subtype(t)),
                      ("types.assignable", lambda: s.is_assignable(t))):
            rq = dict(base, op=op)
            if op == "types.assignable":
                rq["extra"] = extra
            rqs.append(rq)
            impl.append(call(f))
            meta.append((s, t, stratum))
    return rqs, impl, meta


def gen_pairs(rng, ntables, per_table, malformed_share=0.15):
    pairs = []
    for _ in range(ntables):
        tb = gen_types.Table(rng)
        for _ in range(per_table):
            r = rng.random()
            if r < malformed_share:
                pairs.append((tb.any_type(2, True), tb.any_type(2, True), "malformed"))
            elif r < 0.35:
                pairs.append((tb.any_type(2), tb.any_type(2), "random"))
            elif r < 0.6:
                s = tb.ground(2, True, tuple(tb.scope_vars()) if rng.random() < 0.3 else ())
                pairs.append((s, tb.supertype_of(s), "up-closure"))
            elif r < 0.85:
                s = tb.ground(2, True)
                t = tb.related_variant(s)
                pairs.append((s, t, "variant") if rng.random() < 0.6 else (t, s, "variant-reversed"))
            else:
                s = tb.ground(2, True)
                pairs.append((s, s if rng.random() < 0.5 else tb.related_variant(tb.related_variant(s)), "refl/two-step"))
    return pairs


def corpus_pairs():
    import src.ir.types as tp
    import src.ir.kotlin_types as kt
    import src.ir.java_types as jt
    out = []
    A = tp.SimpleClassifier("A", [kt.Any])
    B = tp.SimpleClassifier("B", [A])
    X = tp.TypeParameter("X")
    Lst = tp.TypeConstructor("Lst", [tp.TypeParameter("T", tp.Covariant)], [kt.Any])
    Base = tp.TypeConstructor("Base", [tp.TypeParameter("T")], [kt.Any])
    Foo = tp.TypeConstructor("Foo", [X], [Base.new([Lst.new([X])])])
    s1 = Foo.new([kt.String])
    s2 = Foo.new([tp.WildCardType(kt.Any, tp.Covariant)])
    s3 = Base.new([Lst.new([tp.WildCardType(kt.Any, tp.Covariant)])])
    out += [(s1, s2, "corpus"), (s2, s3, "corpus"), (s1, s3, "corpus")]   # non-transitivity witness (finding 6)
    out += [(B, A, "corpus"), (A, B, "corpus"), (Lst.new([B]), Lst.new([A]), "corpus"),
            (Lst.new([A]), Lst.new([B]), "corpus"), (Base.new([B]), Base.new([A]), "corpus"),
            (Base.new([B]), Base.new([tp.WildCardType(A, tp.Covariant)]), "corpus"),
            (Base.new([A]), Base.new([tp.WildCardType(B, tp.Contravariant)]), "corpus"),
            (Base.new([A]), Base.new([tp.WildCardType()]), "corpus"),
            (Base.new([tp.WildCardType()]), Base.new([tp.WildCardType()]), "corpus"),
            (Base.new([tp.WildCardType(A, tp.Invariant)]), Base.new([tp.WildCardType(A, tp.Invariant)]), "corpus"),
            (Base.new([A]), Base.new([tp.WildCardType(A, tp.Invariant)]), "corpus"),
            (tp.Nothing, A, "corpus"), (kt.Nothing, Foo, "corpus"), (Foo, Base.new([Lst.new([X])]), "corpus"),
            (Foo, Foo, "corpus"), (X, X, "corpus"), (tp.TypeParameter("Y", bound=A), A, "corpus"),
            (jt.IntegerType(primitive=True), jt.Number, "corpus"), (jt.Integer, jt.IntegerType(primitive=True), "corpus"),
            (jt.Short, jt.Integer, "corpus"),
            (jt.Array.new([jt.IntegerType(primitive=True)]), jt.Array.new([jt.Integer]), "corpus"),
            (jt.Array.new([jt.Integer]), jt.Array.new([jt.Number]), "corpus"),
            (tp.WildCardType(B, tp.Covariant), tp.WildCardType(A, tp.Covariant), "corpus"),
            (tp.WildCardType(None, tp.Covariant), tp.WildCardType(A, tp.Covariant), "corpus")]
    return out


def nontrivial(rq, ia):
    # a pair is non-trivial when at least one side is an instantiation or the answer is positive
    return ia is True or any(e["k"] == "p" for e in rq["tt"])


def judge(run, diffs, meta_of):
    """model and implementation differ on these requests: look for a pair on which the
    implementation's answer contradicts the declarative relation"""
    for i, rq, ia, ma in diffs[:500]:
        s, t, stratum = meta_of[i]
        if rq["op"] != "types.subtype":
            continue
        verdict = refsub.judge(s, t, ia)
        if verdict is not None:
            run.violation({"kind": "failing-input", "op": rq["op"], "s": export.short(s), "t": export.short(t),
                           "request": rq, "implementation": ia, "model": ma, "declarative": verdict},
                          signature="is_subtype:" + verdict)
            return True
    i, rq, ia, ma = diffs[0]
    s, t, stratum = meta_of[i]
    run.violation({"kind": "broken-correspondence", "correspondence": "types.py vs Model/Types (%s)" % rq["op"],
                   "s": export.short(s), "t": export.short(t), "request": rq, "implementation": ia, "model": ma},
                  signature="%s:model-differs" % rq["op"], no_input=True)
    return False


def check(run):
    proofs_ok = run.build_and_audit()
    rng = run.rng
    quick = run.tier == "quick"
    extra = [list(p) for p in export.extra_assignable_table()]
    run.cov["extra_assignable_pairs"] = len(extra)
    streams = [("corpus", corpus_pairs())]
    streams.append(("tables", gen_pairs(rng, 80 if quick else 4000, 60 if quick else 90)))
    run.cov["rule"] = ("pairs (s, t) over random completed class tables (1-6 classes, <=3 type parameters, variance, "
                       "bounds incl. parameter-to-parameter and nested), strata: random / up-closure / variant / "
                       "variant-reversed / refl-two-step / malformed; each pair asked ==, is_subtype, is_assignable; "
                       "non-trivial = an instantiation is involved or the answer is positive; distinct by canonical request")
    total_diffs = 0
    for label, pairs in streams:
        rqs, impl, meta = make_requests(pairs, extra)
        for (s, t, stratum), ia, rq in zip(meta, impl, rqs):
            if rq["op"] == "types.subtype":
                run.tally("strata", stratum)
                run.tally("subtype_answers", str(ia))
        diffs = compare_stream(run, rqs, impl, label, nontrivial=nontrivial)
        total_diffs += len(diffs)
        if diffs:
            judge(run, diffs, meta)
        # the implementation against the declarative relation directly (model-independent)
        bad = 0
        for (s, t, stratum), ia, rq in zip(meta, impl, rqs):
            if rq["op"] != "types.subtype" or stratum == "malformed":
                continue
            verdict = refsub.judge(s, t, ia)
            run.tally("declarative_judgements", "checked")
            if verdict is not None:
                bad += 1
                run.violation({"kind": "failing-input", "s": export.short(s), "t": export.short(t), "request": rq,
                               "implementation": ia, "declarative": verdict},
                              signature="is_subtype:" + verdict + ":" + (
                                  refsub.shape(s, t).split("/")[-1] if verdict.startswith("incomplete")
                                  else refsub.shape(s, t)))
        run.log("stream %s: %d pairs, %d requests, %d differ, %d contradict the declarative relation"
                % (label, len(pairs), len(rqs), len(diffs), bad))
    # every top-level is_subtype / is_assignable query of real generator + mutation runs
    import pipeline
    pipeline.setup()
    nprog = 3 if quick else 40
    specs = [{"lang": l, "seed": run.seed * 1000 + i, "stages": ["gen", "erase", "overwrite"], "export": False,
              "cap": 60 if quick else 300, "plugins": ["plugin_subtype"], "erasure_options": {"max_combinations": 2000}}
             for l in pipeline.LANGS for i in range(nprog)]
    results = pipeline.run_many(specs)
    rqs, impl, names = [], [], []
    total_calls = 0
    for r in results:
        pl = (r.get("plugins") or {}).get("plugin_subtype") or {}
        total_calls += pl.get("total_calls", 0)
        for q in pl.get("queries", []):
            rq = q["rq"]
            if rq["op"] == "types.assignable":
                rq["extra"] = extra
            rqs.append(rq)
            impl.append(q["impl"])
            names.append((q["s"], q["t"]))
    run.cov["generator_runs"] = len(results)
    run.cov["generator_runs_cut_off"] = sum(1 for r in results if r.get("cutoff"))
    run.cov["generator_top_level_queries"] = total_calls
    for ia in impl:
        run.tally("generator_query_answers", str(ia))
    if rqs:
        diffs = compare_stream(run, rqs, impl, "generator queries", nontrivial=nontrivial)
        run.log("stream generator queries: %d programs, %d top-level calls, %d distinct compared, %d differ"
                % (len(results), total_calls, len(rqs), len(diffs)))
        if diffs:
            i, rq, ia, ma = diffs[0]
            run.violation({"kind": "broken-correspondence", "correspondence": "generator query (%s)" % rq["op"],
                           "s": names[i][0], "t": names[i][1], "request": rq, "implementation": ia, "model": ma},
                          signature="%s:model-differs" % rq["op"], no_input=True)
    if not proofs_ok and not run.violations:
        run.violation({"kind": "broken-proof", "obligations": run.broken}, signature="proof", no_input=True)


def replay(run, rp):
    rq = rp["request"]
    ans = common.run_driver([rq])[0]
    run.count({"request": rq, "model": ans})
    run.cov["rule"] = "replay of one request (model side only: the request carries exported types, not live objects)"
    run.log("model answer:", ans, "recorded implementation answer:", rp.get("implementation"))
    if ans.get("r") != rp.get("implementation"):
        run.violation(rp, signature=rp.get("signature"), no_input=rp.get("kind") != "failing-input")
