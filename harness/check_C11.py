"""C11 — translation is a pure function of the program.

proof side : lean/Heph/Props/C11.lean — for the MODELLED languages (registry harness/trans_models.py)
             theorems about the state-threading translator model, for all programs and all
             histories (`visit_state`, `history_independent`, `is_sam_never`, …), plus the write-set
             theorems over the table regenerated on every run from src/translators/*.py
             (`translators_write_self_only`, `reset_complete_partial`).
             Groovy (lean/Heph/Props/C11Groovy.lean, imported by C11.lean, namespace Heph.Props.C11.Groovy, model
             lean/Heph/Model/TransGroovy.lean = port of src/translators/groovy.py): `Groovy.visit_state` (every visit
             hands all attributes back; no leaking node), `Groovy.reset_state_exact`, `Groovy.visit_program_state`,
             `Groovy.visit_program_resets`, `Groovy.program_state_independent`, `Groovy.history_independent`,
             `Groovy.translate_twice`, `Groovy.forgets_any_state`, and three counterexample theorems whose witnesses
             harness/c11_groovy.py replays on the real GroovyTranslator and on the model.
tie to code: a pipeline plugin (harness/c11_plugin.py) translates every explored program (stages gen,
             erase, overwrite of real pipeline runs) with the REAL translators of all four languages
             under H histories, inside the worker, and records
               (1) byte equality of the texts among all histories              [specification, direct]
               (2) translator `__dict__` by value after the visit = after construction   [direct]
               (3) `export_program(p)` before = after all translations         [direct]
               (4) pickle round trip keeps the export (UNCLAIMED observation, property C13)
             and this check compares, for every language with a Lean model,
               (5) model text (fresh object, and after the history [pool0, pool1, p]) = real text
               (6) top-level declarations visited from three hand-set states: texts and final state
                   (Kotlin: ident/is_unit/is_lambda/_cast_integers; Groovy: ident/is_unit/_cast_number/_inside_is/
                   _inside_is_function/_namespace — registry key `visit_states`; compared are `_children_res` and,
                   for Groovy, all of `state_attrs` incl. `_main_children`, `_main_method`)
               (7) model state after a history = the real object's attributes
               (8) `tu.is_sam` on every class = model's answer (= False, theorem is_sam_never)      [Kotlin]
               (9) model text after [pool0] and an explicit `_reset_state()` = real text        [Scala]
              (10) random UNTYPED trees over all node kinds (c11_random_ast.py) visited from random hand-set
                   states: texts and final state, model = real; state restored as Scala.visit_state says [Scala]
             Modelled: Kotlin (Props/C11.lean) and Scala (Props/C11Scala.lean, namespace Heph.Props.C11.Scala,
             audited with C11: Scala.visit_state, Scala.history_independent, Scala.translate_twice,
             Scala.reset_state_forgets, …; model lean/Heph/Model/TransScala.lean, ops trans.scala*).
             Replays the witnesses of the counterexample theorems (Kotlin and Scala: a block with a super-class
             instantiation visited at ident 4), the demo program of Props/C11Scala.lean built with the real
             classes (real text = model text = text of the Lean example) and finding 14 on the real code.
failing input: (1)–(3) are judged on the real code alone, so a difference IS the failing input
             (language, generator replay (lang, seed, switches, depth), stage, history, first differing
             declaration).  If only (5)–(8) break, the history battery is re-run with all 12 histories
             on the program concerned; nothing found -> `no-failing-input-found`."""
import multiprocessing
import os
import time

import common
import pipeline
import regen_c11
import trans_models
from trans_models import LANGS, MODELS

LEVEL = "proof"
PLUGIN = "c11_plugin"
STAGES = ["gen", "erase", "overwrite"]
HIST_NAMES = {
    0: "fresh translator", 1: "same object a second time", 2: "after [pool0]", 3: "after [pool0, pool1, p]",
    4: "fresh translator after p was translated to the next language", 5: "after [copy of gen-stage program]",
    6: "after [gen copy, copy of previous stage]", 7: "after [pool1 x3]", 8: "after [p x3]",
    9: "fresh translator after p was translated to all other languages", 10: "after [pool0, p, pool1, p]",
    11: "translator constructed with another options dict"}
VISIT_STATES = [(0, False, False, False), (4, True, False, True), (2, False, True, False)]


# ------------------------------------------------------------------ specs
def make_specs(rng, n, hist, cap, depths):
    specs = []
    for i in range(n):
        lang = LANGS[i % 4]
        switches = tuple(int(rng.random() < 0.25) for _ in range(4))
        depth = rng.choice(depths)
        specs.append({"lang": lang, "seed": rng.randrange(1, 1 << 30), "switches": switches, "max_depth": depth,
                      "stages": list(STAGES), "export": False, "plugins": [PLUGIN], "cap": cap,
                      "c11_histories": hist})
    return specs


def replay_of(spec, stage=None, **kw):
    r = {"lang": spec["lang"], "seed": spec["seed"], "switches": list(spec["switches"]),
         "max_depth": spec["max_depth"], "c11_histories": 12}
    if stage is not None:
        r["stage"] = stage
    r.update(kw)
    return r


# ------------------------------------------------------------------ judging the real code directly
def judge_stage(run, spec, stage, c11, found):
    """(1)–(3) on one stage record of the plugin.  `found`: signatures already reported"""
    bad = False
    for L in LANGS:
        rec = c11["langs"].get(L)
        if rec is None:
            continue
        run.cov["translations_compared"] += rec["n_hist"]
        run.tally("histories_run", "%s" % L)
        for d in rec["diffs"]:
            bad = True
            sig = "text-depends-on-history:%s" % L
            if sig not in found:
                found.add(sig)
                run.violation(dict(replay_of(spec, stage), kind="failing-input", translator=L,
                                   history=d["history"], history_means=HIST_NAMES.get(d["history"]),
                                   first_difference=d,
                                   note="the text of the same program differs between a fresh translator and "
                                        "this history"), signature=sig)
        for d in rec["snap_diffs"]:
            bad = True
            attrs = ",".join(a[0] for a in d["attrs"])
            sig = "translator-state-not-restored:%s:%s" % (L, attrs)
            if sig not in found:
                found.add(sig)
                run.violation(dict(replay_of(spec, stage), kind="failing-input", translator=L, history=d["history"],
                                   attributes=d["attrs"],
                                   note="attributes of the translator object differ (by value) between construction "
                                        "and the end of the translation"), signature=sig)
        if rec["errors"]:
            ks = sorted({e[0] for e in rec["errors"]})
            if rec["n_hist"] == 0:
                # the translator raises for this program under every history: not a claim of C11
                run.tally("translator_raises_under_every_history", L + ":" + rec["errors"][0][1])
            else:
                bad = True
                sig = "translator-raises-under-some-history:%s:%s" % (L, rec["errors"][0][1])
                if sig not in found:
                    found.add(sig)
                    run.violation(dict(replay_of(spec, stage), kind="failing-input", translator=L, histories=ks,
                                       errors=rec["errors"][:4]), signature=sig)
    if not c11.get("export_unchanged", True):
        bad = True
        sig = "program-modified-by-translation"
        if sig not in found:
            found.add(sig)
            run.violation(dict(replay_of(spec, stage), kind="failing-input",
                               note="export_program(p) before the translations differs from the one after"),
                          signature=sig)
    pe = c11.get("pickle_equal")
    run.tally("unclaimed_C13_pickle_roundtrip_keeps_export", str(pe))
    return bad


# ------------------------------------------------------------------ model legs
def visit_states(m):
    """hand-set states of the visit leg: the registry's, default the three Kotlin states"""
    return m.get("visit_states") or [{"ident": i, "is_unit": u, "is_lambda": l, "_cast_integers": c}
                                     for (i, u, l, c) in VISIT_STATES]


def model_requests(L, e, pool_exports):
    m = MODELS[L]
    rq = [{"op": m["op"], "program": e, "package": "src.pkg"},
          {"op": m["op"], "program": e, "package": "src.pkg", "history": [pool_exports[0], pool_exports[1], e]},
          {"op": m["state_op"], "program": e, "package": "src.pkg", "history": [pool_exports[0], pool_exports[1], e]}]
    for vs in visit_states(m):
        rq.append(dict(vs, op=m["visit_op"], program=e))
    if "issam_op" in m:
        rq.append({"op": m["issam_op"], "program": e})
    if m.get("reset"):
        # last request: the text after [pool0] and an explicit `_reset_state()` (plugin key `<lang>_after_reset`)
        rq.append({"op": m["op"], "program": e, "package": "src.pkg", "history": [pool_exports[0]], "reset": True})
    return rq


def model_judge(L, rq, ans, c11):
    """returns list of (leg, detail) that differ"""
    m = MODELS[L]
    rec = c11["langs"][L]
    out = []
    for a in ans:
        if "error" in a:
            raise common.HarnessError("driver error (%s): %s" % (L, a["error"]))
    text = rec["text"]
    if text is None:
        return out
    import c11_plugin
    if ans[0]["r"] != text:
        out.append(("text", c11_plugin.first_diff(text, ans[0]["r"])))
    if ans[1]["r"] != text:
        out.append(("text-after-history", c11_plugin.first_diff(text, ans[1]["r"])))
    if "attrs_after" in rec:
        ms = ans[2]["r"]
        got = {a: ms.get(a) for a in m["state_attrs"]}
        if got != rec["attrs_after"] or len(ms.get("_nodes_stack", [])) != rec.get("stack_len_after"):
            out.append(("state-after-history", {"real": rec["attrs_after"], "model": got,
                                                "stack_len": [rec.get("stack_len_after"), len(ms.get("_nodes_stack", []))]}))
    kv = c11.get(L + "_visit")
    if kv is not None:
        for i, real in enumerate(kv):
            ma = ans[3 + i]["r"]
            if ma["texts"] != real["texts"]:
                j = next((k for k, (x, y) in enumerate(zip(ma["texts"], real["texts"])) if x != y), -1)
                out.append(("visit-texts", {"init": real["init"], "decl": j,
                                            "diff": c11_plugin.first_diff(real["texts"][j], ma["texts"][j]) if j >= 0 else "length"}))
            rs = real["state"]
            mstate = {a: ma["state"].get(a) for a in m["state_attrs"]}
            mstate["stack_len"] = len(ma["state"].get("_nodes_stack", []))
            if mstate != rs:
                out.append(("visit-state", {"init": real["init"], "real": rs, "model": mstate}))
    if m.get("reset") and c11.get(L + "_after_reset") is not None:
        if ans[-1]["r"] != c11[L + "_after_reset"]:
            out.append(("text-after-reset", c11_plugin.first_diff(c11[L + "_after_reset"], ans[-1]["r"])))
        if c11[L + "_after_reset"] != text:
            out.append(("real-text-after-reset-differs-from-fresh", c11_plugin.first_diff(text, c11[L + "_after_reset"])))
    if "issam_op" in m and "is_sam" in c11:
        if ans[3 + len(visit_states(m))]["r"] != c11["is_sam"]:
            out.append(("is_sam", {"real": c11["is_sam"][:8], "model": ans[3 + len(visit_states(m))]["r"][:8]}))
    return out


# ------------------------------------------------------------------ witnesses on the real code
def witness_block_super(run):
    """the witness of `visit_restores_counterexample`: a block with a super-class instantiation among its
    statements, visited at ident = 4, leaves ident = 0 on the real KotlinTranslator (and in the model)"""
    pipeline.setup()
    from src.translators.kotlin import KotlinTranslator
    from src.ir import ast, kotlin_types as kt
    import export_ast
    blk = ast.Block([ast.SuperClassInstantiation(kt.Any, None)], is_func_block=False)
    tr = KotlinTranslator("src.pkg", {})
    tr.ident = 4
    tr.visit(blk)
    real = {"ident": tr.ident, "text": tr._children_res[-1]}
    e = export_ast.Exporter()
    prog = {"lang": "kotlin", "decls": [e.node(blk)], "context": []}
    prog["tt"] = e.tt.entries
    a = common.run_driver([{"op": "trans.kotlin.visit", "program": prog, "ident": 4}])[0]
    if "error" in a:
        raise common.HarnessError("driver: " + a["error"])
    model = {"ident": a["r"]["state"]["ident"], "text": a["r"]["texts"][0]}
    run.cov["witness_visit_restores_counterexample"] = {"real": real, "model": model}
    run.count({"witness": "visit_restores_counterexample"})
    if real["ident"] != 0 or model != real:
        run.violation({"kind": "broken-correspondence", "witness": "visit_restores_counterexample", "real": real,
                       "model": model, "note": "the witness of the counterexample theorem behaves differently on "
                                               "the real code (expected ident 0 after the visit)"},
                      signature="witness:visit_restores_counterexample", no_input=True)


def witness_scala(run):
    """Scala: (a) the witness of `Scala.visit_restores_counterexample` (a block with a super-class instantiation
    among its statements, visited at ident = 4, leaves ident = 0) on the real ScalaTranslator and in the model;
    (b) the program `demo` of Props/C11Scala.lean built with the real classes: real text = model text = the text
    the Lean `example` proves"""
    pipeline.setup()
    from src.translators.scala import ScalaTranslator
    from src.ir import ast, scala_types as sc, types as tp
    import export_ast
    blk = ast.Block([ast.SuperClassInstantiation(sc.Any, None)], is_func_block=False)
    tr = ScalaTranslator("src.pkg", {})
    tr.ident = 4
    tr.visit(blk)
    real = {"ident": tr.ident, "text": tr._children_res[-1]}
    e = export_ast.Exporter()
    prog = {"lang": "scala", "decls": [e.node(blk)], "context": []}
    prog["tt"] = e.tt.entries
    # (b)
    v = ast.Variable("v")
    decls = [
        ast.ClassDeclaration("B", [], ast.ClassDeclaration.REGULAR,
                             fields=[ast.FieldDeclaration("x", sc.Integer, is_final=True, can_override=True)],
                             functions=[], is_final=False, type_parameters=[]),
        ast.ClassDeclaration("A", [ast.SuperClassInstantiation(tp.SimpleClassifier("B", []),
                                                               [ast.IntegerConstant(1, sc.Integer)])],
                             ast.ClassDeclaration.REGULAR,
                             fields=[ast.FieldDeclaration("x", sc.Integer, is_final=True, can_override=False,
                                                          override=True)],
                             functions=[ast.FunctionDeclaration(
                                 "f", [ast.ParameterDeclaration("a", sc.Integer)], sc.Long,
                                 ast.IntegerConstant(-2, sc.Long), ast.FunctionDeclaration.CLASS_METHOD,
                                 is_final=True, override=False, type_parameters=[])],
                             is_final=True, type_parameters=[tp.TypeParameter("T", tp.Covariant)]),
        ast.FunctionDeclaration(
            "g", [], sc.Unit,
            ast.Block([ast.VariableDeclaration("v", ast.IntegerConstant(3, sc.Long), is_final=True, var_type=None,
                                               inferred_type=sc.Long),
                       ast.FunctionReference("f", v, None),
                       ast.FunctionCall("p.q", [ast.CallArgument(v)], None, type_args=[sc.Integer])],
                      is_func_block=True),
            ast.FunctionDeclaration.FUNCTION, is_final=True, override=False, type_parameters=[])]
    tr2 = ScalaTranslator("src.pkg", {})
    for d in decls:
        tr2.visit(d)
    real_demo = "package src.pkg\n" + "\n\n".join(tr2._children_res)
    e2 = export_ast.Exporter()
    demo = {"lang": "scala", "decls": [e2.node(d) for d in decls], "context": []}
    demo["tt"] = e2.tt.entries
    a = common.run_driver([{"op": "trans.scala.visit", "program": prog, "ident": 4},
                           {"op": "trans.scala", "program": demo, "package": "src.pkg"}])
    for x in a:
        if "error" in x:
            raise common.HarnessError("driver: " + x["error"])
    model = {"ident": a[0]["r"]["state"]["ident"], "text": a[0]["r"]["texts"][0]}
    run.cov["witness_scala_visit_restores_counterexample"] = {"real": real, "model": model}
    run.count({"witness": "Scala.visit_restores_counterexample"})
    if real["ident"] != 0 or model != real:
        run.violation({"kind": "broken-correspondence", "witness": "Scala.visit_restores_counterexample", "real": real,
                       "model": model, "note": "the witness of the counterexample theorem behaves differently on "
                                               "the real code (expected ident 0 after the visit)"},
                      signature="witness:Scala.visit_restores_counterexample", no_input=True)
    run.count({"witness": "Scala.demo"})
    run.cov["witness_scala_demo_text"] = real_demo
    if not (real_demo == a[1]["r"] == SCALA_DEMO_TEXT):
        run.violation({"kind": "broken-correspondence", "witness": "Scala.demo", "real": real_demo, "model": a[1]["r"],
                       "lean_example": SCALA_DEMO_TEXT,
                       "note": "the program `demo` of Props/C11Scala.lean is printed differently by the real "
                               "ScalaTranslator, the model, or the text proved in the Lean example"},
                      signature="witness:Scala.demo", no_input=True)


SCALA_DEMO_TEXT = ("package src.pkg\nopen class B(val x: Int)\n\nclass A[+T <: Any](final override val x: Int) extends B(1) {\n"
                   "final def f(a: Int): Long =\n  -2.toLong\n}\n\ndef g(): Unit =\n{\n  val v = 3.toLong;\n"
                   "  val _y = v.f _;\n    p`q`[Int](v);\n  }")


def witness_finding14(run):
    import c11_finding14 as f14
    res = {}
    for variant in f14.VARIANTS:
        for via in f14.ROUTES:
            r = f14.reproduce(via, variant)
            res["%s/%s" % (via, variant)] = r["changed"]
            run.count({"witness": "finding14", "via": via, "variant": variant})
            if r["changed"]:
                run.violation({"kind": "failing-input", "witness": "finding14", "via": via, "variant": variant,
                               "detail": r["detail"],
                               "note": "a query / a translation changed the program by value "
                                       "(harness/c11_finding14.py builds the class table)"},
                              signature=f14.SIGNATURE)
    run.cov["finding14_program_changed"] = res


def stream_random_trees(run, n):
    """Scala: random UNTYPED trees over all node kinds (harness/c11_random_ast.py), visited from a random hand-set
    state by the real ScalaTranslator and by the model: texts of the visits, state afterwards, and the theorem
    `Scala.visit_state` read on the real object (everything restored except ident, which is 0 or unchanged)"""
    import c11_random_ast as ra
    pipeline.setup()
    from src.translators.scala import ScalaTranslator
    batch, reals = [], []
    for decls, init in ra.cases(run.rng, n):
        try:
            real = ra.real_visit(ScalaTranslator, decls, init)
        except Exception as e:  # noqa: BLE001  (exceptions of the translator are not modelled)
            run.tally("random_trees_translator_raises", type(e).__name__)
            continue
        prog = ra.export_decls(decls)
        batch.append(dict(init, op="trans.scala.visit", program=prog))
        reals.append((real, init, prog))
    answers = common.run_driver(batch) if batch else []
    bad = 0
    for (real, init, prog), a in zip(reals, answers):
        if "error" in a:
            raise common.HarnessError("driver (random trees): " + a["error"])
        import export_ast
        import hashlib
        run.count({"random_tree": hashlib.sha1(common.canon(prog).encode()).hexdigest()[:16], "init": init},
                  nontrivial=True, sample_cap=8)
        run.cov["random_tree_nodes"] = run.cov.get("random_tree_nodes", 0) + export_ast.count_nodes(prog["decls"])
        ms = {k: a["r"]["state"].get(k) for k in ("ident", "is_unit", "is_lambda", "_cast_integers")}
        ms["stack_len"] = len(a["r"]["state"].get("_nodes_stack", []))
        rs = real["state"]
        restored = (rs["is_unit"], rs["is_lambda"], rs["_cast_integers"], rs["stack_len"]) == \
                   (init["is_unit"], init["is_lambda"], init["_cast_integers"], 1) and rs["ident"] in (0, init["ident"])
        if a["r"]["texts"] != real["texts"] or ms != rs or not restored:
            bad += 1
            if bad == 1:
                j = next((k for k, (x, y) in enumerate(zip(a["r"]["texts"], real["texts"])) if x != y), -1)
                import c11_plugin
                run.violation({"kind": "broken-correspondence", "translator": "scala", "leg": "random-trees",
                               "init": init, "program": prog, "real_state": rs, "model_state": ms,
                               "state_restored_as_visit_state_says": restored,
                               "first_difference": c11_plugin.first_diff(real["texts"][j], a["r"]["texts"][j]) if j >= 0 else None,
                               "note": "the Lean model of the Scala translator and the real translator differ on a "
                                       "hand-made (untyped) tree; the tree is the input"},
                              signature="model-differs:scala:random-trees" if restored else "translator-state-not-restored:scala:random-trees",
                              no_input=restored)
    run.cov["random_trees_compared"] = len(reals)
    run.cov["random_trees_differ"] = bad
    run.log("random untyped trees (scala): %d compared, %d differ" % (len(reals), bad))


# ------------------------------------------------------------------ the check
def stream_results(specs, deadline, workers):
    """(spec, result of pipeline.run_one) in order of completion, from forked workers; stops handing out
    results at `deadline` (the machine is shared: the number of programs done within the budget is reported)"""
    if len(specs) <= 2:
        for s in specs:
            yield s, pipeline.run_one(s)
        return
    ctx = multiprocessing.get_context("fork")
    pool = ctx.Pool(workers, initializer=pipeline._worker_init, maxtasksperchild=25)
    try:
        it = pool.imap_unordered(pipeline.run_one, specs, chunksize=1)
        for _ in specs:
            left = deadline - time.time()
            if left <= 0:
                return
            try:
                r = it.next(timeout=left)
            except multiprocessing.TimeoutError:
                return
            yield r["spec"], r
    finally:
        pool.terminate()
        pool.join()


def run_stream(run, specs, found, label, budget_s=10 ** 6):
    import c11_plugin
    pool_exports = c11_plugin.pool()["exports"]
    pd = hash(repr(pool_exports)) & 0xffffffff
    workers = min(12, max(2, (os.cpu_count() or 4) - 4))
    model_diffs = []
    direct_bad = []
    done = 0
    for spec, r in stream_results(specs, time.time() + budget_s, workers):
        done += 1
        if "cutoff" in r:
            run.tally("pipeline_cutoff", r["cutoff"])
        if "exception" in r:
            run.tally("pipeline_exception", r["exception"]["stage"] + ":" + r["exception"]["type"])
        pl = (r.get("plugins") or {}).get(PLUGIN) or {}
        if "error" in pl:
            raise common.HarnessError("plugin: " + pl["error"])
        batch, owners = [], []
        for stage in STAGES:
            st = r["stages"].get(stage)
            if st is None or "c11" not in st:
                continue
            c11 = st["c11"]
            if c11["pool_digest"] != pd:
                raise common.HarnessError("history pool differs between worker and parent (determinism recipe broken)")
            run.count({"lang": spec["lang"], "seed": spec["seed"], "switches": list(spec["switches"]),
                       "max_depth": spec["max_depth"], "stage": stage},
                      nontrivial=any((c11["langs"].get(L) or {}).get("text") for L in LANGS))
            run.tally("stages", stage)
            run.tally("program_language", spec["lang"])
            if st.get("is_transformed") is not None:
                run.tally("stage_transformed", "%s:%s" % (stage, st["is_transformed"]))
            if c11.get("nested_classes"):
                run.tally("programs_with_classes_outside_global_namespace", stage)
            for nm, ans in c11.get("is_sam", []):
                run.tally("is_sam_answers_real", str(ans))
            if judge_stage(run, spec, stage, c11, found):
                direct_bad.append((spec, stage))
            for L in trans_models.modelled():
                if L in c11["langs"] and c11["langs"][L]["text"] is not None:
                    rq = model_requests(L, st["export"], pool_exports)
                    owners.append((L, stage, c11, len(batch), len(rq)))
                    batch += rq
        if batch:
            answers = common.run_driver(batch)
            for (L, stage, c11, off, n) in owners:
                run.cov["traces_validated_against_impl"] += 1
                run.cov["model_requests"] += n
                ds = model_judge(L, batch[off:off + n], answers[off:off + n], c11)
                run.tally("model_programs_compared", L)
                for leg, detail in ds:
                    model_diffs.append((spec, stage, L, leg, detail))
    run.cov["programs_done_within_budget"] = run.cov.get("programs_done_within_budget", 0) + done
    run.log("%s: %d of %d programs within the budget, %d model differences, %d programs with a direct failure"
            % (label, done, len(specs), len(model_diffs), len(direct_bad)))
    return model_diffs, direct_bad


def report_model_diffs(run, model_diffs, found, direct_found):
    """the model and the real translator differ: search a failing input with the full history battery"""
    seen = set()
    for spec, stage, L, leg, detail in model_diffs:
        sig = "model-differs:%s:%s" % (L, leg)
        if sig in seen:
            continue
        seen.add(sig)
        run.log("correspondence breaks: %s %s at %s" % (L, leg, common.canon(detail)[:300]))
        hit = False
        if not direct_found:
            s2 = dict(spec)
            s2["c11_histories"] = 12
            r = pipeline.run_one(s2)
            before = len(run.violations) + len(run.known_hit)
            for stg in STAGES:
                st = r["stages"].get(stg)
                if st and "c11" in st:
                    judge_stage(run, s2, stg, st["c11"], found)
            hit = len(run.violations) + len(run.known_hit) > before
        if not hit and not direct_found:
            run.violation(dict(replay_of(spec, stage), kind="broken-correspondence", translator=L, leg=leg,
                               detail=detail,
                               note="the Lean model of the translator and the real translator differ; under all 12 "
                                    "histories the real translator still prints the same text, restores its state "
                                    "and leaves the program unchanged"),
                          signature=sig, no_input=True)


def check(run):
    pipeline.setup()
    regen = regen_c11.regen()
    run.cov["translator_writes_regenerated"] = {"files": regen["files"], "stores": len(regen["writes"]),
                                                "non_self_roots": sorted({w[3] for w in regen["writes"]} - {"self"}),
                                                "mutating_calls_on_parameters": len(regen["mutcalls"])}
    proofs_ok = run.build_and_audit()
    quick = run.tier == "quick"
    for k in ("translations_compared", "model_requests"):
        run.cov[k] = 0
    run.cov["modelled_languages"] = trans_models.modelled()
    run.cov["unmodelled_languages"] = [L for L in LANGS if L not in MODELS]
    run.cov["unmodelled_note"] = ("for a language without a Lean model C11 rests on the write-set theorems and on the "
                                  "observed equalities (1)-(3) only")
    found = set()

    # witnesses first (corpus)
    witness_block_super(run)
    if "scala" in MODELS:
        witness_scala(run)
        stream_random_trees(run, 300 if quick else 4000)
    witness_finding14(run)
    if "groovy" in MODELS:
        import c11_groovy
        c11_groovy.replay_witnesses(run)

    nprog, hist, cap, budget = (40, 5, 100, 100) if quick else (1000, 12, 150, 1500)
    depths = [3, 4, 4, 5, 5, 6] if quick else [4, 5, 5, 6, 6, 7]
    specs = make_specs(run.rng, nprog, hist, cap, depths)
    model_diffs, direct_bad = run_stream(run, specs, found, "pipeline stream", budget)
    run.cov["programs"] = nprog
    run.cov["stream_budget_s"] = budget
    run.cov["histories_per_translator"] = hist
    run.cov["history_kinds"] = {str(k): v for k, v in HIST_NAMES.items() if k < hist}
    run.cov["exhaustive"] = False
    run.cov["rule"] = (
        "case = one (generator replay (lang, seed, switches, max_depth), stage in gen/erase/overwrite); for each case "
        "the four real translators are run under %d histories each (text equality, translator __dict__ by value, "
        "program export unchanged), and every modelled language is compared with the Lean model (text fresh and "
        "after a 3-program history, state after the history, top-level visits from 3 hand-set states, is_sam); "
        "non-trivial = at least one translator produced text; distinct by replay tuple" % hist)
    if model_diffs:
        report_model_diffs(run, model_diffs, found, bool(direct_bad))
    if not proofs_ok and not run.violations:
        run.violation({"kind": "broken-proof", "obligations": run.broken,
                       "note": "history battery found no failing input in this run"},
                      signature="proof", no_input=True)


def replay(run, rp):
    pipeline.setup()
    run.cov["translations_compared"] = 0
    run.cov["model_requests"] = 0
    found = set()
    if rp.get("witness") == "finding14":
        witness_finding14(run)
        run.cov["rule"] = "replay of the finding-14 class table"
        return
    if str(rp.get("witness", "")).startswith("Scala."):
        witness_scala(run)
        run.cov["rule"] = "replay of the Scala witnesses"
    if str(rp.get("witness", "")).startswith("Groovy."):
        import c11_groovy
        c11_groovy.replay_witnesses(run, only=rp["witness"])
        run.cov["rule"] = "replay of a Groovy counterexample witness"
        return
    if rp.get("witness") == "visit_restores_counterexample":
        witness_block_super(run)
        run.cov["rule"] = "replay of the counterexample witness"
        return
    spec = {"lang": rp["lang"], "seed": rp["seed"], "switches": tuple(rp["switches"]), "max_depth": rp["max_depth"],
            "stages": list(STAGES), "export": False, "plugins": [PLUGIN], "cap": 300,
            "c11_histories": rp.get("c11_histories", 12)}
    model_diffs, direct_bad = run_stream(run, [spec], found, "replay")
    run.cov["rule"] = "replay of one generator run (all stages, 12 histories)"
    if model_diffs:
        report_model_diffs(run, model_diffs, found, bool(direct_bad))
