"""pipeline plugin of C01: records the decision point `gen_conditional` inside real generator runs.

`Generator.gen_conditional` folds three drawn types with `functools.reduce`; the generator module's `functools` is
replaced by a proxy that records (initial value, folded sequence, result) of every `reduce` call — the types by value.
The harness compares each recorded fold with the Lean model `condType` (refinement check of DESIGN C01 K(1))."""
import functools as _functools
import resource
import signal

import export


class _Proxy:
    def __init__(self, state):
        self._state = state

    def __getattr__(self, k):
        return getattr(_functools, k)

    def reduce(self, fn, seq, *init):
        seq = list(seq)
        out = _functools.reduce(fn, seq, *init)
        if len(init) == 1 and len(seq) == 2:
            self._state["raw"].append((init[0], seq[0], seq[1], out))
        return out


def _cpu():
    r = resource.getrusage(resource.RUSAGE_SELF)
    return r.ru_utime + r.ru_stime


def install(state, spec):
    import src.generators.generator as G
    import pipeline
    state["raw"] = []
    state["cpu0"] = _cpu()
    cc = spec.get("cpu_cap")
    if cc:
        # the machine is shared: a wall-clock cap cuts off different programs on every run.  Cap the CPU time of the
        # program instead (same Cutoff exception as pipeline's alarm); the wall-clock alarm of pipeline.run_one stays
        # armed as a safety net (spec["cap"] is chosen generously).
        state["old_vt"] = signal.signal(signal.SIGPROF, pipeline._alarm)
        signal.setitimer(signal.ITIMER_PROF, cc)
    state["orig"] = G.functools
    G.functools = _Proxy(state)


def collect(state):
    if "old_vt" in state:
        signal.setitimer(signal.ITIMER_PROF, 0)
    tt = export.TypeTable()
    folds = [{"tmp": tt.add(a), "t": tt.add(b), "f": tt.add(c), "out": tt.add(o)} for a, b, c, o in state.get("raw", [])[:2000]]
    return {"tt": tt.entries, "folds": folds, "n": len(state.get("raw", [])), "cpu_s": round(_cpu() - state.get("cpu0", 0), 2)}


def uninstall(state):
    import src.generators.generator as G
    if "old_vt" in state:
        signal.setitimer(signal.ITIMER_PROF, 0)
        signal.signal(signal.SIGPROF, state.pop("old_vt"))
    if "orig" in state:
        G.functools = state["orig"]
