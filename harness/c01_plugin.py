"""pipeline plugin of C01: records the decision points `gen_conditional` and `gen_variable` inside real generator runs.

`Generator.gen_conditional` folds three drawn types with `functools.reduce`; the generator module's `functools` is
replaced by a proxy that records (initial value, folded sequence, result) of every `reduce` call — the types by value.
The harness compares each recorded fold with the Lean model `condType` (refinement check of DESIGN C01 K(1)).
`Generator.gen_conditional` itself is wrapped to pair the fold with the expected type and with the type finally
recorded in the returned `Conditional` (tree as is: the fold result; after fixes/C01-cond-recorded-type.diff: the
expected type when the fold result bounds not both branches).

`Generator.gen_variable` is wrapped: the inputs it reads (the variables in scope with type / finality / membership in
the enclosing namespace, the expected type, `subtype`, `_inside_java_lambda`) are exported by value BEFORE the call,
the outcome after it: the name of the returned `Variable`, or `None` when the fall-back branch
`generate_expr(..., exclude_var=True)` was taken (only `gen_variable` passes `exclude_var=True`, so a wrapper of
`generate_expr` that marks the innermost open `gen_variable` frame identifies the branch exactly)."""
import functools as _functools
import resource
import signal

import export


class _Proxy:
    def __init__(self, state):
        self._state = state

    def __getattr__(self, k):
        return getattr(_functools, k)

    def reduce(self, fn, seq, *init):
        seq = list(seq)
        out = _functools.reduce(fn, seq, *init)
        # only the fold of gen_conditional (generator.py has a second reduce, over type-parameter bounds)
        if len(init) == 1 and len(seq) == 2 and "gen_conditional" in getattr(fn, "__qualname__", ""):
            rec = [init[0], seq[0], seq[1], out, None, None]
            self._state["raw"].append(rec)
            if self._state["cstack"]:
                self._state["cstack"][-1].append(rec)
        return out


GENVAR_LIMIT = 250


def _wrap_generator(state, G):
    gen_cls = G.Generator
    o_cond, o_var, o_expr = gen_cls.gen_conditional, gen_cls.gen_variable, gen_cls.generate_expr
    state["orig_methods"] = (o_cond, o_var, o_expr)

    def gen_conditional(self, etype, *a, **k):
        frame = []
        state["cstack"].append(frame)
        try:
            node = o_cond(self, etype, *a, **k)
        finally:
            state["cstack"].pop()
        if frame:                  # the fold of THIS call (nested calls have their own frame)
            frame[0][4] = etype
            frame[0][5] = node.get_type()
        return node

    def gen_variable(self, etype, only_leaves=False, subtype=True):
        rec = None
        state["genvar_n"] += 1
        if len(state["genvar"]) < GENVAR_LIMIT:
            vs = self.context.get_vars(self.namespace)
            # the code reads the enclosing namespace only inside a Java lambda
            outer = list(self.context.get_vars(self.namespace[:-1]).values()) if self._inside_java_lambda else []
            tt = state["gv_tt"]
            rec = {"vars": [{"name": v.name, "t": tt.add(v.get_type()), "final": bool(getattr(v, "is_final", False)),
                             "outer": v in outer} for v in vs.values()],
                   "etype": tt.add(etype), "sub": bool(subtype), "jl": bool(self._inside_java_lambda)}
        frame = {"fallback": False}
        state["vstack"].append(frame)
        try:
            node = o_var(self, etype, only_leaves=only_leaves, subtype=subtype)
        finally:
            state["vstack"].pop()
        if rec is not None:
            rec["out"] = None if frame["fallback"] else getattr(node, "name", None)
            rec["out_kind"] = type(node).__name__
            state["genvar"].append(rec)
        return node

    def generate_expr(self, *a, **k):
        if k.get("exclude_var") and state["vstack"]:
            state["vstack"][-1]["fallback"] = True
        return o_expr(self, *a, **k)
    gen_cls.gen_conditional, gen_cls.gen_variable, gen_cls.generate_expr = gen_conditional, gen_variable, generate_expr


def _cpu():
    r = resource.getrusage(resource.RUSAGE_SELF)
    return r.ru_utime + r.ru_stime


def install(state, spec):
    import src.generators.generator as G
    import pipeline
    state["raw"] = []
    state["cpu0"] = _cpu()
    cc = spec.get("cpu_cap")
    if cc:
        # the machine is shared: a wall-clock cap cuts off different programs on every run.  Cap the CPU time of the
        # program instead (same Cutoff exception as pipeline's alarm); the wall-clock alarm of pipeline.run_one stays
        # armed as a safety net (spec["cap"] is chosen generously).
        state["old_vt"] = signal.signal(signal.SIGPROF, pipeline._alarm)
        signal.setitimer(signal.ITIMER_PROF, cc)
    state["orig"] = G.functools
    G.functools = _Proxy(state)
    state["cstack"], state["vstack"], state["genvar"], state["genvar_n"] = [], [], [], 0
    state["gv_tt"] = export.TypeTable()
    _wrap_generator(state, G)


def collect(state):
    if "old_vt" in state:
        signal.setitimer(signal.ITIMER_PROF, 0)
    tt = export.TypeTable()
    folds = []
    for a, b, c, o, et, fin in state.get("raw", [])[:2000]:
        f = {"tmp": tt.add(a), "t": tt.add(b), "f": tt.add(c), "out": tt.add(o)}
        if et is not None and fin is not None:
            f["etype"], f["final"] = tt.add(et), tt.add(fin)
        folds.append(f)
    return {"tt": tt.entries, "folds": folds, "n": len(state.get("raw", [])),
            "genvar": state.get("genvar", []), "genvar_tt": state["gv_tt"].entries if "gv_tt" in state else [],
            "genvar_n": state.get("genvar_n", 0), "cpu_s": round(_cpu() - state.get("cpu0", 0), 2)}


def uninstall(state):
    import src.generators.generator as G
    if "old_vt" in state:
        signal.setitimer(signal.ITIMER_PROF, 0)
        signal.signal(signal.SIGPROF, state.pop("old_vt"))
    if "orig" in state:
        G.functools = state["orig"]
    if "orig_methods" in state:
        gen_cls = G.Generator
        gen_cls.gen_conditional, gen_cls.gen_variable, gen_cls.generate_expr = state.pop("orig_methods")
