"""pipeline plugin of C01: records the decision points `gen_conditional` and `gen_variable` inside real generator runs.

`Generator.gen_conditional` folds three drawn types with `functools.reduce`; the generator module's `functools` is
replaced by a proxy that records (initial value, folded sequence, result) of every `reduce` call — the types by value.
The harness compares each recorded fold with the Lean model `condType` (refinement check of DESIGN C01 K(1)).
`Generator.gen_conditional` itself is wrapped to pair the fold with the expected type and with the type finally
recorded in the returned `Conditional` (tree as is: the fold result; after fixes/C01-cond-recorded-type.diff: the
expected type when the fold result bounds not both branches).

`Generator.gen_variable` is wrapped: the inputs it reads (the variables in scope with type / finality / membership in
the enclosing namespace, the expected type, `subtype`, `_inside_java_lambda`) are exported by value BEFORE the call,
the outcome after it: the name of the returned `Variable`, or `None` when the fall-back branch
`generate_expr(..., exclude_var=True)` was taken (only `gen_variable` passes `exclude_var=True`, so a wrapper of
`generate_expr` that marks the innermost open `gen_variable` frame identifies the branch exactly)."""
import functools as _functools
import os
import resource
import signal

import export


class _Proxy:
    def __init__(self, state):
        self._state = state

    def __getattr__(self, k):
        return getattr(_functools, k)

    def reduce(self, fn, seq, *init):
        seq = list(seq)
        out = _functools.reduce(fn, seq, *init)
        # only the fold of gen_conditional (generator.py has a second reduce, over type-parameter bounds)
        if len(init) == 1 and len(seq) == 2 and "gen_conditional" in getattr(fn, "__qualname__", ""):
            rec = [init[0], seq[0], seq[1], out, None, None]
            self._state["raw"].append(rec)
            if self._state["cstack"]:
                self._state["cstack"][-1].append(rec)
        return out


GENVAR_LIMIT = 250
# decision points recorded for the models of lean/Heph/Model/Gen*.lean (caps per program, the totals are counted)
GP_LIMITS = {"sig": 150, "fcr": 40, "fref": 40, "new": 50, "subclass": 25, "mcd": 20, "mcls": 40, "gmc": 30,
             "post": 100, "ovr": 40, "call": 50}


def _wrap_generator(state, G):
    gen_cls = G.Generator
    o_cond, o_var, o_expr = gen_cls.gen_conditional, gen_cls.gen_variable, gen_cls.generate_expr
    state["orig_methods"] = (o_cond, o_var, o_expr)

    def gen_conditional(self, etype, *a, **k):
        frame = []
        state["cstack"].append(frame)
        try:
            node = o_cond(self, etype, *a, **k)
        finally:
            state["cstack"].pop()
        if frame:                  # the fold of THIS call (nested calls have their own frame)
            frame[0][4] = etype
            frame[0][5] = node.get_type()
        return node

    def gen_variable(self, etype, only_leaves=False, subtype=True):
        rec = None
        state["genvar_n"] += 1
        if len(state["genvar"]) < GENVAR_LIMIT:
            vs = self.context.get_vars(self.namespace)
            # the code reads the enclosing namespace only inside a Java lambda
            outer = list(self.context.get_vars(self.namespace[:-1]).values()) if self._inside_java_lambda else []
            tt = state["gv_tt"]
            rec = {"vars": [{"name": v.name, "t": tt.add(v.get_type()), "final": bool(getattr(v, "is_final", False)),
                             "outer": v in outer} for v in vs.values()],
                   "etype": tt.add(etype), "sub": bool(subtype), "jl": bool(self._inside_java_lambda)}
        frame = {"fallback": False}
        state["vstack"].append(frame)
        try:
            node = o_var(self, etype, only_leaves=only_leaves, subtype=subtype)
        finally:
            state["vstack"].pop()
        if rec is not None:
            rec["out"] = None if frame["fallback"] else getattr(node, "name", None)
            rec["out_kind"] = type(node).__name__
            state["genvar"].append(rec)
        return node

    def generate_expr(self, *a, **k):
        if k.get("exclude_var") and state["vstack"]:
            state["vstack"][-1]["fallback"] = True
        fs = state["fs"]
        if fs and fs[-1].get("args") is not None:
            # a direct child call of a recorded decision point: the expected type handed down
            et = a[0] if a else k.get("expr_type")
            fs[-1]["args"].append(_gp_add(state, et))
        fs.append(_EXPR_FRAME)
        try:
            return o_expr(self, *a, **k)
        finally:
            fs.pop()
    gen_cls.gen_conditional, gen_cls.gen_variable, gen_cls.generate_expr = gen_conditional, gen_variable, generate_expr
    if os.environ.get("C01_GP", "1") != "0":      # C01_GP=0: measure the cost of the decision-point recording
        _wrap_genpoints(state, gen_cls)


_EXPR_FRAME = {"k": "expr"}


def _gp_add(state, t):
    """index of `t` in the program's table of decision-point types (by value NOW: the generator mutates type
    parameters later, so the identity memo of the table is dropped before every record)"""
    return state["gp_tt"].add(t)


def _merge(a, b):
    """`a.update(b)` on a copy (the keys are type parameters, not strings)"""
    m = dict(a or {})
    m.update(b or {})
    return m


def _gp_fresh(state):
    state["gp_tt"]._memo = {}


def _gp_map(state, m):
    """a TypeVarMap by value, insertion order; None when it is None or holds a None value"""
    if m is None:
        return None
    out = []
    for k, v in m.items():
        if v is None:
            return None
        out.append([_gp_add(state, k), _gp_add(state, v)])
    return out


_GP_OFF = set(filter(None, os.environ.get("C01_GP_OFF", "").split(",")))


def _gp_room(state, kind):
    state["gp_n"][kind] = state["gp_n"].get(kind, 0) + 1
    if kind in _GP_OFF:
        return False
    return len(state["gp"].setdefault(kind, [])) < GP_LIMITS[kind]


def _gp_vars(state, gen):
    vs = gen.context.get_vars(gen.namespace)
    outer = list(gen.context.get_vars(gen.namespace[:-1]).values()) if gen._inside_java_lambda else []
    return [{"name": v.name, "t": _gp_add(state, v.get_type()), "final": bool(getattr(v, "is_final", False)),
             "outer": v in outer} for v in vs.values()]


def _gp_attr(state, gen, attr, with_fn):
    params = list(getattr(attr, "params", None) or [])
    a = {"name": attr.name, "t": _gp_add(state, attr.get_type()),
         "params": [_gp_add(state, p.get_type()) for p in params]}
    if with_fn:
        a["fn"] = _gp_add(state, gen.bt_factory.get_function_type(len(params)))
    return a


def _attr_mode(get_attr_type):
    """which of the generator's two `get_attr_type` functions was passed: the default
    `substitute_type(x.get_type(), y)` or the lambda of `_get_matching_objects`, which closes over `signature` and
    `func_ref` and takes `.type_args[-1]` when `not signature and func_ref`"""
    if get_attr_type is None:
        return "whole"
    code = get_attr_type.__code__
    cells = dict(zip(code.co_freevars, [c.cell_contents for c in (get_attr_type.__closure__ or ())]))
    if "func_ref" not in cells and "signature" not in cells:
        return "whole"
    return "last" if (not cells.get("signature") and cells.get("func_ref")) else "whole"


def _wrap_genpoints(state, gen_cls):
    names = ["_is_sigtype_compatible", "_gen_func_call_ref", "_get_matching_objects", "_gen_func_ref",
             "_get_matching_function_declarations", "gen_new", "_get_subclass", "_get_matching_class_decls",
             "_is_signature_compatible", "_get_matching_class", "_gen_matching_class", "_gen_func_from_existing",
             "_gen_type_params_from_existing", "gen_func_decl", "_gen_func_call"]
    orig = {n: getattr(gen_cls, n) for n in names}
    state["gp_orig"] = orig
    fs = state["fs"]

    def _is_sigtype_compatible(self, attr, etype, type_var_map, check_signature, subtype, *rest, **kw):
        rec = None
        if _gp_room(state, "sig"):
            _gp_fresh(state)
            gat = rest[0] if rest else kw.get("get_attr_type")
            m = _gp_map(state, type_var_map)
            if m is not None and attr.get_type() is not None:
                rec = {"attr": _gp_attr(state, self, attr, bool(check_signature)), "etype": _gp_add(state, etype),
                       "m": m, "sig": bool(check_signature), "sub": bool(subtype), "mode": _attr_mode(gat)}
            else:
                state["gp_n"]["sig_skipped"] = state["gp_n"].get("sig_skipped", 0) + 1
        try:
            out = orig["_is_sigtype_compatible"](self, attr, etype, type_var_map, check_signature, subtype,
                                                 *rest, **kw)
        except Exception as e:
            if rec is not None:
                rec["out"] = type(e).__name__
                state["gp"]["sig"].append(rec)
            raise
        if rec is not None:
            rec["out"] = bool(out)
            state["gp"]["sig"].append(rec)
        return out

    def _get_matching_objects(self, etype, subtype, attr_name, *rest, **kw):
        top = fs[-1] if fs else None
        fs.append(_EXPR_FRAME)
        try:
            objs = orig["_get_matching_objects"](self, etype, subtype, attr_name, *rest, **kw)
        finally:
            fs.pop()
        if top is not None and top.get("k") == "fcr":
            _gp_fresh(state)
            top["objs"] = [{"t": _gp_add(state, o.attr_decl.get_type()), "name": o.attr_decl.name,
                            "inst": _gp_map(state, o.receiver_inst)} for o in objs]
        func_ref = rest[0] if rest else kw.get("func_ref", False)
        signature = rest[1] if len(rest) > 1 else kw.get("signature", False)
        for o in objs:
            _post(self, "_get_matching_objects:" + attr_name, o.attr_decl, etype, o.receiver_inst,
                  bool(signature and not func_ref), subtype, "last" if (not signature and func_ref) else "whole")
        return objs

    def _post(self, src, attr, etype, m, sig, sub, mode):
        """a returned (attribute, maps): the condition the caller relies on, evaluated by the model"""
        if not _gp_room(state, "post"):
            return
        _gp_fresh(state)
        mm = _gp_map(state, m)
        if mm is None or attr.get_type() is None:
            return
        state["gp"]["post"].append({"src": src, "attr": _gp_attr(state, self, attr, bool(sig)),
                                    "etype": _gp_add(state, etype), "m": mm, "sig": bool(sig), "sub": bool(sub),
                                    "mode": mode})

    def _is_signature_compatible(self, attr, etype, check_signature, subtype):
        top = fs[-1] if fs else None
        out = orig["_is_signature_compatible"](self, attr, etype, check_signature, subtype)
        if top is not None and top.get("k") == "mcd" and top["maps"] is not None:
            is_comb, tvm = out
            if tvm is None:
                top["maps"].append(None)           # answered (False, None) before the compatibility test
            else:
                m = _gp_map(state, tvm)
                if m is None:
                    top["bad"] = True
                top["maps"].append(m)
        return out

    def _get_matching_class_decls(self, etype, subtype, attr_name, signature=False):
        top = fs[-1] if fs else None
        rec = None
        if _gp_room(state, "mcd"):
            _gp_fresh(state)
            classes = []
            for c in self.context.get_classes(self.namespace).values():
                attrs = []
                for attr in self._get_class_attributes(c, attr_name):
                    if not attr.get_type():
                        attrs.append({"name": attr.name, "has_t": False})
                    else:
                        attrs.append(dict(_gp_attr(state, self, attr, bool(signature)), has_t=True))
                classes.append({"name": c.name, "attrs": attrs})
            rec = {"etype": _gp_add(state, etype), "void": _gp_add(state, self.bt_factory.get_void_type()),
                   "sub": bool(subtype), "sig": bool(signature), "self": self.namespace[-1], "classes": classes,
                   "attr_name": attr_name}
        frame = {"k": "mcd", "maps": [] if rec is not None else None, "bad": False}
        fs.append(frame)
        try:
            out = orig["_get_matching_class_decls"](self, etype, subtype=subtype, attr_name=attr_name,
                                                    signature=signature)
        finally:
            fs.pop()
        if rec is not None and not frame["bad"]:
            rec["maps"] = frame["maps"]
            rec["out"] = [[c.name, a.name, _gp_map(state, m)] for c, m, a in out]
            if all(o[2] is not None for o in rec["out"]):
                state["gp"]["mcd"].append(rec)
        if top is not None and top.get("k") == "mcls":
            top["cands"] = [[c.name, a.name] for c, m, a in out]
        return out

    def _get_matching_class(self, etype, subtype, attr_name, signature=False):
        frame = {"k": "mcls", "cands": None}
        fs.append(frame)
        try:
            out = orig["_get_matching_class"](self, etype, subtype=subtype, attr_name=attr_name, signature=signature)
        finally:
            fs.pop()
        if _gp_room(state, "mcls") and frame["cands"] is not None:
            state["gp"]["mcls"].append({
                "cands": frame["cands"], "sub": bool(subtype), "sig": bool(signature), "attr_name": attr_name,
                "out": None if out is None else [getattr(out.receiver_t, "name", None), out.attr_decl.name]})
        if out is not None:
            _post(self, "_get_matching_class:" + attr_name, out.attr_decl, etype,
                  _merge(out.receiver_inst, out.attr_inst), bool(signature), subtype, "whole")
        return out

    def _gen_matching_class(self, etype, attr_name, not_void=False, signature=False):
        fs.append(_EXPR_FRAME)
        try:
            out = orig["_gen_matching_class"](self, etype, attr_name, not_void=not_void, signature=signature)
        finally:
            fs.pop()
        if _gp_room(state, "gmc"):
            if out is None:
                state["gp_n"]["gmc_none"] = state["gp_n"].get("gmc_none", 0) + 1
            else:
                _gp_fresh(state)
                cls = self.context.get_classes(self.namespace).get(getattr(out.receiver_t, "name", None))
                m = _gp_map(state, out.receiver_inst)
                if cls is not None and m is not None:
                    state["gp"]["gmc"].append({
                        "attrs": [_gp_attr(state, self, a, bool(signature)) for a in getattr(cls, attr_name)],
                        "etype": _gp_add(state, etype), "m": m, "sig": bool(signature), "attr_name": attr_name,
                        "out": out.attr_decl.name})
        return out

    def _gen_func_call_ref(self, etype, only_leaves=False, subtype=False):
        rec = None
        if _gp_room(state, "fcr"):
            _gp_fresh(state)
            rec = {"vars": _gp_vars(state, self), "etype": _gp_add(state, etype), "sub": bool(subtype),
                   "jl": bool(self._inside_java_lambda)}
        frame = {"k": "fcr", "args": [] if rec is not None else None, "objs": None}
        fs.append(frame)
        try:
            node = orig["_gen_func_call_ref"](self, etype, only_leaves, subtype)
        finally:
            fs.pop()
        if rec is not None:
            rec["objs"] = frame["objs"]          # None: `_get_matching_objects` was not reached
            rec["out"] = None if node is None else {"name": node.func, "norecv": node.receiver is None,
                                                    "args": frame["args"], "nargs": len(node.args),
                                                    "ref": bool(node.is_ref_call)}
            if not (rec["objs"] and any(o["inst"] is None for o in rec["objs"])):
                state["gp"]["fcr"].append(rec)
        return node

    def _get_matching_function_declarations(self, etype, subtype, *rest, **kw):
        top = fs[-1] if fs else None
        fs.append(_EXPR_FRAME)
        try:
            funcs = orig["_get_matching_function_declarations"](self, etype, subtype, *rest, **kw)
        finally:
            fs.pop()
        if top is not None and top.get("k") == "fref":
            _gp_fresh(state)
            top["funcs"] = [dict(_gp_attr(state, self, f.attr_decl, True),
                                 m=_gp_map(state, _merge(f.receiver_inst, f.attr_inst)),
                                 recv=getattr(f.receiver_expr, "name", None))
                            for f in funcs]
        if top is not None and top.get("k") == "call":
            top["funcs"], top["was_empty"] = funcs, not funcs      # the list object: _gen_func_call appends to it
        signature = rest[0] if rest else kw.get("signature", False)
        for f in funcs:
            if f.receiver_expr is None:          # the others were reported by _get_matching_objects
                _post(self, "_get_matching_function_declarations", f.attr_decl, etype,
                      _merge(f.receiver_inst, f.attr_inst), bool(signature), subtype, "whole")
        return funcs

    def _gen_func_ref(self, etype, only_leaves=False):
        rec = None
        if _gp_room(state, "fref"):
            _gp_fresh(state)
            rec = {"etype": _gp_add(state, etype), "self": self.namespace[-1]}
        frame = {"k": "fref", "funcs": None}
        fs.append(frame)
        try:
            node = orig["_gen_func_ref"](self, etype, only_leaves=only_leaves)
        finally:
            fs.pop()
        if rec is not None and frame["funcs"] is not None and all(f["m"] is not None for f in frame["funcs"]):
            _gp_fresh(state)
            rec["funcs"] = frame["funcs"]
            rec["out"] = None if node is None else {
                "name": node.func, "recv": getattr(node.receiver, "name", None) if node.receiver is not None else None,
                "recv_kind": type(node.receiver).__name__, "sig": _gp_add(state, node.signature)}
            state["gp"]["fref"].append(rec)
        return node

    def _get_subclass(self, etype, subtype=True):
        top = fs[-1] if fs else None
        rec = None
        if _gp_room(state, "subclass"):
            _gp_fresh(state)
            rec = {"etype": _gp_add(state, etype), "sub": bool(subtype),
                   "tcon": _gp_add(state, getattr(etype, "t_constructor", None)),
                   "ename": getattr(etype, "name", None),
                   "classes": [{"name": c.name, "regular": c.class_type == c.REGULAR,
                                "parameterized": bool(c.is_parameterized()), "t": _gp_add(state, c.get_type())}
                               for c in self.context.get_classes(self.namespace).values()]}
        cls = orig["_get_subclass"](self, etype, subtype)
        if rec is not None:
            rec["out"] = None if cls is None else cls.name
            state["gp"]["subclass"].append(rec)
        if top is not None and top.get("k") == "new":
            top["cls"] = (cls,)
        return cls

    def gen_new(self, etype, only_leaves=False, subtype=True, sam_coercion=False):
        rec = None
        if _gp_room(state, "new"):
            _gp_fresh(state)
            fac = self.bt_factory
            rec = {"etype": _gp_add(state, etype), "ename": getattr(etype, "name", None), "sub": bool(subtype),
                   "sam": bool(sam_coercion),
                   "any": _gp_add(state, fac.get_any_type()), "void": _gp_add(state, fac.get_void_type()),
                   "black": sorted(self._blacklisted_classes), "tvnames": list(self._get_type_variable_names()),
                   "depth": self.depth}
        frame = {"k": "new", "args": [] if rec is not None else None, "cls": None, "insts": []}
        fs.append(frame)
        try:
            node = orig["gen_new"](self, etype, only_leaves=only_leaves, subtype=subtype, sam_coercion=sam_coercion)
        finally:
            fs.pop()
        if rec is not None:
            _gp_fresh(state)
            rec["reached_subclass"] = frame["cls"] is not None
            cls = frame["cls"][0] if frame["cls"] else None
            rec["cls"] = None if cls is None else {
                "name": cls.name, "t": _gp_add(state, cls.get_type()),
                "tparams": [_gp_add(state, p) for p in cls.type_parameters],
                "fields": [_gp_add(state, f.get_type()) for f in cls.fields]}
            rec["insts"] = [_gp_add(state, t) for t in frame["insts"]]
            rec["args"] = frame["args"]
            kind = type(node).__name__
            rec["out"] = {"kind": kind}
            if kind == "New":
                rec["out"]["t"] = _gp_add(state, node.class_type)
                rec["out"]["nargs"] = len(node.args)
            elif kind == "BottomConstant":
                rec["out"]["t"] = _gp_add(state, node.t)
            state["gp"]["new"].append(rec)
        return node

    def _gen_type_params_from_existing(self, func, type_var_map):
        top = fs[-1] if fs else None
        out = orig["_gen_type_params_from_existing"](self, func, type_var_map)
        if top is not None and top.get("k") == "ovr" and top["want"]:
            type_params, renaming = out
            top["tp"] = ([t.name for t in type_params], _gp_map(state, renaming))
        return out

    def gen_func_decl(self, *a, **k):
        top = fs[-1] if fs else None
        if top is not None and top.get("k") == "ovr" and top["want"] and top["decl"] is None:
            # the signature handed over by _gen_func_from_existing (before gen_func_decl works on it)
            top["decl"] = {"ret": _gp_add(state, k.get("etype")),
                           "params": [_gp_add(state, p.get_type()) for p in (k.get("params") or [])],
                           "tparams": [t.name for t in (k.get("type_params") or [])]}
        fs.append(_EXPR_FRAME)
        try:
            return orig["gen_func_decl"](self, *a, **k)
        finally:
            fs.pop()

    def _gen_func_from_existing(self, func, type_var_map, class_is_final, is_interface):
        rec = None
        if _gp_room(state, "ovr") and func.ret_type is not None:
            _gp_fresh(state)
            m = _gp_map(state, type_var_map)
            if m is not None:
                rec = {"params": [_gp_add(state, p.get_type()) for p in func.params],
                       "ret": _gp_add(state, func.ret_type), "m": m, "generic": bool(func.type_parameters)}
        frame = {"k": "ovr", "want": rec is not None, "tp": None, "decl": None}
        fs.append(frame)
        try:
            out = orig["_gen_func_from_existing"](self, func, type_var_map, class_is_final, is_interface)
        finally:
            fs.pop()
        if rec is not None and frame["tp"] is not None and frame["decl"] is not None and frame["tp"][1] is not None:
            rec["tpnames"], rec["renaming"] = frame["tp"]
            rec["out"] = frame["decl"]
            state["gp"]["ovr"].append(rec)
        return out

    def _gen_func_call(self, etype, only_leaves=False, subtype=True):
        want = _gp_room(state, "call")
        frame = {"k": "call", "args": [] if want else None, "funcs": None, "was_empty": None}
        fs.append(frame)
        try:
            node = orig["_gen_func_call"](self, etype, only_leaves, subtype)
        finally:
            fs.pop()
        if want and frame["funcs"] is not None:
            cands = [f for f in frame["funcs"] if f.attr_decl.name == node.func and f.receiver_expr is node.receiver]
            if cands and all(c.attr_decl is cands[0].attr_decl and c.receiver_inst is cands[0].receiver_inst
                             for c in cands):
                f = cands[0]
                _gp_fresh(state)
                m = _gp_map(state, f.receiver_inst)       # params_map after `.update(func_type_map)`
                args = list(frame["args"])
                if frame["was_empty"] and node.receiver is not None:
                    args = args[1:]                        # the receiver expression was generated first
                if m is not None:
                    state["gp"]["call"].append({
                        "params": [{"t": _gp_add(state, p.get_type()), "vararg": bool(p.vararg)}
                                   for p in f.attr_decl.params],
                        "m": m, "args": args, "nargs": len(node.args), "created": bool(frame["was_empty"])})
            else:
                state["gp_n"]["call_ambiguous"] = state["gp_n"].get("call_ambiguous", 0) + 1
        return node

    loc = locals()
    for n in names:
        setattr(gen_cls, n, loc[n])

    # the random instantiations made directly by gen_new are inputs of its model
    import src.ir.type_utils as tu
    o_inst = tu.instantiate_type_constructor
    state["gp_orig_inst"] = o_inst

    def instantiate_type_constructor(*a, **k):
        top = fs[-1] if fs else None
        out = o_inst(*a, **k)
        if top is not None and top.get("k") == "new":
            top["insts"].append(out[0])
        return out
    tu.instantiate_type_constructor = instantiate_type_constructor


def _cpu():
    r = resource.getrusage(resource.RUSAGE_SELF)
    return r.ru_utime + r.ru_stime


def install(state, spec):
    import src.generators.generator as G
    import pipeline
    state["raw"] = []
    state["cpu0"] = _cpu()
    cc = spec.get("cpu_cap")
    if cc:
        # the machine is shared: a wall-clock cap cuts off different programs on every run.  Cap the CPU time of the
        # program instead (same Cutoff exception as pipeline's alarm); the wall-clock alarm of pipeline.run_one stays
        # armed as a safety net (spec["cap"] is chosen generously).
        state["old_vt"] = signal.signal(signal.SIGPROF, pipeline._alarm)
        signal.setitimer(signal.ITIMER_PROF, cc)
    state["orig"] = G.functools
    G.functools = _Proxy(state)
    state["cstack"], state["vstack"], state["genvar"], state["genvar_n"] = [], [], [], 0
    state["gv_tt"] = export.TypeTable()
    state["fs"], state["gp"], state["gp_n"], state["gp_tt"] = [], {}, {}, export.TypeTable()
    _wrap_generator(state, G)


def collect(state):
    if "old_vt" in state:
        signal.setitimer(signal.ITIMER_PROF, 0)
    tt = export.TypeTable()
    folds = []
    for a, b, c, o, et, fin in state.get("raw", [])[:2000]:
        f = {"tmp": tt.add(a), "t": tt.add(b), "f": tt.add(c), "out": tt.add(o)}
        if et is not None and fin is not None:
            f["etype"], f["final"] = tt.add(et), tt.add(fin)
        folds.append(f)
    return {"tt": tt.entries, "folds": folds, "n": len(state.get("raw", [])),
            "genvar": state.get("genvar", []), "genvar_tt": state["gv_tt"].entries if "gv_tt" in state else [],
            "genvar_n": state.get("genvar_n", 0), "cpu_s": round(_cpu() - state.get("cpu0", 0), 2),
            "gp": state.get("gp", {}), "gp_n": state.get("gp_n", {}),
            "gp_tt": state["gp_tt"].entries if "gp_tt" in state else []}


def uninstall(state):
    import src.generators.generator as G
    if "old_vt" in state:
        signal.setitimer(signal.ITIMER_PROF, 0)
        signal.signal(signal.SIGPROF, state.pop("old_vt"))
    if "orig" in state:
        G.functools = state["orig"]
    if "orig_methods" in state:
        gen_cls = G.Generator
        gen_cls.gen_conditional, gen_cls.gen_variable, gen_cls.generate_expr = state.pop("orig_methods")
    for n, f in state.pop("gp_orig", {}).items():
        setattr(G.Generator, n, f)
    if "gp_orig_inst" in state:
        import src.ir.type_utils as tu
        tu.instantiate_type_constructor = state.pop("gp_orig_inst")
