"""C13 — saved programs replay faithfully (partial claim: the abstract pickle machine).

proof side : lean/Heph/Props/C13.lean — theorems about the abstract pickle machine of
             lean/Heph/Model/Pickle.lean (`dump` = the C pickler's traversal with its memo, `load` = the
             unpickler's VM, `Iso` = order-preserving graph isomorphism of rooted heaps).  The table of classes
             whose `__hash__`/`__eq__` read attributes is regenerated from src/ir/*.py on every run
             (harness/regen_c13.py, cross-checked against introspection of the imported classes).
tie to code: for every explored live object graph (programs at the stages gen / erase / overwrite of real pipeline
             runs, plus a hand-made corpus built from the real IR classes), harness/c13_plugin.py
               (1) Lean `dump` of the exported heap == the canonical op-codes of the real pickle, element-wise
               (2) Lean `load` of the real op-codes ~= the heap exported from the real `load_program` result,
                   and ~= the original heap
               (3) exported heap of p ~= exported heap of q (Lean isoCheck and a Python reference checker)
               (4) `noKeyCycle` holds and the VM hashes no unbuilt instance
             and judges the property on the real code alone (the repo's own dump_program / load_program on a
             temporary file), under the harness's reproducible node hash AND under CPython's identity hash:
               (5) four translators byte-identical on p and q, (6) by-value exports equal, (7) re-dump byte-identical,
               (8) `_namespaces` look-ups work, (9) TypeErasure / TypeOverwriting on deep copies with the same seed
                   give equal results.
             (10) --replay through the driver (harness/proc_lib.py): the REAL `ProgramProcessor.get_program` and the REAL
                  `hephaestus.gen_program` run 1–3 iterations in one process on a stored program, (a) with SCRIPTED
                  transformers that mutate their program in place / return copies / transform nothing, every pattern up
                  to a small length plus random ones, compared field by field (start program, step counts, every saved
                  file) with lean/Heph/Model/Processor.lean (`proc.run`; theorems `replay_iteration_start`,
                  `replay_start_faithful`, `replay_cached_counterexample`), and (b) end to end with the real TypeErasure
                  and TypeOverwriting on generated programs dumped with the tool's own `dump_program`; judged directly:
                  every iteration starts from a program equal to the stored one (marks / source text saved by
                  --keep-all equal to the translation of the in-memory original) and is a new object; with the same RNG
                  seed every iteration yields the same correct and incorrect program.
failing input: (5)–(9) are judged on the real code alone, so a difference IS the failing input (generator replay
             (lang, seed, switches, depth), stage, hash leg, what differs).  If only (1)–(4) break, every explored
             program has been judged by (5)–(9) already; nothing found -> `no-failing-input-found` naming the
             correspondence."""
import multiprocessing
import os
import pickle
import time

import common
import pipeline
import regen_c13

LEVEL = "proof"
INCOHERENT_SIG = "dict-key-mutated-after-insertion:%s"
PLUGIN = "c13_plugin"
STAGES = ["gen", "erase", "overwrite"]
LANGS = pipeline.LANGS
MODELLED_OPS = {"PROTO", "FRAME", "NONE", "NEWTRUE", "NEWFALSE", "BININT", "BININT1", "BININT2", "LONG1", "LONG4",
                "BINFLOAT", "SHORT_BINUNICODE", "BINUNICODE", "BINUNICODE8", "MARK", "EMPTY_TUPLE", "TUPLE1", "TUPLE2",
                "TUPLE3", "TUPLE", "EMPTY_LIST", "APPEND", "APPENDS", "EMPTY_DICT", "SETITEM", "SETITEMS", "EMPTY_SET",
                "ADDITEMS", "FROZENSET", "STACK_GLOBAL", "NEWOBJ", "REDUCE", "BUILD", "MEMOIZE", "BINGET",
                "LONG_BINGET", "POP", "POP_MARK", "STOP"}


# ------------------------------------------------------------------ specs
def make_specs(rng, n, cap, depths, full=False):
    specs = []
    for i in range(n):
        lang = LANGS[i % 4]
        switches = tuple(int(rng.random() < 0.25) for _ in range(4))
        specs.append({"lang": lang, "seed": rng.randrange(1, 1 << 30), "switches": switches,
                      "max_depth": rng.choice(depths), "stages": list(STAGES), "export": False,
                      "plugins": [PLUGIN], "cap": cap, "c13_full": full})
    return specs


def replay_of(spec, stage=None, **kw):
    r = {"lang": spec["lang"], "seed": spec["seed"], "switches": list(spec["switches"]),
         "max_depth": spec["max_depth"]}
    if stage is not None:
        r["stage"] = stage
    r.update(kw)
    return r


# ------------------------------------------------------------------ judging one battery result
def judge(run, where, c13, found, model_broken):
    """`where`: replay dict (generator replay + stage, or corpus item).  Direct differences are violations;
    model differences are collected in `model_broken`."""
    if "unsupported" in c13:
        run.tally("unsupported", c13["unsupported"][:80])
    s = c13.get("summary", {})
    for k, v in (s.get("opnames") or {}).items():
        run.cov["opcodes_seen"][k] = run.cov["opcodes_seen"].get(k, 0) + v
    for k, v in (s.get("kinds") or {}).items():
        run.cov["object_kinds_seen"][k] = run.cov["object_kinds_seen"].get(k, 0) + v
    for k in s.get("classes") or []:
        run.cov["classes_seen"].add(k)
    run.cov["objects_total"] += s.get("objects", 0)
    run.cov["opcodes_total"] += s.get("ops", 0)
    run.cov["largest_container_note"] = "batches of 1000 are exercised by the hand-made corpus"
    bad = False
    inco = s.get("incoherent") or []
    if inco:
        run.tally("programs_with_a_dict_key_mutated_after_insertion", ",".join(sorted({x.get("key_class", "?") for x in inco})))
    for d in c13.get("diffs", []):
        bad = True
        leg = d["leg"]
        sig = "%s:%s" % (leg.split(":")[0] if leg.startswith("roundtrip") else leg, d.get("hash", ""))
        if inco and leg in ("redump", "lookups", "redump-under-identity-hash"):
            # the live program holds a dict with a key that was mutated after its insertion (equal to another key
            # now, or stored under a stale hash); load re-inserts the keys one by one, so q's dict differs
            sig = INCOHERENT_SIG % ",".join(sorted({x.get("key_class", "?") for x in inco}))
            d = dict(d, incoherent_dicts=inco[:3])
        if leg.startswith("mutation") and d.get("control_two_copies_of_p_differ"):
            sig = "mutation-not-reproducible-on-copies:%s" % leg.split(":")[1]
        if sig not in found:
            found.add(sig)
            run.violation(dict(where, kind="failing-input", leg=leg, hash_leg=d.get("hash"), detail=d.get("detail"),
                               incoherent_dicts=d.get("incoherent_dicts"),
                               control=d.get("control_two_copies_of_p_differ"),
                               note="p = the live program, q = utils.load_program(utils.dump_program(p)); the real "
                                    "code distinguishes them"), signature=sig)
    if s.get("py_iso") is not None and not inco:
        # the Python reference checker alone (no model involved): the graph read back differs from the one saved
        bad = True
        sig = "rebuilt-graph-differs"
        if sig not in found:
            found.add(sig)
            run.violation(dict(where, kind="failing-input", leg="graph", detail=s["py_iso"],
                               note="the object graph of q = load_program(dump_program(p)) is not isomorphic to p's "
                                    "(kinds, strings, attribute values, container order, sharing); judged by "
                                    "export_heap.iso on the two live graphs"), signature=sig)
    for d in c13.get("model_diffs", []):
        if inco and d["leg"] in ("load-iso-real-q", "heap-p-iso-heap-q"):
            # outside the model's precondition (keys of a dict pairwise distinct): Python's SETITEM replaces
            run.tally("model_legs_outside_precondition_distinct_keys", d["leg"])
            continue
        model_broken.append((where, d))
    if "model_diffs" in c13:
        run.cov["traces_validated_against_impl"] += 1
    return bad


def report_model(run, model_broken, direct_found):
    seen = set()
    for where, d in model_broken:
        sig = "model-differs:" + d["leg"]
        if sig in seen:
            continue
        seen.add(sig)
        run.log("correspondence breaks: %s at %s: %s" % (d["leg"], common.canon(where)[:200], common.canon(d["detail"])[:300]))
        if not direct_found:
            run.violation(dict(where, kind="broken-correspondence", leg=d["leg"], detail=d["detail"],
                               note="the abstract pickle machine and CPython differ on this object graph (or the "
                                    "proviso of keys_ready fails); on every explored program the real code still "
                                    "treats p and q alike (translations, exports, re-dump, look-ups, mutations)"),
                          signature=sig, no_input=True)


# ------------------------------------------------------------------ hand-made corpus (real IR classes)
def corpus_items():
    """(name, builder) — builder returns (root object, language or None, expectation)
    expectation: "ok" | "load-raises" (the witnesses of keys_ready_counterexample)"""
    from src.ir import types as tp, ast, kotlin_types as kt, java_types as jt, context as ctx
    items = []

    def shared_types():
        t = kt.String
        con = tp.TypeConstructor("Box", [tp.TypeParameter("T")])
        a = con.new([t])
        b = con.new([t])
        return [a, a, b, (a, b, t, con), [t, [t]], {"x": a, "y": a}]
    items.append(("shared-type-objects", shared_types, "ok"))

    def recursive_bound():
        T = tp.TypeParameter("T")
        comparable = tp.TypeConstructor("Comparable", [tp.TypeParameter("U")])
        T.bound = comparable.new([T])
        return [T, T.bound]
    items.append(("recursive-bound T : Comparable<T>", recursive_bound, "ok"))

    def context_keys():
        c = ctx.Context()
        comparable = tp.TypeConstructor("Comparable", [tp.TypeParameter("U")])
        T = tp.TypeParameter("T", bound=comparable.new([kt.String]))
        f = ast.FieldDeclaration("f", tp.SimpleClassifier("A"))
        cls = ast.ClassDeclaration("A", [], fields=[f], functions=[], type_parameters=[T])
        c.add_class(ast.GLOBAL_NAMESPACE, "A", cls)
        c.add_type(ast.GLOBAL_NAMESPACE + ("A",), "T", T)
        c.add_var(ast.GLOBAL_NAMESPACE + ("A",), "f", f)
        return ast.Program(c, "kotlin")
    items.append(("program: Context._namespaces keyed by declarations and a bounded type parameter; field type names "
                  "the class (the by-value program export cannot follow an F-bounded parameter: that graph is a "
                  "separate item)", context_keys, "ok"))

    def context_recursive():
        c = ctx.Context()
        T = tp.TypeParameter("T")
        comparable = tp.TypeConstructor("Comparable", [tp.TypeParameter("U")])
        T.bound = comparable.new([T])
        cls = ast.ClassDeclaration("A", [], fields=[], functions=[], type_parameters=[T])
        c.add_class(ast.GLOBAL_NAMESPACE, "A", cls)
        c.add_type(ast.GLOBAL_NAMESPACE + ("A",), "T", T)
        return [c, cls]
    items.append(("Context._namespaces keyed by an F-bounded type parameter T : Comparable<T>", context_recursive, "ok"))

    def node_key_cycle():
        f = ast.FieldDeclaration("f", kt.String)
        f.cache = {f: 1, "self": f}
        return f
    items.append(("identity-hashed node that is a key of a dict reachable from itself", node_key_cycle, "ok"))

    def big_containers():
        xs = [kt.String] * 1001
        d = {i: None for i in range(2000)}
        from collections import OrderedDict
        od = OrderedDict((str(i), i) for i in range(1001))
        return [xs, d, od, list(range(1000)), {i: i for i in range(1001)}, {"single": 1}, [7],
                OrderedDict(), OrderedDict(a=1), (1, 2, 3, 4, 5), -5, 2 ** 70, 1.5, "x" * 300, set(), (),
                set(range(1000)), {"a"}, {3, 1, 2}, frozenset([1, 2, 3]), frozenset(), set(range(1001))]
    items.append(("batches: containers of 1000 / 1001 / 2000 elements, OrderedDict, long tuple, big int, float",
                  big_containers, "ok"))

    def tuple_cycle():
        l = []
        t = (l, 1)
        l.append(t)
        t4 = (l, t, 3, 4)
        l.append(t4)
        return [t, t4, l]
    items.append(("tuples reachable from their own elements (POP / POP_MARK repair)", tuple_cycle, "ok"))

    def tuple4_cycle_root():
        l = []
        t4 = (l, 1, 2, 3)
        l.append(t4)
        fz_holder = []
        return [t4, fz_holder]
    items.append(("a 4-tuple root inside its own list (POP_MARK repair)", tuple4_cycle_root, "ok"))

    def tuple_cycle_root():
        l = []
        t = (l, 1)
        l.append(t)
        return t
    items.append(("a tuple root inside its own list", tuple_cycle_root, "ok"))

    def key_cycle_typeparam():
        T = tp.TypeParameter("T")
        T.cache = {T: None}
        return T
    items.append(("WITNESS keys_ready_counterexample: TypeParameter that is a key of a dict in its own __dict__",
                  key_cycle_typeparam, "load-raises"))

    def key_cycle_deep():
        T = tp.TypeParameter("T")
        comparable = tp.TypeConstructor("Comparable", [tp.TypeParameter("U")])
        pt = comparable.new([T])
        T.cache = {pt: None}
        return T
    items.append(("WITNESS deep key cycle: dict keyed by Comparable<T> inside T's __dict__ (the key is BUILT, its hash "
                  "reads the unbuilt T)", key_cycle_deep, "load-raises"))
    return items


def run_corpus(run, found, model_broken):
    """the corpus runs under CPython's identity hash for nodes, as in the real tool (the harness's reproducible
    `Node.__hash__` reads `__dict__`, so it would itself be a hash-reading class inside a key cycle)"""
    import c13_plugin
    with c13_plugin.RealHash():
        _run_corpus(run, found, model_broken)


def _run_corpus(run, found, model_broken):
    import c13_plugin
    import export_heap as eh
    cases, rq = [], []
    for name, build, expect in corpus_items():
        obj = build()
        data = pickle.dumps(obj)
        hp = eh.export_heap(obj)
        ops = eh.ops_of_pickle(data, run.cov["opcodes_seen"])
        try:
            q, raised = pickle.loads(data), None
        except Exception as e:  # noqa: BLE001
            q, raised = None, type(e).__name__
        hq = eh.export_heap(q) if raised is None else hp
        cases.append((name, expect, obj, data, hp, ops, q, raised, hq, len(rq)))
        rq += [{"op": "pickle.check", "p": hp, "q": hq, "ops": ops}, {"op": "pickle.canon", "heap": hp},
               {"op": "pickle.load", "ops": ops}]
    ans = common.run_driver(rq)
    for a in ans:
        if "error" in a:
            raise common.HarnessError("driver (corpus): %s" % a["error"])
    for (name, expect, obj, data, hp, ops, q, raised, hq, off) in cases:
        where = {"corpus": name}
        run.count({"corpus": name})
        run.tally("corpus", expect)
        run.cov["traces_validated_against_impl"] += 1
        r, canon_p, loaded = ans[off]["r"], ans[off + 1]["r"], ans[off + 2]["r"]
        if not (isinstance(r["dump"], dict) and r["dump"].get("equal")):
            model_broken.append((where, {"leg": "dump-opcodes", "detail": r["dump"]}))
        if r["iso_load_p"] is not True:
            model_broken.append((where, {"leg": "load-iso-original", "detail": r["iso_load_p"]}))
        if r.get("all_visited") is not True:
            model_broken.append((where, {"leg": "redump-proviso-all-cells-visited", "detail": r.get("all_visited")}))
        if canon_p != loaded:
            model_broken.append((where, {"leg": "canonical-numbering-of-load-differs", "detail": "canon(heap) != load(ops)"}))
        rec = {"nokeycycle": r["nokeycycle"], "unready": r["unready"], "real_load": raised or "ok"}
        run.cov["corpus_results"][name[:60]] = rec
        if expect == "load-raises":
            # the witnesses: model says the proviso fails and a key is hashed unbuilt; the real loads must raise
            if r["nokeycycle"] is not False or not (isinstance(r["unready"], int) and r["unready"] >= 1) \
                    or raised != "AttributeError":
                run.violation(dict(where, kind="broken-correspondence", detail=rec,
                                   note="the witness of keys_ready_counterexample behaves differently on the real "
                                        "code: expected noKeyCycle = false, unready >= 1, pickle.loads raising "
                                        "AttributeError"),
                              signature="witness:keys_ready_counterexample", no_input=True)
            continue
        if raised is not None:
            run.violation(dict(where, kind="failing-input", detail=rec, note="pickle.loads raises on a corpus graph"),
                          signature="corpus-load-raises:" + raised)
            continue
        if r["nokeycycle"] is not True or r["unready"] != 0:
            model_broken.append((where, {"leg": "nokeycycle/unready", "detail": rec}))
        py = eh.iso(hp, hq)
        if py is not None:
            # judged by the Python reference alone: the real round trip changed the graph
            run.violation(dict(where, kind="failing-input", detail=py,
                               note="exported graph of pickle.loads(pickle.dumps(x)) is not isomorphic to x's"),
                          signature="corpus-graph-differs")
        elif r["iso_p_q"] is not True:
            model_broken.append((where, {"leg": "heap-p-iso-heap-q", "detail": {"lean": r["iso_p_q"], "python": py}}))
        if r["iso_load_q"] is not True:
            model_broken.append((where, {"leg": "load-iso-real-q", "detail": r["iso_load_q"]}))
        if pickle.dumps(q) != data:
            run.violation(dict(where, kind="failing-input", note="pickle.dumps(q) differs from pickle.dumps(p)"),
                          signature="corpus-redump-differs")
        if hasattr(obj, "context") and hasattr(obj, "language"):
            c13 = c13_plugin.battery(obj, obj.language, legs=("A",))
            judge(run, where, c13, found, model_broken)
        if name.startswith("identity-hashed node"):
            if q.cache.get(q) != 1 or q.cache["self"] is not q:
                run.violation(dict(where, kind="failing-input", note="q.cache[q] is lost after the round trip"),
                              signature="corpus-node-key-lookup")


# ------------------------------------------------------------------ pipeline stream
def stream_results(specs, deadline, workers):
    if len(specs) <= 2:
        for s in specs:
            yield s, pipeline.run_one(s)
        return
    ctx = multiprocessing.get_context("fork")
    pool = ctx.Pool(workers, initializer=pipeline._worker_init, maxtasksperchild=25)
    try:
        it = pool.imap_unordered(pipeline.run_one, specs, chunksize=1)
        for _ in specs:
            left = deadline - time.time()
            if left <= 0:
                return
            try:
                r = it.next(timeout=left)
            except multiprocessing.TimeoutError:
                return
            yield r["spec"], r
    finally:
        pool.terminate()
        pool.join()


def run_stream(run, specs, found, model_broken, label, budget_s=10 ** 6):
    workers = min(12, max(2, (os.cpu_count() or 4) - 4))
    done, direct_bad = 0, 0
    for spec, r in stream_results(specs, time.time() + budget_s, workers):
        done += 1
        if "cutoff" in r:
            run.tally("pipeline_cutoff", r["cutoff"])
        if "exception" in r:
            run.tally("pipeline_exception", r["exception"]["stage"] + ":" + r["exception"]["type"])
        pl = (r.get("plugins") or {}).get(PLUGIN) or {}
        if "error" in pl:
            raise common.HarnessError("plugin: " + pl["error"])
        for stage in STAGES:
            st = r["stages"].get(stage)
            if st is None or "c13" not in st:
                continue
            c13 = st["c13"]
            run.count(replay_of(spec, stage), nontrivial=c13.get("summary", {}).get("objects", 0) > 50)
            run.tally("stages", stage)
            run.tally("program_language", spec["lang"])
            if st.get("is_transformed") is not None:
                run.tally("stage_transformed", "%s:%s" % (stage, st["is_transformed"]))
            if judge(run, replay_of(spec, stage), c13, found, model_broken):
                direct_bad += 1
    run.cov["programs_done_within_budget"] = run.cov.get("programs_done_within_budget", 0) + done
    run.log("%s: %d of %d programs within the budget, %d model differences, %d stages with a direct failure"
            % (label, done, len(specs), len(model_broken), direct_bad))
    return direct_bad


# ------------------------------------------------------------------ --replay through the driver (10)
REPLAY_NOTE = ("C13: with --replay, every iteration has to start from the program stored in the .bin, whatever earlier "
               "iterations of the same process did to the object they were given")


def replay_driver_stream(run, quick, only_case=None):
    """(a) scripted transformers vs the model and direct judges; (b) the real transformations end to end"""
    import proc_lib
    real = proc_lib.Real()
    try:
        if only_case is not None:
            cases = [only_case]
        else:
            cases = proc_lib.exhaustive_cases(replay_only=True) + proc_lib.random_cases(run.rng, 120 if quick else 3000,
                                                                                        replay_only=True)
        direct, diffs = proc_lib.stream(run, real, cases, "replay", REPLAY_NOTE)
        run.cov["replay_driver_cases"] = len(cases)
        if only_case is None:
            direct += replay_e2e(run, real, quick)
    finally:
        real.close()
    if diffs:
        run.log("correspondence breaks: ProgramProcessor / gen_program vs Model/Processor.lean:", common.canon(diffs[0])[:600])
        if not direct:
            run.violation({"kind": "broken-correspondence", "leg": "processor-model", "replay": "processor",
                           "case": diffs[0]["case"], "detail": diffs[:2],
                           "note": "the model of ProgramProcessor and of the loops of hephaestus.py differs from the real "
                                   "code; every explored replay still starts from the stored program"},
                          signature="model-differs:processor", no_input=True)
    return direct


def replay_e2e(run, real, quick):
    import proc_lib
    bad = 0
    n = 6 if quick else 60
    t_end = time.time() + (25 if quick else 600)
    for i in range(n):
        if time.time() > t_end:
            break
        lang = LANGS[i % 4]
        seed = run.rng.randrange(1, 1 << 30)
        md = 3 if quick else run.rng.choice([3, 4, 5])
        program = pipeline.generate(lang, seed, (0, 0, 0, 0), md)
        rseed = run.rng.randrange(1, 1 << 30)
        o = proc_lib.e2e_replay(real, program, lang, 3, rseed)
        where = {"replay": "e2e", "lang": lang, "seed": seed, "switches": [0, 0, 0, 0], "max_depth": md, "rseed": rseed}
        run.count(dict(where, kind="replay-e2e"))
        run.tally("replay_e2e", "programs")
        problems = []
        if o["nonterminating"]:
            problems.append(("replay-e2e:nonterminating", o["nonterminating"]))
        its = o["iterations"]
        for it in its:
            run.tally("replay_e2e", "iterations")
            if it["failed"]:
                run.tally("replay_e2e", "iteration-failed-internally")
            if it["start"] is not None and it["start"] != o["original"]:
                problems.append(("replay:start-differs-from-stored", {"iteration": it["pid"], "what": "the initial program "
                                 "saved by --keep-all differs from the translation of the in-memory original",
                                 "first_difference": first_diff(o["original"], it["start"])}))
            if it["start_obj_reused"]:
                problems.append(("replay:object-reused", {"iteration": it["pid"]}))
        ok = [it for it in its if not it["failed"]]
        for key in ("correct", "incorrect"):
            texts = {it[key] for it in ok}
            if len(texts) > 1:
                problems.append(("replay:iterations-differ:" + key, {"what": "the same stored program and RNG seed give different "
                                 "%s programs in different iterations" % key,
                                 "first_difference": first_diff(ok[0][key] or "", next(it[key] for it in ok if it[key] != ok[0][key]) or "")}))
        if any(it["transformations"] for it in ok):
            run.tally("replay_e2e", "programs-with-an-erasure-step")
        seen = run.cov.setdefault("processor_failures_by_signature", {})
        for sig, detail in problems:
            bad += 1
            seen[sig] = seen.get(sig, 0) + 1
            if seen[sig] <= 1:
                run.violation(dict(where, kind="failing-input", leg=sig, detail=detail, note=REPLAY_NOTE), signature=sig)
    return bad


def first_diff(a, b):
    a, b = a or "", b or ""
    i = next((k for k, (x, y) in enumerate(zip(a, b)) if x != y), min(len(a), len(b)))
    return {"offset": i, "original": a[max(0, i - 60):i + 60], "other": b[max(0, i - 60):i + 60]}


def init_cov(run):
    run.cov["opcodes_seen"] = {}
    run.cov["object_kinds_seen"] = {}
    run.cov["classes_seen"] = set()
    run.cov["objects_total"] = 0
    run.cov["opcodes_total"] = 0
    run.cov["corpus_results"] = {}


def finish_cov(run):
    run.cov["classes_seen"] = sorted(run.cov["classes_seen"])
    extra = sorted(set(run.cov["opcodes_seen"]) - MODELLED_OPS)
    run.cov["opcodes_outside_model"] = extra
    if extra:
        raise common.HarnessError("op-codes outside the modelled subset occurred: %s" % extra)
    if run.cov.get("unsupported"):
        raise common.HarnessError("object shapes outside the model occurred: %s" % run.cov["unsupported"])


def regen_and_crosscheck(run):
    regen = regen_c13.regen()
    mine = sorted((x["module"], x["name"], x["hash_reads"], x["eq_reads"], x["hashable"]) for x in regen["rows"])
    lv = regen_c13.live()
    run.cov["class_table_regenerated"] = {
        "files": regen["files"], "classes": len(mine),
        "hash_or_eq_reads_self": sorted("%s.%s" % (m, n) for (m, n, h, e, _) in mine if h or e),
        "unhashable": sorted("%s.%s" % (m, n) for (m, n, _, _, ok) in mine if not ok),
        "agrees_with_introspection": mine == lv}
    if mine != lv:
        raise common.HarnessError("regen_c13: syntactic table and introspection differ: %s"
                                  % ([a for a in mine if a not in lv] + [a for a in lv if a not in mine])[:4])
    a = common.run_driver([{"op": "pickle.hashreads"}])[0]
    if "error" not in a and sorted((m, n, h, e) for (m, n, h, e) in a["r"]) != sorted(x[:4] for x in mine):
        raise common.HarnessError("the driver was not rebuilt with the regenerated class table")


def check(run):
    pipeline.setup()
    init_cov(run)
    regen_c13.regen()
    proofs_ok = run.build_and_audit()
    regen_and_crosscheck(run)
    quick = run.tier == "quick"
    found, model_broken = set(), []
    run_corpus(run, found, model_broken)
    t_rep = time.time()
    replay_direct = replay_driver_stream(run, quick)
    t_rep = time.time() - t_rep
    run.cov["replay_driver_wall_s"] = round(t_rep, 1)
    nprog, cap, budget = (32, 60, 100) if quick else (600, 150, 1500)
    if quick:
        budget = max(45, budget - t_rep)      # the quick tier keeps its wall-clock size
    depths = [3, 3, 3, 4, 4] if quick else [4, 5, 5, 6, 6, 7]
    specs = make_specs(run.rng, nprog, cap, depths, full=not quick)
    direct_bad = run_stream(run, specs, found, model_broken, "pipeline stream", budget)
    run.cov["programs"] = nprog
    run.cov["stream_budget_s"] = budget
    run.cov["exhaustive"] = False
    run.cov["protocol"] = pickle.DEFAULT_PROTOCOL
    run.cov["rule"] = (
        "case = one live object graph: (generator replay (lang, seed, switches, max_depth), stage in gen/erase/overwrite) "
        "or a hand-made corpus graph built from the real IR classes; for each case: model op-codes == real op-codes, "
        "model load ~= real load ~= original (graph isomorphism), noKeyCycle and no unbuilt key, and on the real code "
        "under the harness hash and under the identity hash: 4 translations, by-value export, re-dump bytes, "
        "_namespaces look-ups, TypeErasure and TypeOverwriting on deep copies with one seed; non-trivial = more "
        "than 50 heap objects; distinct by replay tuple")
    finish_cov(run)
    if model_broken:
        report_model(run, model_broken, bool(direct_bad) or bool(replay_direct) or bool(run.violations))
    if not proofs_ok and not run.violations:
        run.violation({"kind": "broken-proof", "obligations": run.broken,
                       "note": "no explored program or corpus graph is treated differently by the real code"},
                      signature="proof", no_input=True)


def replay(run, rp):
    pipeline.setup()
    init_cov(run)
    found, model_broken = set(), []
    if rp.get("replay") == "processor":
        replay_driver_stream(run, True, only_case=rp["case"])
        run.cov["rule"] = "replay of one scripted --replay case through the real ProgramProcessor / gen_program"
        return
    if rp.get("replay") == "e2e":
        import proc_lib
        real = proc_lib.Real()
        try:
            program = pipeline.generate(rp["lang"], rp["seed"], tuple(rp["switches"]), rp["max_depth"])
            o = proc_lib.e2e_replay(real, program, rp["lang"], 3, rp["rseed"])
        finally:
            real.close()
        for it in o["iterations"]:
            if it["start"] is not None and it["start"] != o["original"]:
                run.violation(dict(rp, kind="failing-input", detail=first_diff(o["original"], it["start"])),
                              signature="replay:start-differs-from-stored")
                break
        run.cov["rule"] = "replay of one end-to-end --replay run (3 iterations, real transformations)"
        return
    if "corpus" in rp:
        run_corpus(run, found, model_broken)
        run.cov["rule"] = "replay of the hand-made corpus"
    else:
        spec = {"lang": rp["lang"], "seed": rp["seed"], "switches": tuple(rp["switches"]),
                "max_depth": rp["max_depth"], "stages": list(STAGES), "export": False, "plugins": [PLUGIN], "cap": 600,
                "c13_full": True}
        run_stream(run, [spec], found, model_broken, "replay")
        run.cov["rule"] = "replay of one generator run (all stages, all legs)"
    finish_cov(run)
    if model_broken:
        report_model(run, model_broken, bool(run.violations))
