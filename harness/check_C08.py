"""C08 — instantiation helpers pick type arguments within bounds and allowed variance (partial).

proof side : lean/Heph/Props/C08.lean — argVariance_spec (+ corollaries), availableTypes_spec,
             updateBoundRec_chain, instOK_sound (the executable result checker implies the declarative
             WithinBounds through the soundness of the declarative decider isSubD w.r.t. SubT),
             instOK_args / instOK_projection / instOK_kept, projAllowed_*.
tie to code: (1) exact correspondence of the leaf functions: `_get_type_arg_variance` (exhaustive input
             classes, observed answer set over many RNG seeds == candidate list; and with real
             `other_type_params` over random class tables, including `has_bound_of` and its error kinds),
             `_get_available_types`, `update_type_var_bound_rec` (both mutated containers compared by value);
             (2) refinement: every (arguments, result) of `_compute_type_variable_assignments` reached through
             `instantiate_type_constructor` / `instantiate_parameterized_function` — driven directly on
             synthetic declarations (bounded, mutually dependent, variant parameters; partial pre-assignments;
             all kinds of variance-choice maps; the four switch settings) and recorded from real generator runs
             (plug_c08) — must satisfy `inst.ok`;
             (3) the code's results are also judged by an independent Python judge on the real objects
             (inst_lib.py_judge: counts, primitives, bounds via refsub).
failing    : a recorded call whose result `inst.ok` rejects (replay = the exported request), or a leaf
input        function answer outside its specification.
"""
import copy

import common
import export
import gen_types
import inst_lib
import pipeline
import check_C17

LEVEL = "proof"


def call(f):
    try:
        return f()
    except Exception as e:
        return type(e).__name__


PER_SIGNATURE = 3


def report(run, obj, signature):
    """at most PER_SIGNATURE replays per shape signature; the rest is only counted"""
    n = run.cov.setdefault("flagged_by_signature", {})
    n[signature] = n.get(signature, 0) + 1
    if n[signature] <= PER_SIGNATURE:
        run.violation(obj, signature=signature)


def set_dis(dis):
    from src.generators.config import cfg
    old = (cfg.dis.use_site_variance, cfg.dis.use_site_contravariance)
    cfg.dis.use_site_variance, cfg.dis.use_site_contravariance = bool(dis[0]), bool(dis[1])
    return old


# =====================================================================================
# (1a) _get_type_arg_variance with real other_type_params, has_bound_of
# =====================================================================================
def stream_has_bound_of(run, ntables):
    import src.ir.types as tp
    import src.ir.type_utils as tu
    from src import utils
    rng = run.rng
    rq_h, ia_h, rq_v, meta_v = [], [], [], []
    nseeds = 24
    for _ in range(ntables):
        tb = gen_types.Table(rng, pbound=0.6, maxparams=4)
        scope = tb.scope_vars()
        for con in tb.cons:
            ps = list(con.type_parameters)
            # has_bound_of on every ordered pair (+ a few foreign variables)
            for p in ps:
                for q in ps + scope[-2:]:
                    tt = export.TypeTable()
                    rq = {"op": "inst.has_bound_of", "self": tt.add(p), "other": tt.add(q)}
                    rq["tt"] = tt.entries
                    rq_h.append(rq)
                    ia_h.append(call(lambda: bool(p.has_bound_of(q))))
            for i, p in enumerate(ps):
                others = ps[i + 1:]
                for dis in [(0, 0), (0, 1), (1, 0)]:
                    vcs = [None, {}, {p: (rng.random() < 0.5, rng.random() < 0.5)}]
                    vc = rng.choice(vcs)
                    old = set_dis(dis)
                    seen = set()
                    try:
                        for s in range(nseeds):
                            utils.random.r.seed(s)
                            a = call(lambda: tu._get_type_arg_variance(p, vc, others))
                            seen.add(a if isinstance(a, str) else export.VAR(a))
                    finally:
                        set_dis(old)
                    tt = export.TypeTable()
                    rq = {"op": "inst.arg_variance_p", "dis": list(dis), "tparam": tt.add(p),
                          "vc": inst_lib.vc_export(tt, vc), "others": [tt.add(o) for o in others]}
                    rq["tt"] = tt.entries
                    rq_v.append(rq)
                    meta_v.append(seen)
    # malformed: a bound whose type arguments mention an unbounded variable with a parameterized bound chain
    # (has_bound_of passes factory=None down to to_type_variable_free)
    for _ in range(max(4, ntables // 4)):
        tb = gen_types.Table(rng, pbound=0.9, maxparams=3, nclasses=4)
        if not tb.cons:
            continue
        c1 = rng.choice(tb.cons)
        inner = tp.TypeParameter("U")
        mid = tp.TypeParameter("M", bound=c1.new([inner for _ in c1.type_parameters]))
        outer = tp.TypeParameter("O", bound=c1.new([mid for _ in c1.type_parameters]))
        for (a, b) in [(outer, mid), (outer, inner), (mid, inner), (mid, outer)]:
            tt = export.TypeTable()
            rq = {"op": "inst.has_bound_of", "self": tt.add(a), "other": tt.add(b)}
            rq["tt"] = tt.entries
            rq_h.append(rq)
            ia_h.append(call(lambda: bool(a.has_bound_of(b))))
    d1 = common.compare_stream(run, rq_h, ia_h, "has_bound_of",
                               nontrivial=lambda rq, ia: ia is not False)
    for ia in ia_h:
        run.tally("has_bound_of_answers", str(ia))
    answers = common.run_driver(rq_v)
    d2 = []
    for rq, seen, a in zip(rq_v, meta_v, answers):
        if "error" in a:
            raise common.HarnessError("inst.arg_variance_p: %s" % a["error"])
        m = a["r"]
        mset = set(m) if isinstance(m, list) else {m}
        run.count({"stream": "arg_variance_p", "model": m, "observed": sorted(map(str, seen))}, nontrivial=len(mset) > 1)
        run.cov["traces_validated_against_impl"] += 1
        run.tally("ops", "inst.arg_variance_p")
        if mset != seen:
            d2.append((rq, sorted(map(str, seen)), m))
    if d1 or d2:
        run.broken.append({"obligation": "correspondence has_bound_of / _get_type_arg_variance with real parameters",
                           "detail": [common.canon(x)[:300] for x in (d1[:2] + d2[:2])]})
        for rq, seen, m in d2[:3]:
            run.log("arg_variance_p differs: observed=%s model=%s" % (seen, m))
    run.log("has_bound_of: %d pairs (%d differ); _get_type_arg_variance with real parameters: %d calls x %d seeds (%d differ)"
            % (len(rq_h), len(d1), len(rq_v), nseeds, len(d2)))


# =====================================================================================
# (1b) _get_available_types
# =====================================================================================
def export_item(tt, x):
    import src.ir.ast as ast
    if isinstance(x, ast.ClassDeclaration):
        return {"k": "cls", "ct": int(x.class_type), "t": tt.add(x.get_type())}
    return {"k": "ty", "t": tt.add(x), "box": tt.add(x.box_type()) if hasattr(x, "box_type") else None}


def stream_available_types(run, ntables):
    import src.ir.ast as ast
    import src.ir.types as tp
    import src.ir.type_utils as tu
    rng = run.rng
    rqs, judged = [], 0
    spec_bad = []
    for _ in range(ntables):
        tb = gen_types.Table(rng)
        scope = tb.scope_vars()
        pool = list(tb.builtins) + list(tb.simple) + list(tb.cons) + list(tb.builtin_cons) + list(scope)
        pool += [tb.ground(2, True, tuple(scope)) for _ in range(4)]
        for c in tb.cons[:3]:
            for ct in (ast.ClassDeclaration.REGULAR, ast.ClassDeclaration.INTERFACE, ast.ClassDeclaration.ABSTRACT):
                pool.append(ast.ClassDeclaration(c.name, [], ct, fields=[], functions=[],
                                                 type_parameters=list(c.type_parameters)))
        for s in tb.simple[:3]:
            pool.append(ast.ClassDeclaration(s.name, [], rng.choice([0, 1, 2]), fields=[], functions=[]))
        arr = tb.bt.get_array_type() if hasattr(tb.bt, "get_array_type") else None
        for _k in range(6):
            types = rng.sample(pool, rng.randint(0, min(len(pool), 14)))
            con = rng.choice([None, arr, arr] + tb.cons[:2])
            only_regular = rng.random() < 0.85
            primitives = rng.random() < 0.5
            r = call(lambda: tu._get_available_types(con, list(types), only_regular, primitives))
            if isinstance(r, str):
                raise common.HarnessError("_get_available_types raised " + r)
            tt = export.TypeTable()
            rq = {"op": "inst.available_types", "con_name": None if con is None else str(con.name),
                  "items": [export_item(tt, x) for x in types], "only_regular": only_regular, "primitives": primitives,
                  "expect": [export_item(tt, x) for x in r]}
            rq["tt"] = tt.entries
            rqs.append(rq)
            # specification-side judge of the code's answer
            judged += 1
            if only_regular:
                for x in r:
                    why = None
                    if isinstance(x, ast.ClassDeclaration) and x.class_type != ast.ClassDeclaration.REGULAR:
                        why = "abstract-class-or-interface-offered"
                    elif isinstance(x, tp.TypeConstructor):
                        why = "bare-type-constructor-offered"
                    elif not primitives and getattr(x, "primitive", False):
                        why = "primitive-offered"
                    elif con is not None and con.name == "Array" and isinstance(x, (tp.TypeParameter, tp.ParameterizedType)):
                        why = "type-variable-or-instantiation-offered-for-Array"
                    if why:
                        spec_bad.append((why, rq))
                kept = [x for x in types if not isinstance(x, tp.TypeConstructor)
                        and not (isinstance(x, ast.ClassDeclaration) and x.class_type != 0)
                        and not (con is not None and con.name == "Array" and
                                 isinstance(x, (tp.TypeParameter, tp.ParameterizedType)))]
                if len(kept) != len(r):
                    spec_bad.append(("regular-type-dropped", rq))
            elif len(r) != len(types):
                spec_bad.append(("list-changed-without-only_regular", rq))
    ia = [True] * len(rqs)
    diffs = common.compare_stream(run, rqs, ia, "available_types", nontrivial=lambda rq, ia: len(rq["items"]) > 0)
    for why, rq in spec_bad[:3]:
        run.violation({"kind": "available_types", "request": rq, "why": why}, signature="available_types:" + why)
    if diffs:
        run.broken.append({"obligation": "correspondence inst.available_types", "detail": [common.canon(d[3])[:300] for d in diffs[:3]]})
    run.log("_get_available_types: %d calls (%d differ from the model, %d outside the specification)" % (len(rqs), len(diffs), len(spec_bad)))


# =====================================================================================
# (1c) update_type_var_bound_rec
# =====================================================================================
def stream_update_bound_rec(run, ntables):
    import src.ir.types as tp
    import src.ir.type_utils as tu
    import refsub
    rng = run.rng
    rqs, ias, spec_bad = [], [], []
    for _ in range(ntables):
        tb = gen_types.Table(rng)
        for _k in range(8):
            n = rng.randint(1, 4)
            ps = []
            for i in range(n):
                r = rng.random()
                if i and r < 0.75:
                    b = ps[-1] if rng.random() < 0.8 else rng.choice(ps)
                elif r < 0.85:
                    b = tb.ground(1, False)
                else:
                    b = None
                ps.append(tp.TypeParameter("T%d" % (i + 1), tp.Invariant, b))
            base = tb.ground(2, False)
            sup = lambda t: tb.supertype_of(t) if rng.random() < 0.6 else tb.ground(1, False)
            assigned = [sup(base) if rng.random() < 0.7 else base for _ in ps]
            t_args = list(assigned[:-1])
            m = {p: a for p, a in zip(ps[:-1], assigned)}
            idx = {p: i for i, p in enumerate(ps)}
            shape = "regular"
            r = rng.random()
            if r < 0.12 and len(ps) > 1:
                del m[rng.choice(ps[:-1])]
                shape = "bound-variable-unassigned"
            elif r < 0.24 and len(ps) > 1:
                del idx[rng.choice(ps[:-1])]
                shape = "bound-variable-not-indexed"
            elif r < 0.30:
                t_args = t_args[:max(0, len(t_args) - 1)]
                shape = "short-argument-list"
            t = base if rng.random() < 0.8 else tb.ground(1, True)
            start = ps[-1] if rng.random() < 0.9 else tb.ground(1, False)
            tt = export.TypeTable()
            rq = {"op": "inst.update_bound_rec", "tparam": tt.add(start), "t": tt.add(t),
                  "targs": [tt.add(a) for a in t_args], "idx": [[tt.add(k), v] for k, v in idx.items()],
                  "m": [[tt.add(k), tt.add(v)] for k, v in m.items()]}
            t_args2, m2 = list(t_args), dict(m)
            res = call(lambda: tu.update_type_var_bound_rec(start, t, t_args2, idx, m2))
            if res is None:
                rq["expect_targs"] = [tt.add(a) for a in t_args2]
                rq["expect_m"] = [[tt.add(k), tt.add(v)] for k, v in m2.items()]
                ias.append("ok")
                # specification side (updateBoundRec_chain): every indexed chain variable is assigned t or a supertype
                b = getattr(start, "bound", None) if isinstance(start, tp.TypeParameter) else None
                while isinstance(b, tp.TypeParameter):
                    if b in idx and b in m2 and not (m2[b] is t or m2[b] == t or refsub.sub(t, m2[b], 2)):
                        spec_bad.append((shape, rq, str(b), export.short(t), export.short(m2[b])))
                    b = b.bound
            else:
                rq["expect_targs"], rq["expect_m"] = [], []
                ias.append(res)
            rq["tt"] = tt.entries
            rq["shape"] = shape
            rqs.append(rq)
            run.tally("update_bound_rec_shapes", "%s:%s" % (shape, res if isinstance(res, str) else "ok"))
    diffs = common.compare_stream(run, rqs, ias, "update_bound_rec", nontrivial=lambda rq, ia: len(rq["m"]) > 0)
    for shape, rq, b, t, cur in spec_bad[:3]:
        run.violation({"kind": "update_bound_rec", "request": rq, "variable": b, "t": t, "assignment": cur,
                       "note": "after update_type_var_bound_rec the assignment of a chain variable is not a supertype of t"},
                      signature="update_bound_rec:chain-assignment-not-above-t:" + shape)
    if diffs:
        run.broken.append({"obligation": "correspondence inst.update_bound_rec", "detail": [common.canon(d[3])[:300] for d in diffs[:3]]})
    run.log("update_type_var_bound_rec: %d calls (%d differ from the model, %d outside the specification)" % (len(rqs), len(diffs), len(spec_bad)))


# =====================================================================================
# (2) refinement: results of the helpers satisfy inst.ok
# =====================================================================================
def consistent_pre(rng, ps, tb):
    """a partial pre-assignment that respects the declared bounds: plain class types only; a parameter bounded
    by another parameter is requested only together with that parameter, with a subtype of its request"""
    cands = tb.boxed_builtins() + tb.simple
    pre = {}
    for p in ps:
        if rng.random() < 0.25:
            continue
        b = p.bound
        if b is None:
            ub = None
        elif b.is_type_var():
            if b not in pre:
                continue
            ub = pre[b]
        elif b.has_type_variables():
            continue
        else:
            ub = b
        pool = [x for x in cands if ub is None or x == ub or inst_lib.refsub_sub(x, ub)]
        proper = [x for x in pool if ub is not None and x != ub]
        if proper and b is not None and b.is_type_var() and rng.random() < 0.8:
            pool = proper
        if pool:
            pre[p] = rng.choice(pool)
    return pre


def synthetic_calls(run, ntables, per_con):
    """drive instantiate_type_constructor / instantiate_parameterized_function directly; returns the
    recorded `inst.ok` requests and the Python judge's verdicts"""
    import src.ir.types as tp
    import src.ir.type_utils as tu
    from src import utils
    rng = run.rng
    out = []
    nexc = 0
    for _ in range(ntables):
        lang = rng.choice(gen_types.LANGS)
        tb = gen_types.Table(rng, lang=lang, pbound=0.6, pvariance=0.5, maxparams=4, nclasses=rng.randint(3, 7))
        top = tb.any
        # gen_types instantiates without looking at bounds: keep the constructors whose parameter bounds are
        # themselves well-bounded types (the helpers' contract is about well-formed declarations)
        good = [c for c in tb.cons if all(inst_lib.bounds_respected(p.bound, top) for p in c.type_parameters)]
        run.tally("synthetic_constructors", "well-bounded" if len(good) == len(tb.cons) else "dropped-some")
        # directed declarations: a parameter whose bound has several subtypes among the available types, followed
        # by parameters bounded by it / mentioning it (mutually dependent parameters)
        wide = [b for b in tb.boxed_builtins() + tb.simple
                if sum(1 for x in tb.boxed_builtins() + tb.simple if x != b and inst_lib.refsub_sub(x, b)) >= 2]
        if wide:
            b0 = rng.choice(wide)
            p0 = tp.TypeParameter("P", tp.Invariant, b0)
            p1 = tp.TypeParameter("Q", tp.Invariant, p0)
            extra = [tp.TypeParameter("R", tp.Invariant, None)]
            if good and rng.random() < 0.5:
                inner = rng.choice(good)
                if all(q.bound is None for q in inner.type_parameters):
                    extra.append(tp.TypeParameter("S", tp.Invariant, inner.new([p0 for _ in inner.type_parameters])))
            order = [p0, p1] + extra if rng.random() < 0.6 else [extra[0], p0, p1] + extra[1:]
            good = good + [tp.TypeConstructor("Dir", order, [tb.any])]
        if not good:
            continue
        import src.ir.ast as ast
        # generic classes are offered as class declarations (their get_type() is a type constructor that the
        # helper instantiates itself: nested calls), plus a few bare constructors (filtered out by the helper)
        decls = [ast.ClassDeclaration(c.name, [], ast.ClassDeclaration.REGULAR, fields=[], functions=[],
                                      type_parameters=list(c.type_parameters)) for c in good]
        # (_construct_related_types handles a bound `Array<…>` only for lists of plain types: the generator never
        # bounds a parameter by an array, `select_type(exclude_arrays=True)`)
        array_bound = any("Array" in str(p.bound) for c in good for p in c.type_parameters if p.bound is not None)
        types = list(tb.builtins) + list(tb.simple) + ([] if array_bound else decls) + list(good[:1])
        run.tally("synthetic_type_lists", "plain-types" if array_bound else "with-class-declarations")
        rec = inst_lib.Recorder(top, limit=10 ** 9, origin="synthetic:" + lang)
        rec.install()
        try:
            for con in good:
                ps = list(con.type_parameters)
                for _k in range(per_con):
                    dis = rng.choice([(0, 0), (0, 0), (0, 1), (1, 0), (1, 1)])
                    r = rng.random()
                    vc = None if r < 0.25 else {} if r < 0.5 else {p: (rng.random() < 0.5, rng.random() < 0.5)
                                                                    for p in ps if rng.random() < 0.7}
                    # pre-assignments: from a previous result (consistent), ground types (maybe not), or none
                    pre = None
                    q = rng.random()
                    if any(p.bound is not None and p.bound.is_type_var() for p in ps) and rng.random() < 0.3:
                        q = 0.7           # chains of parameters: more consistent requests at both ends
                    mine = [c for c in out[-40:] if c["con"] is con]
                    if q < 0.12:
                        pre = {p: tb.ground(1, False) for p in ps if rng.random() < 0.4}
                    elif q < 0.6 and mine:
                        prev = rng.choice(mine)
                        pre = {p: a for p, a in prev["sigma_obj"].items() if p in ps and rng.random() < 0.6}
                    elif q < 0.65:
                        pre = {p: tp.WildCardType(tb.ground(1, False), rng.choice([tp.Covariant, tp.Contravariant]))
                               for p in ps if rng.random() < 0.4}
                    elif q < 0.85:
                        # requests that respect the bounds among themselves, also along chains `Q : P`
                        # (both ends requested, with different types): every one of them must be kept
                        pre = consistent_pre(rng, ps, tb)
                        run.tally("synthetic_consistent_requests",
                                  "chain-both-ends" if any(p.bound is not None and p.bound.is_type_var() and p.bound in pre
                                                           and pre[p] != pre[p.bound] for p in pre) else
                                  "chain-both-ends-equal" if any(p.bound is not None and p.bound.is_type_var()
                                                                 and p.bound in pre for p in pre) else "no-chain")
                    kw = {}
                    if rng.random() < 0.15:
                        kw["disable_variance"] = True
                    old = set_dis(dis)
                    utils.random.r.seed(rng.randrange(1 << 30))
                    n0 = len(rec.requests)
                    try:
                        if rng.random() < 0.7:
                            res = tu.instantiate_type_constructor(con, list(types), type_var_map=pre,
                                                                  variance_choices=vc, **kw)
                            sigma, targs, fn = res[1], list(res[0].type_args), "instantiate_type_constructor"
                        else:
                            sigma = tu.instantiate_parameterized_function(ps, list(types), type_var_map=pre)
                            targs, fn = None, "instantiate_parameterized_function"
                    except Exception as e:
                        nexc += 1
                        import traceback
                        tb_ = traceback.extract_tb(e.__traceback__)
                        where = "%s:%s" % (tb_[-1].filename.rsplit("/", 1)[-1], tb_[-1].name)
                        run.tally("helper_exceptions", "%s@%s" % (type(e).__name__, where))
                        run.cov.setdefault("helper_exception_samples", {}).setdefault(
                            "%s@%s" % (type(e).__name__, where),
                            {"msg": str(e)[:200], "chain": ["%s:%s:%d" % (f.filename.rsplit("/", 1)[-1], f.name, f.lineno) for f in tb_[-6:]],
                             "text": inst_lib.describe(ps, pre, vc, {}, None)})
                        continue
                    finally:
                        set_dis(old)
                    # the outermost recorded call is the last one appended
                    for rq in rec.requests[n0:]:
                        rq["meta"]["entry"] = fn
                    judge = inst_lib.py_judge(ps, sigma, targs, top, pre)
                    out.append({"requests": rec.requests[n0:], "judge": judge, "sigma_obj": sigma, "fn": fn, "con": con,
                                "text": inst_lib.describe(ps, pre, vc, sigma, targs)})
        finally:
            rec.uninstall()
    return out, nexc


def failure_signature(fails, meta):
    """shape signature: the failing clauses (sorted), the helper mode; never names or seeds"""
    clauses = sorted({c for f in fails for c in f.get("fails", []) if isinstance(f.get("fails"), list)}
                     | {f["fails"] for f in fails if isinstance(f.get("fails"), str)})
    mode = "class" if meta.get("for_type_constructor", True) else "function"
    return "instantiation:%s:%s" % (mode, "+".join(clauses) or "?")


def judge_requests(run, reqs, label):
    """inst.ok on recorded requests; every rejection is a failing input"""
    if not reqs:
        return 0
    answers = common.run_driver([{k: v for k, v in rq.items() if k not in ("meta", "_rejected")} for rq in reqs])
    nbad = 0
    for rq, a in zip(reqs, answers):
        if "error" in a:
            raise common.HarnessError("inst.ok: %s" % a["error"])
        meta = rq.get("meta", {})
        nparams = len(rq["params"])
        bounded = any(rq["tt"][i].get("bound") is not None for i in rq["params"])
        run.count({"stream": label, "n": nparams, "bounded": bounded, "pre": len(rq["pre"]), "vc": rq["vc"] is not None,
                   "dis": rq["dis"], "text": meta.get("text")}, nontrivial=bounded or len(rq["pre"]) > 0)
        run.cov["traces_validated_against_impl"] += 1
        run.tally("ops", "inst.ok")
        run.tally("inst_ok_" + label, "accepted" if a["r"] is True else "accepted-shape-only(inconsistent-requests)"
                  if a["r"] == "shape-only" else "rejected")
        if a["r"] is not True and a["r"] != "shape-only":
            nbad += 1
            rq["_rejected"] = True
            sig = failure_signature(a["r"], meta)
            run.tally("inst_rejections", sig + "|" + meta.get("origin", "?"))
            report(run, {"kind": "inst", "request": rq, "fails": a["r"], "text": meta.get("text"),
                         "origin": meta.get("origin"),
                         "note": "a result of _compute_type_variable_assignments that the verified checker instOK rejects"}, sig)
    return nbad


def stream_witness(run):
    """the declaration of theorem compute_within_bounds_counterexample_shape on the real code:
    Dir<P : Number, Q : P, R> with an empty variance-choice map, over a fixed range of RNG seeds"""
    import src.ir.types as tp
    import src.ir.type_utils as tu
    from src import utils
    hits = 0
    reqs = []
    for lang in ("kotlin", "java"):
        bt = gen_types.factory(lang)
        num = bt.get_number_type()
        p0 = tp.TypeParameter("P", tp.Invariant, num)
        p1 = tp.TypeParameter("Q", tp.Invariant, p0)
        p2 = tp.TypeParameter("R", tp.Invariant, None)
        con = tp.TypeConstructor("Dir", [p0, p1, p2], [bt.get_any_type()])
        types = [t for t in bt.get_non_nothing_types() if not t.is_type_constructor()]
        rec = inst_lib.Recorder(bt.get_any_type(), limit=10 ** 6, origin="witness:" + lang)
        rec.install()
        old = set_dis((0, 0))
        try:
            for s in range(60):
                utils.random.r.seed(s)
                t, sigma = tu.instantiate_type_constructor(con, list(types), variance_choices={})
                if isinstance(sigma[p0], tp.WildCardType):
                    hits += 1
        finally:
            set_dis(old)
            rec.uninstall()
        reqs += rec.requests
    # second recorded finding: Dir2<W, T : W, Y : W, Z : T> with the request Z := String: W is chosen freely (the
    # code only looks one level down for requests), Y is derived from it, then the request is propagated upwards
    # (W := String) and Y is left outside its bound
    reqs2, hits2 = [], 0
    bt = gen_types.factory("kotlin")
    w = tp.TypeParameter("W", tp.Invariant, None)
    t_ = tp.TypeParameter("T", tp.Invariant, w)
    y = tp.TypeParameter("Y", tp.Invariant, w)
    z = tp.TypeParameter("Z", tp.Invariant, t_)
    con2 = tp.TypeConstructor("Dir2", [w, t_, y, z], [bt.get_any_type()])
    types = [t for t in bt.get_non_nothing_types() if not t.is_type_constructor()]
    rec = inst_lib.Recorder(bt.get_any_type(), limit=10 ** 6, origin="witness2:kotlin")
    rec.install()
    try:
        for s in range(40):
            utils.random.r.seed(s)
            _t, sigma = tu.instantiate_type_constructor(con2, list(types), type_var_map={z: bt.get_string_type()},
                                                        variance_choices=None)
            if not inst_lib.refsub_sub(inst_lib.py_core(sigma[y]), inst_lib.py_core(sigma[w])):
                hits2 += 1
    finally:
        rec.uninstall()
    nbad2 = judge_requests(run, rec.requests, "witness")
    run.tally("witness2", "reproduced" if hits2 else "not-reproduced")
    run.log("witness Dir2<W, T : W, Y : W, Z : T>, Z := String requested: %d of %d results leave Y outside its bound "
            "(inst.ok rejects %d)" % (hits2, len(rec.requests), nbad2))
    if bool(hits2) != bool(nbad2):
        run.broken.append({"obligation": "witness 2 (sibling of an overwritten assignment): inst.ok and the direct "
                                         "observation disagree", "detail": [hits2, nbad2]})
    nbad = judge_requests(run, reqs, "witness")
    run.tally("witness", "reproduced" if hits else "not-reproduced")
    run.log("witness Dir<P : Number, Q : P, R>: %d of %d instantiations project P (inst.ok rejects %d)%s"
            % (hits, len(reqs), nbad, "" if hits else " — the recorded finding is not reproduced on this tree"))
    if bool(hits) != bool(nbad):
        run.broken.append({"obligation": "witness of compute_within_bounds_counterexample_shape: inst.ok and the direct "
                                         "observation disagree", "detail": [hits, nbad]})


def stream_synthetic(run):
    ntables, per_con = (30, 6) if run.tier == "quick" else (200, 10)
    calls, nexc = synthetic_calls(run, ntables, per_con)
    reqs = [rq for c in calls for rq in c["requests"]]
    nbad = judge_requests(run, reqs, "synthetic")
    # the independent judge on the same results
    njudge = 0
    for c in calls:
        if any(rq.get("_rejected") for rq in c["requests"]):
            run.tally("py_judge", "agrees-with-inst.ok-rejection" if c["judge"] else "silent-on-inst.ok-rejection")
            continue
        for (p, clause) in c["judge"]:
            njudge += 1
            run.tally("py_judge", clause)
            report(run, {"kind": "py_judge", "text": c["text"], "param": p, "clause": clause, "entry": c["fn"],
                         "note": "independent judge (inst_lib.py_judge) on the real objects"},
                   "instantiation:py-judge:" + clause)
    run.log("synthetic: %d helper calls (%d raised), %d recorded _compute calls, inst.ok rejects %d, python judge flags %d"
            % (len(calls), nexc, len(reqs), nbad, njudge))


def stream_generator(run):
    nseeds = 1 if run.tier == "quick" else 8
    cap = 40 if run.tier == "quick" else 60
    base = run.seed * 1000 + 500
    specs = []
    for k in range(nseeds):
        for lang in pipeline.LANGS:
            for sw in [(0, 0, 0, 0), (0, 1, 0, 0), (1, 0, 0, 0)]:
                specs.append({"lang": lang, "seed": base + k, "switches": sw, "stages": ["gen"], "cap": cap,
                              "export": False, "plugins": ["plug_c08"]})
    results = check_C17.run_many_safe(specs)
    reqs, ncalls, njudge, nprog, pairs = [], 0, 0, 0, []
    for r in results:
        pl = (r.get("plugins") or {}).get("plug_c08") or {}
        if "error" in pl:
            raise common.HarnessError("plug_c08: %s" % pl["error"])
        if "cutoff" in r:
            run.tally("programs", "cutoff")
        elif "exception" in r:
            run.tally("programs", "exception")
        else:
            run.tally("programs", "complete")
        nprog += 1
        ncalls += pl.get("ncalls", 0)
        for rq in pl.get("requests", []):
            rq["meta"]["program"] = [r["spec"]["lang"], r["spec"]["seed"], list(r["spec"]["switches"])]
            reqs.append(rq)
        pairs.extend(zip(pl.get("judge", []), pl.get("requests", [])))
    nbad = judge_requests(run, reqs, "generator")
    for j, rq in pairs:
        if True:
            if rq.get("_rejected"):
                continue
            for (p, clause) in j:
                njudge += 1
                run.tally("py_judge", clause)
                report(run, {"kind": "py_judge", "text": rq["meta"].get("text"), "param": p, "clause": clause,
                             "program": rq["meta"]["program"], "request": rq,
                             "note": "independent judge (inst_lib.py_judge) on the real objects"},
                       "instantiation:py-judge:" + clause)
    run.log("generator: %d programs, %d _compute calls (%d recorded), inst.ok rejects %d, python judge flags %d"
            % (nprog, ncalls, len(reqs), nbad, njudge))
    if not reqs:
        raise common.HarnessError("no _compute_type_variable_assignments call recorded from generator runs")


def check(run):
    run.build_and_audit()
    pipeline.setup()
    q = run.tier == "quick"
    check_C17.stream_arg_variance(run)
    stream_has_bound_of(run, 25 if q else 150)
    stream_available_types(run, 25 if q else 150)
    stream_update_bound_rec(run, 25 if q else 150)
    stream_witness(run)
    stream_synthetic(run)
    stream_generator(run)
    run.cov["rule"] = ("one case per input class of _get_type_arg_variance / per leaf-function call / per recorded "
                       "_compute_type_variable_assignments call; nontrivial = more than one candidate, non-empty input, "
                       "resp. bounded parameters or pre-assignments")
    if run.broken and not run.violations:
        run.violation({"kind": "broken", "obligations": run.broken[:5],
                       "note": "a proof obligation or a correspondence of C08 no longer checks; no failing input found"},
                      signature="C08:broken-obligation", no_input=True)


def replay(run, rp):
    run.build_and_audit()
    pipeline.setup()
    kind = rp.get("kind")
    if kind in ("inst", "py_judge") and rp.get("request"):
        n = judge_requests(run, [rp["request"]], "replay")
        run.log("replayed recorded instantiation: %d rejection(s)" % n)
    elif kind == "arg_variance":
        check_C17.replay(run, rp)
    else:
        check(run)
