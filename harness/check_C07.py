"""C07 — instantiating a generic class substitutes everywhere and mutates nothing.

proof side : lean/Heph/Props/C07.lean (getSubst/tconNew of Model/Subst.lean against the
             syntactic substitution of Spec/Subst.lean; write-set theorem over the regenerated
             table of attribute writes)
tie to code: exact by-value correspondence of TypeConstructor.new / substitute_type /
             to_variance_free / to_type_variable_free / get_bound_rec with the model; aliasing
             observation: by-value snapshots of every live type object around every call of long
             call sequences on shared objects; an independent syntactic substitution (refsubst)
             judges failing inputs.
"""
import common
from common import compare_stream, canon
import export
from export import tree, kind, VAR
import gen_types
import regen_c07

LEVEL = "proof"


def call(f):
    try:
        return f()
    except Exception as e:
        return type(e).__name__


# ---- independent specification: substitution on syntax ------------------------------------
def refsubst(t, m):
    """substitute type variables (keys compared with ==) everywhere in the *syntax* of t:
    arguments, wildcard bounds, bounds of type variables left in place, and the stored
    supertypes of nested instantiations are recomputed from the constructor's declaration."""
    import src.ir.types as tp
    k = kind(t)
    if k == "v":
        for key, val in m:
            if key == t:
                return val
        if t.bound is not None:
            return tp.TypeParameter(t.name, t.variance, refsubst(t.bound, m))
        return t
    if k == "w":
        return t if t.bound is None else tp.WildCardType(refsubst(t.bound, m), t.variance)
    if k == "p":
        args = [refsubst(a, m) for a in t.type_args]
        return t.t_constructor.new(args) if False else _mk(t.t_constructor, args)
    return t


def _mk(con, args):
    """the instance of `con` at `args`, by the *definition* of instantiation: declared
    supertypes with parameters replaced (recursively, by this same function)"""
    import src.ir.types as tp
    import copy
    m = list(zip(con.type_parameters, args))
    sups = [refsubst(u, m) for u in con.supertypes]
    c2 = copy.copy(con)
    c2.supertypes = sups
    inst = tp.ParameterizedType(c2, args)
    return inst


def tvfree(t):
    k = kind(t)
    if k in ("v", "c"):
        return False
    if k == "w":
        return t.bound is None or tvfree(t.bound)
    if k == "p":
        return all(tvfree(a) for a in t.type_args)
    return True


# ---- request construction -------------------------------------------------------------------
def gen_calls(rng, ntables, per_table):
    import src.ir.types as tp
    calls = []
    for _ in range(ntables):
        tb = gen_types.Table(rng, pbound=0.45)
        cons = tb.cons + tb.builtin_cons
        scope = tuple(tb.scope_vars())
        if not cons:
            continue
        for _ in range(per_table):
            r = rng.random()
            con = rng.choice(cons)
            if r < 0.35:
                withtv = rng.random() < 0.3
                args = [tb.arg(2, True, scope if withtv else ()) for _ in con.type_parameters]
                if rng.random() < 0.03:
                    args = args[:-1] if rng.random() < 0.5 else args + [tb.ground(0)]
                calls.append(("types.new", con, args, None))
            elif r < 0.65:
                t = tb.ground(2, True, scope)
                keys = rng.sample(list(scope), min(len(scope), rng.randint(0, 3)))
                m = list({k: tb.arg(1, True, scope if rng.random() < 0.3 else ()) for k in keys}.items())
                calls.append(("types.subst", t, m, None))
            elif r < 0.8:
                t = tb.inst(con, 2, True, scope if rng.random() < 0.3 else ())
                m = []
                if rng.random() < 0.4:
                    m = list({p: tb.ground(1) for p in con.type_parameters if rng.random() < 0.6}.items())
                calls.append(("types.to_variance_free", t, m, None))
            elif r < 0.92:
                t = tb.inst(con, 2, True, scope)
                calls.append(("types.to_type_variable_free", t, None, tb.bt if rng.random() < 0.9 else None))
            else:
                v = rng.choice(scope)
                calls.append(("types.bound_rec", v, None, tb.bt if rng.random() < 0.9 else None))
    return calls


def to_request(c):
    """request + implementation answer.  A type-valued result of the implementation is added to
    the request's table as `expect`; the model answers `true` when its own result is
    structurally equal (else its result as a tree), so the compared answer is `True`."""
    import src.ir.types as tp
    op, a, b, fac = c
    tt = export.TypeTable()
    rq = {"op": op}
    if op == "types.new":
        rq["s"] = tt.add(a)
        rq["args"] = [tt.add(x) for x in b]
        f = lambda: a.new(list(b))  # noqa: E731
    elif op == "types.subst":
        rq["s"] = tt.add(a)
        rq["m"] = [[tt.add(k), tt.add(v)] for k, v in b]
        f = lambda: tp.substitute_type(a, dict(b))  # noqa: E731
    elif op == "types.to_variance_free":
        rq["s"] = tt.add(a)
        rq["m"] = [[tt.add(k), tt.add(v)] for k, v in b]
        f = lambda: a.to_variance_free(dict(b) if b else None)  # noqa: E731
    elif op == "types.to_type_variable_free":
        rq["s"] = tt.add(a)
        rq["any"] = tt.add(fac.get_any_type()) if fac is not None else None
        f = lambda: a.to_type_variable_free(fac)  # noqa: E731
    elif op == "types.bound_rec":
        rq["s"] = tt.add(a)
        rq["any"] = tt.add(fac.get_any_type()) if fac is not None else None
        f = lambda: a.get_bound_rec(fac)  # noqa: E731
    try:
        r = f()
        if r is None:
            impl = None
        else:
            rq["expect"] = tt.add(r)
            impl = True
    except Exception as e:
        impl = type(e).__name__
    rq["tt"] = tt.entries
    return rq, impl


def _dedupe(pairs):
    return pairs


def nontrivial(rq, ia):
    return ia is True and any(e["k"] == "p" for e in rq["tt"])


# ---- specification-side judgement -----------------------------------------------------------
def judge_new(con, args):
    """C07 as stated: for tv-free arguments the instance's supertypes are the declared ones
    with the parameters replaced everywhere.  Returns None or a description."""
    if len(args) != len(con.type_parameters) or not all(tvfree(a) for a in args):
        return None
    try:
        inst = con.new(list(args))
    except Exception as e:
        return "new raised " + type(e).__name__
    m = list(zip(con.type_parameters, args))
    memo = {}
    want = [export.digest(refsubst(u, m), memo) for u in con.supertypes]
    got = [export.digest(u, memo) for u in inst.supertypes]
    if want != got:
        return "supertypes of the instance differ from the substituted declaration"
    return None


# ---- aliasing observation ---------------------------------------------------------------------
def depth_of(t):
    k = kind(t)
    if k == "p":
        return 1 + max([depth_of(a) for a in t.type_args] + [0])
    if k in ("w", "v") and t.bound is not None:
        return depth_of(t.bound)
    return 0


def aliasing_history(run, rng, steps):
    """a long sequence of new/substitute/to_variance_free/to_type_variable_free calls on shared
    objects of one class table; by-value snapshots of every live object before and after each call"""
    import src.ir.types as tp
    tb = gen_types.Table(rng, nclasses=rng.randint(3, 7), pbound=0.4)
    cons = tb.cons + tb.builtin_cons
    if not cons:
        return 0, None
    scope = tuple(tb.scope_vars())
    live = list(tb.simple) + list(cons) + list(scope)
    snap = [export.digest(x, {}) for x in live]
    for step in range(steps):
        r = rng.random()
        con = rng.choice(cons)
        try:
            if r < 0.4:
                args = [rng.choice(live) if rng.random() < 0.5 and not rng.choice(live).is_type_constructor()
                        else tb.arg(1, True, scope) for _ in con.type_parameters]
                args = [a if not a.is_type_constructor() else tb.ground(0) for a in args]
                res = con.new(args)
                desc = ("new", export.short(con), [export.short(a) for a in args])
            elif r < 0.65:
                cand = [x for x in live if kind(x) == "p"] or [tb.inst(con, 1, True, scope)]
                t = rng.choice(cand)
                m = {k: tb.arg(1, True, ()) for k in rng.sample(list(scope), min(2, len(scope)))}
                res = tp.substitute_type(t, m)
                desc = ("substitute_type", export.short(t), sorted(export.short(k) for k in m))
            elif r < 0.8:
                cand = [x for x in live if kind(x) == "p"] or [tb.inst(con, 1, True, scope)]
                t = rng.choice(cand)
                res = t.to_variance_free()
                desc = ("to_variance_free", export.short(t))
            else:
                cand = [x for x in live if kind(x) == "p"] or [tb.inst(con, 1, True, scope)]
                t = rng.choice(cand)
                res = t.to_type_variable_free(tb.bt)
                desc = ("to_type_variable_free", export.short(t))
        except Exception as e:
            desc = ("exception", type(e).__name__)
            res = None
        memo = {}
        now = [export.digest(x, memo) for x in live]
        for i, (a, b) in enumerate(zip(snap, now)):
            if a != b:
                return step + 1, {"step": step, "call": list(desc), "object": export.short(live[i]),
                                  "after": canon(tree(live[i]))[:3000]}
        if res is not None and len(live) < 400 and depth_of(res) <= 4:
            live.append(res)
            snap.append(export.digest(res, memo))
    return steps, None


def replay_witnesses(run):
    import src.ir.types as tp
    import src.ir.kotlin_types as kt
    T, X, Y = tp.TypeParameter("T"), tp.TypeParameter("X"), tp.TypeParameter("Y")
    Root = tp.TypeConstructor("Root", [T])
    Base = tp.TypeConstructor("Base", [T], [Root.new([T])])
    Lst = tp.TypeConstructor("Lst", [tp.TypeParameter("T", tp.Covariant)])
    Foo = tp.TypeConstructor("Foo", [X], [Base.new([Lst.new([X])])])
    Bad = tp.TypeConstructor("Bad", [X], [Base.new([Y])])
    out = {}
    # 1. a replacement that contains a type variable is not substituted into supertypes
    r = tp.substitute_type(Foo.new([Y]), {})
    out["skip_with_type_variable"] = export.short(r.supertypes[0]) == "Base<Lst<X>>"
    # 2. a declared supertype mentioning a variable that is not a parameter keeps stale supertypes
    r = Bad.new([kt.String]).supertypes[0]
    out["unbound_variable_in_declaration"] = export.short(r) == "Base<Y>" and export.short(r.supertypes[0]) == "Root<T>"
    # 3. an instantiation built directly (not through new) is not equal to its empty substitution
    t = tp.ParameterizedType(Foo, [kt.String])
    out["inconsistent_instance_empty_substitution"] = not (tp.substitute_type(t, {}) == t)
    t2 = Foo.new([Lst.new([kt.String])])
    out["consistent_instance_empty_substitution_equal"] = bool(tp.substitute_type(t2, {}) == t2)
    for k, v in out.items():
        if not v:
            run.violation({"kind": "broken-correspondence", "correspondence": "Props/C07 counterexample witness " + k,
                           "note": "the real code no longer behaves as the counterexample theorem of the model says"},
                          signature="witness:" + k, no_input=True)
    return out


def check(run):
    regen_c07.regen_writes()
    proofs_ok = run.build_and_audit()
    rng = run.rng
    quick = run.tier == "quick"
    calls = gen_calls(rng, 40 if quick else 2500, 50 if quick else 80)
    run.cov["rule"] = ("calls of new / substitute_type / to_variance_free / to_type_variable_free / get_bound_rec on "
                       "random generic hierarchies (bounds, variance, nested parameter use in supertypes), argument lists "
                       "with and without type variables and projections, a few wrong arities; results compared by value "
                       "(canonical trees); non-trivial = result is a type and an instantiation is involved")
    run.log("generated %d calls" % len(calls))
    rqs, impl = [], []
    for c in calls:
        rq, ia = to_request(c)
        rqs.append(rq)
        impl.append(ia)
    run.log("implementation answers computed; request bytes %d" % sum(len(canon(r)) for r in rqs))
    diffs = compare_stream(run, rqs, impl, "types.py substitution vs Model/Subst", nontrivial=nontrivial)
    run.log("model compared")
    # implementation against the syntactic substitution, model-independent
    judged = bad = 0
    for c in calls:
        if c[0] == "types.new":
            judged += 1
            v = judge_new(c[1], c[2])
            if v is not None:
                bad += 1
                rq, ia = to_request(c)
                run.violation({"kind": "failing-input", "what": v, "con": export.short(c[1]),
                               "args": [export.short(a) for a in c[2]], "request": rq, "implementation": ia},
                              signature="new:" + v)
    run.cov["new_judged_against_syntactic_substitution"] = judged
    if diffs:
        found = False
        for i, rq, ia, ma in diffs[:300]:
            c = calls[i]
            if c[0] == "types.new":
                v = judge_new(c[1], c[2])
                if v is not None:
                    found = True
                    break
        if not found:
            i, rq, ia, ma = diffs[0]
            run.violation({"kind": "broken-correspondence", "correspondence": "types.py substitution vs Model/Subst",
                           "request": rq, "implementation": ia, "model": ma},
                          signature="%s:model-differs" % rq["op"], no_input=True)
    # the three counterexample theorems of Props/C07 (getSubst_eq_substS / new_supertypes /
    # subst_empty without their hypotheses) replayed on the real code: they must show the same
    # behaviour there (they are statements about what the code does outside the hypotheses)
    run.cov["counterexample_witnesses_on_real_code"] = replay_witnesses(run)
    # aliasing observation
    hist = 20 if quick else 120
    steps = 200 if quick else 2000
    total = 0
    import time
    deadline = time.time() + (60 if quick else 900)
    done = 0
    for h in range(hist):
        if time.time() > deadline:
            break
        done += 1
        n, damage = aliasing_history(run, rng, steps)
        total += n
        if damage is not None:
            run.violation({"kind": "failing-input", "what": "a call changed a pre-existing type object by value",
                           **damage}, signature="aliasing:" + damage["call"][0])
            break
    run.cov["aliasing_histories"] = done
    run.cov["aliasing_histories_planned"] = hist
    run.cov["aliasing_steps_observed"] = total
    run.cov["traces_validated_against_impl"] += total
    run.log("aliasing: %d of %d histories, %d steps observed" % (done, hist, total))
    if not proofs_ok and not run.violations:
        run.violation({"kind": "broken-proof", "obligations": run.broken}, signature="proof", no_input=True)


def replay(run, rp):
    rq = rp["request"]
    ans = common.run_driver([rq])[0]
    run.count({"request": rq, "model": ans})
    run.cov["rule"] = "replay of one request (model side; the request carries exported types)"
    if ans.get("r") != rp.get("implementation"):
        run.violation(rp, signature=rp.get("signature"), no_input=rp.get("kind") != "failing-input")
