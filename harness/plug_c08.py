"""pipeline plugin of C08: records, inside the worker, every call of
`type_utils._compute_type_variable_assignments` made by a real generator run (arguments copied at
entry, result at exit, exported by value as an `inst.ok` request), plus the verdict of the
independent Python judge (`inst_lib.py_judge`) on the real objects."""
import inst_lib

PER_PROGRAM = 120


def install(state, spec):
    import gen_types
    top = gen_types.factory(spec["lang"]).get_any_type()
    rec = inst_lib.Recorder(top, limit=PER_PROGRAM, origin="generator:%s" % spec["lang"])
    state["rec"] = rec
    state["judge"] = []
    orig_request = inst_lib.inst_request

    rec.install()
    # judge on the live objects at the same moment (wrap once more around the recorder's wrapper)
    import src.ir.type_utils as tu
    wrapped = tu._compute_type_variable_assignments

    def _w_judge(type_parameters, types, type_var_map=None, variance_choices=None, for_type_constructor=True):
        pre = dict(type_var_map or {})
        r = wrapped(type_parameters, types, type_var_map=type_var_map, variance_choices=variance_choices,
                    for_type_constructor=for_type_constructor)
        if type_parameters and len(state["judge"]) < PER_PROGRAM:
            try:
                state["judge"].append([list(x) for x in inst_lib.py_judge(list(type_parameters), r[1], list(r[0]), top, pre)])
            except Exception as e:
                state["judge"].append([["?", "judge-error:" + repr(e)]])
        return r
    tu._compute_type_variable_assignments = _w_judge


def collect(state):
    rec = state.get("rec")
    if rec is None:
        return {}
    return {"requests": rec.requests, "ncalls": rec.ncalls, "errors": rec.errors, "judge": state.get("judge", [])}


def uninstall(state):
    rec = state.get("rec")
    if rec is not None:
        rec.uninstall()
