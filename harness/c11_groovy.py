"""C11, Groovy: the witnesses of the counterexample theorems of lean/Heph/Props/C11Groovy.lean replayed on the
REAL `GroovyTranslator` and on the Lean model (driver ops `trans.groovy*` with hand-set attributes).

 visit_program_restores_counterexample     a translator with ident = 4 has ident = 0 after `visit_program`
 text_ignores_children_res_counterexample  a left-over `_children_res = ["junk"]` is printed as a class
 visit_appends_one_counterexample          a bare block `{ val v = 1 }` visited at the global namespace with
                                           `_children_res = ["x"]` consumes the "x"
Each replay checks (a) the real code shows the behaviour the theorem states, (b) model = real."""
import common
import pipeline

EMPTY = {"lang": "groovy", "tt": [], "decls": [], "context": [], "ctxinfo": []}


def _drv(rqs):
    ans = common.run_driver(rqs)
    for a in ans:
        if "error" in a:
            raise common.HarnessError("driver (groovy witness): " + a["error"])
    return [a["r"] for a in ans]


def witness_restores():
    from src.translators.groovy import GroovyTranslator
    from src.ir import ast, context as ctx
    from src import utils
    tr = GroovyTranslator(None, {})
    tr.ident = 4
    text = utils.translate_program(tr, ast.Program(ctx.Context(), "groovy"))
    real = {"ident_after": tr.ident, "text": text}
    st, mtext = _drv([{"op": "trans.groovy.state", "program": EMPTY, "package": None, "ident": 4},
                      {"op": "trans.groovy", "program": EMPTY, "package": None, "ident": 4}])
    model = {"ident_after": st["ident"], "text": mtext}
    return real, model, real["ident_after"] == 0 and real == model


def witness_junk():
    from src.translators.groovy import GroovyTranslator
    from src.ir import ast, context as ctx, groovy_types as gt
    from src import utils
    import export_ast
    c = ctx.Context()
    f = ast.FunctionDeclaration("f", [], gt.Object, None, ast.FunctionDeclaration.FUNCTION)
    c.add_func(ast.GLOBAL_NAMESPACE, "f", f)
    prog = ast.Program(c, "groovy")
    fresh = utils.translate_program(GroovyTranslator(None, {}), prog)
    tr = GroovyTranslator(None, {})
    tr._children_res = ["junk"]
    dirty = utils.translate_program(tr, prog)
    e = export_ast.export_program(prog)
    mfresh, mdirty = _drv([{"op": "trans.groovy", "program": e, "package": None},
                           {"op": "trans.groovy", "program": e, "package": None, "_children_res": ["junk"]}])
    real = {"fresh": fresh, "dirty": dirty}
    model = {"fresh": mfresh, "dirty": mdirty}
    return real, model, fresh != dirty and dirty == fresh + "\n\njunk" and real == model


def witness_stray_block():
    from src.translators.groovy import GroovyTranslator
    from src.ir import ast, context as ctx, groovy_types as gt
    import export_ast
    blk = ast.Block([ast.VariableDeclaration("v", ast.IntegerConstant(1, gt.Integer), is_final=True, var_type=None,
                                             inferred_type=gt.Integer)], is_func_block=False)
    tr = GroovyTranslator(None, {})
    tr.context = ctx.Context()
    tr._children_res = ["x"]
    tr.visit(blk)
    real = {"_children_res": list(tr._children_res), "_main_children": list(tr._main_children)}
    e = export_ast.Exporter()
    prog = {"lang": "groovy", "decls": [e.node(blk)], "context": [], "ctxinfo": []}
    prog["tt"] = e.tt.entries
    r, = _drv([{"op": "trans.groovy.visit", "program": prog, "_children_res": ["x"]}])
    model = {"_children_res": r["texts"], "_main_children": r["state"]["_main_children"]}
    expect = {"_children_res": ["{\nx\n}"], "_main_children": ["final Integer v = 1"]}
    return real, model, real == expect and real == model


WITNESSES = [("Groovy.visit_program_restores_counterexample", witness_restores),
             ("Groovy.text_ignores_children_res_counterexample", witness_junk),
             ("Groovy.visit_appends_one_counterexample", witness_stray_block)]


def replay_witnesses(run, only=None):
    pipeline.setup()
    for name, fn in WITNESSES:
        if only is not None and only != name:
            continue
        real, model, ok = fn()
        run.cov["witness_" + name] = {"real": real, "model": model}
        run.count({"witness": name})
        if not ok:
            run.violation({"kind": "broken-correspondence", "witness": name, "real": real, "model": model,
                           "note": "the witness of the counterexample theorem behaves differently on the real "
                                   "GroovyTranslator (or model and code differ on it)"},
                          signature="witness:" + name, no_input=True)
