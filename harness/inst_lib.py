"""Shared by check_C08 and plug_c08: recording of `_compute_type_variable_assignments` calls,
export of a recorded call as an `inst.ok` request, and an independent Python judge.

A recorded call is exported BY VALUE at the moment the call returns (types are not mutated by the
helpers; `variance_choices` is, so it is copied at entry)."""
import export

MAXREC = 400


def vc_export(tt, vc):
    if vc is None:
        return None
    return [[tt.add(k), bool(v[0]), bool(v[1])] for k, v in vc.items()]


def map_export(tt, m):
    return [[tt.add(k), tt.add(v)] for k, v in (m or {}).items() if v is not None]


def inst_request(params, pre, vc, dis, top, sigma, targs, meta=None):
    tt = export.TypeTable()
    rq = {"op": "inst.ok",
          "params": [tt.add(p) for p in params],
          "pre": map_export(tt, {k: v for k, v in (pre or {}).items() if v}),
          "vc": vc_export(tt, vc),
          "dis": [int(bool(dis[0])), int(bool(dis[1]))],
          "top": tt.add(top),
          "sigma": map_export(tt, sigma),
          "targs": None if targs is None else [tt.add(a) for a in targs]}
    rq["tt"] = tt.entries
    if meta:
        rq["meta"] = meta
    return rq


def describe(params, pre, vc, sigma, targs):
    """short human-readable rendering for logs / replays"""
    return {"params": [str(p) for p in params],
            "pre": {str(k): export.short(v) for k, v in (pre or {}).items() if v is not None},
            "vc": None if vc is None else {str(k): list(map(bool, v)) for k, v in vc.items()},
            "sigma": {str(k): export.short(v) for k, v in (sigma or {}).items() if v is not None},
            "targs": None if targs is None else [export.short(a) for a in targs]}


class Recorder:
    """wraps type_utils._compute_type_variable_assignments (looked up by global name from
    instantiate_type_constructor / instantiate_parameterized_function)"""

    def __init__(self, top, limit=MAXREC, origin="?"):
        self.top, self.limit, self.origin = top, limit, origin
        self.requests = []
        self.ncalls = 0
        self.errors = []
        self.orig = None

    def install(self):
        import src.ir.type_utils as tu
        from src.generators.config import cfg
        self.orig = tu._compute_type_variable_assignments
        rec = self

        def _w_compute(type_parameters, types, type_var_map=None, variance_choices=None, for_type_constructor=True):
            pre = dict(type_var_map or {})
            vc0 = None if variance_choices is None else dict(variance_choices)
            dis = (bool(cfg.dis.use_site_variance), bool(cfg.dis.use_site_contravariance))
            r = rec.orig(type_parameters, types, type_var_map=type_var_map, variance_choices=variance_choices,
                         for_type_constructor=for_type_constructor)
            rec.ncalls += 1
            if type_parameters and len(rec.requests) < rec.limit:
                try:
                    t_args, sigma = r
                    rq = inst_request(list(type_parameters), pre, vc0, dis, rec.top, sigma, list(t_args),
                                      meta={"origin": rec.origin, "for_type_constructor": bool(for_type_constructor),
                                            "text": describe(type_parameters, pre, vc0, sigma, t_args)})
                    rec.requests.append(rq)
                except Exception as e:    # recording must never disturb the run
                    rec.errors.append(repr(e))
            return r
        tu._compute_type_variable_assignments = _w_compute

    def uninstall(self):
        import src.ir.type_utils as tu
        if self.orig is not None:
            tu._compute_type_variable_assignments = self.orig
            self.orig = None


# ---- independent judge over the real objects (no Lean, no exporter) -----------------------
def py_core(a):
    import src.ir.types as tp
    if isinstance(a, tp.WildCardType) and a.bound is not None:
        return a.bound
    return a


def _is_or_wraps(a, t):
    import src.ir.types as tp
    if a == t or a == py_core(t):
        return True
    return isinstance(a, tp.WildCardType) and a.bound is not None and a.bound == t and not isinstance(t, tp.WildCardType)


def _chain(q):
    import src.ir.types as tp
    out = []
    b = getattr(q, "bound", None)
    while isinstance(b, tp.TypeParameter):
        out.append(b)
        b = b.bound
    return out


def requested_by(pre, p, a, params=()):
    """the argument stems from the caller's own assignments (for `p`, for a parameter bounded by `p`, or for a
    parameter whose bound chain reaches `p`)"""
    pre = pre or {}
    t = pre.get(p)
    if t:
        if _is_or_wraps(a, t):
            return True
    elif any(v is not None and getattr(k, "bound", None) is not None and k.bound == p and _is_or_wraps(a, v)
             for k, v in pre.items()):
        return True
    return any(pre.get(q) and any(c == p for c in _chain(q)) and _is_or_wraps(a, pre[q]) for q in params)


def bounds_respected(t, top, depth=0):
    """every instantiation inside `t` gives each bounded parameter an argument within the substituted
    bound (gen_types builds instantiations without looking at bounds)"""
    import src.ir.types as tp
    import refsub
    if t is None or depth > 8:
        return True
    if isinstance(t, (tp.WildCardType, tp.TypeParameter)):
        return bounds_respected(t.bound, top, depth + 1)
    if isinstance(t, tp.ParameterizedType):
        ps = list(t.t_constructor.type_parameters)
        sigma = dict(zip(ps, t.type_args))
        for p, a in zip(ps, t.type_args):
            if not bounds_respected(a, top, depth + 1) or not bounds_respected(p.bound, top, depth + 1):
                return False
            if p.bound is None or (isinstance(a, tp.WildCardType) and a.bound is None):
                continue
            b = tp.substitute_type(p.bound, sigma)
            if not (b == top or refsub.sub(py_core(a), b, 2)):
                return False
    return True


def _tvars(t, out):
    import src.ir.types as tp
    if isinstance(t, tp.TypeParameter):
        out.append(t)
    elif isinstance(t, tp.WildCardType) and t.bound is not None:
        _tvars(t.bound, out)
    elif isinstance(t, tp.ParameterizedType):
        for a in t.type_args:
            _tvars(a, out)
    return out


def py_within(a, b, top):
    import src.ir.types as tp
    import refsub
    if isinstance(a, tp.WildCardType) and a.bound is None:
        return True
    if isinstance(b, tp.WildCardType):
        if b.bound is None:
            return True
        b = b.bound
    return b == top or refsub.sub(py_core(a), b, 2)     # depth 2: without the exponential widening search


def pre_consistent(params, pre, top):
    """the caller's requests respect the bounds among themselves (same reading as `preConsistent`)"""
    import src.ir.types as tp
    pre = {k: v for k, v in (pre or {}).items() if v}
    for q in params:
        t = pre.get(q)
        if not t or q.bound is None:
            continue
        if not all((v not in params) or (v in pre) for v in _tvars(q.bound, [])):
            continue
        if not py_within(t, tp.substitute_type(q.bound, pre), top):
            return False
    return True


def py_judge(params, sigma, targs, top, pre=None):
    """the clauses of the property that need no model: one argument per parameter, no primitive, no bare
    constructor, argument (or the bound of its projection) within the substituted bound by the independent
    declarative decider refsub.  Returns a list of (param, clause)"""
    import src.ir.types as tp
    import refsub
    bad = []
    if targs is not None and len(targs) != len(params):
        bad.append((None, "argument-count"))
    full = pre_consistent(params, pre, top)
    for i, p in enumerate(params):
        a = sigma.get(p)
        if a is None:
            bad.append((str(p), "no-argument"))
            continue
        if targs is not None and i < len(targs) and not (targs[i] == a):
            bad.append((str(p), "argument-list-differs-from-map"))
        c = py_core(a)
        if not full or requested_by(pre, p, a, params):
            continue
        for x in (a, c):
            if getattr(x, "primitive", False) or isinstance(x, tp.TypeConstructor):
                bad.append((str(p), "primitive-or-bare-constructor"))
                break
        if p.bound is None or (isinstance(a, tp.WildCardType) and a.bound is None):
            continue
        if not py_within(a, tp.substitute_type(p.bound, sigma), top):
            bad.append((str(p), "outside-bound"))
    return bad


def refsub_sub(s, t):
    import refsub
    return refsub.sub(s, t, 2)     # depth 2: without the exponential widening search
