"""pipeline plugin (C09): record every invocation of `_find_types` / `find_irrelevant_type` of a real
generator + TypeOverwriting run through the pass-through wrappers of find_lib.Instrument, and judge
them inside the worker (exact correspondence with the model, Lean result checkers)."""
import find_lib
import gen_types


def install(state, spec):
    state["ins"] = find_lib.Instrument(cap=spec.get("find_cap", 4000)).install()
    find_lib.VARIANT["v"] = spec.get("find_variant")
    state["boxes"] = find_lib.boxes_of(gen_types.factory(spec["lang"]))


def collect(state):
    ins = state.get("ins")
    if ins is None:
        return {}
    try:
        frames = ins.take()
        for fr in frames:
            fr["boxes"] = state["boxes"]
        mr = find_lib.MiniRun()
        st = find_lib.eval_frames(mr, frames, "generator", origin={"stream": "generator"})
        out = {"calls": dict(ins.calls), "frames": st["frames"], "requests": st["requests"],
               "exact_diffs": st["exact_diffs"], "returned_types": st["returned_types"],
               "tallies": mr.tallies, "violations": mr.violations, "cases": mr.cases}
        if getattr(mr, "first_diff", None):
            out["first_diff"] = mr.first_diff
        return out
    except Exception as e:      # machinery error: reported as such by the parent
        import traceback
        return {"error": "%s: %s\n%s" % (type(e).__name__, e, traceback.format_exc()[-1500:])}


def uninstall(state):
    ins = state.pop("ins", None)
    if ins is not None:
        ins.uninstall()
