"""C10 helpers shared by check_C10.py and the pipeline plugin plug_unify.py: request
construction for the driver op `unify.run`, detection of the variant of `unify_types` the tree
implements, and the *independent judge* of an implementation result (the property as stated:
substitute the result back with the real `substitute_type` and compare with the target; a
reference matcher written from the specification explains positions left open)."""
import export
from export import kind, VAR

SIG_VARIANCE = "unify_types:opposite-variance-projections-unified"
SIG_STAR = "unify_types:star-projection-raises"
SIG_NONE = "unify_types:star-target-binds-none"
SIG_REASSIGNED = "unify_types:open-bounded-variable-reassigned"
SIG_NOT_UNIFIER = "unify_types:not-a-unifier"
SIG_BOUND = "unify_types:assigned-type-violates-bound"

_BN = {}


def builtin_names():
    """[class, name] for the built-ins whose attribute `name` differs from get_name()
    (Java/Groovy primitives); `unify_types` reads the attribute"""
    if "v" in _BN:
        return _BN["v"]
    import gen_types
    import src.ir.types as tp
    out = {}
    for lang in gen_types.LANGS:
        fac = gen_types.factory(lang)
        ts = [t for t in fac.get_non_nothing_types() if isinstance(t, tp.Builtin) and not t.is_type_constructor()]
        for t in list(ts):
            try:
                ts.append(type(t)(primitive=True))
            except TypeError:
                pass
        for t in ts:
            if str(t.name) != t.get_name():
                out[str(type(t))] = str(t.name)
    _BN["v"] = sorted([k, v] for k, v in out.items())
    return _BN["v"]


def witnesses():
    """the two witnessed exceptions of DESIGN section 6 finding 5 (+ the None binding), as
    (name, signature, target, pattern, answer of the unchanged tree, answer of the repaired tree)"""
    import src.ir.types as tp
    import src.ir.kotlin_types as kt
    T = tp.TypeParameter("T")
    A = tp.TypeConstructor("A", [tp.TypeParameter("X")])
    w = []
    w.append(("variance", SIG_VARIANCE, A.new([tp.WildCardType(kt.String, tp.Contravariant)]),
              A.new([tp.WildCardType(T, tp.Covariant)]), [("T", "String")], []))
    w.append(("star", SIG_STAR, A.new([tp.WildCardType()]), A.new([tp.WildCardType()]), "AttributeError", []))
    w.append(("star-target", SIG_NONE, A.new([tp.WildCardType()]), A.new([tp.WildCardType(T, tp.Covariant)]),
              [("T", "None")], []))
    return w


def short_answer(f):
    try:
        r = f()
    except Exception as e:
        return type(e).__name__
    return [(str(k.name), export.short(v)) for k, v in r.items()]


def detect_variant():
    """which `unify_types` the tree implements: 'asIs', 'repaired' or 'mixed:<detail>'"""
    import src.ir.type_utils as tu
    import src.ir.kotlin_types as kt
    fac = kt.KotlinBuiltinFactory()
    got = []
    detail = []
    for name, sig, t, p, asis, rep in witnesses():
        a = short_answer(lambda: tu.unify_types(t, p, fac))
        got.append("asIs" if a == asis else "repaired" if a == rep else "other")
        detail.append("%s=%s" % (name, a))
    if all(g == "asIs" for g in got):
        return "asIs", detail
    if all(g == "repaired" for g in got):
        return "repaired", detail
    return "mixed:" + ",".join(detail), detail


def to_request(t1, t2, fac, same_type, variant=None, call=None):
    """request for the driver + the implementation's answer (True = dict equal to `expect`,
    else the exception's class name) + the dict itself"""
    import src.ir.type_utils as tu
    tt = export.TypeTable()
    rq = {"op": "unify.run", "target": tt.add(t1), "pattern": tt.add(t2), "same_type": bool(same_type),
          "any": None, "bn": builtin_names()}
    if fac is not None:
        rq["any"] = tt.add(fac.get_any_type())
    if variant is not None:
        rq["variant"] = variant
    res = None
    try:
        res = call() if call is not None else tu.unify_types(t1, t2, fac, same_type=same_type)
        rq["expect"] = [[tt.add(k), tt.add(v)] for k, v in res.items()]
        impl = True
    except Exception as e:
        impl = type(e).__name__
    rq["tt"] = tt.entries
    return rq, impl, res


# ---- the independent judge -------------------------------------------------------------------
def has_tv(t):
    k = kind(t)
    if k in ("v", "c"):
        return True
    if k == "w":
        return t.bound is not None and has_tv(t.bound)
    if k == "p":
        return any(has_tv(a) for a in t.type_args)
    return False


def lookup(sig, key):
    for k, v in sig:
        if k == key:
            return True, v
    return False, None


def ref_matches(sig, t, p, notes):
    """the specification `Matches σ t p` (strict): applying σ to p gives t, up to variables σ leaves
    open; at an open position the target component satisfies (matches) the variable's bound"""
    kp = kind(p)
    if kp == "v":
        found, v = lookup(sig, p)
        if found:
            return v is not None and v == t
        if p.bound is not None and kind(p.bound) == "p" and kind(t) == "p":
            notes.append("open")
            return ref_matches(sig, t, p.bound, notes)
        return False
    if not has_tv(p):
        return t == p
    if kp == "p" and kind(t) == "p" and t.t_constructor == p.t_constructor \
            and len(t.type_args) == len(p.type_args):
        return all(ref_arg(sig, a, b, notes) for a, b in zip(t.type_args, p.type_args))
    return False


def ref_arg(sig, a, b, notes):
    if not has_tv(b):
        if a != b and kind(a) == "w" and kind(b) == "w" and a.bound == b.bound:
            notes.append("variance")
        return a == b
    if kind(b) == "w":
        if kind(a) == "w" and a.bound is None and b.bound is not None:
            notes.append("star-target")     # the variable was bound to None and re-assigned later
        if kind(a) != "w" or a.bound is None or b.bound is None:
            return False
        if VAR(a.variance) != VAR(b.variance):
            notes.append("variance")
            return False
        return ref_matches(sig, a.bound, b.bound, notes)
    return ref_matches(sig, a, b, notes)


def chain(t, same_type):
    """the targets the pattern may be matched against: t itself, in supertype mode also the
    chain of last supertypes"""
    out = [t]
    if not same_type:
        seen = 0
        while getattr(out[-1], "supertypes", None) and seen < 50:
            out.append(out[-1].supertypes[-1])
            seen += 1
    return out


def weak_reassigned(sig, t, p):
    """does the match succeed when an assigned bounded variable may still count as open?"""
    def m(t, p):
        kp = kind(p)
        if kp == "v":
            found, v = lookup(sig, p)
            if found and v is not None and v == t:
                return True
            if p.bound is not None and kind(p.bound) == "p" and kind(t) == "p":
                return m(t, p.bound)
            return False
        if not has_tv(p):
            return t == p
        if kp == "p" and kind(t) == "p" and t.t_constructor == p.t_constructor:
            return all(ma(a, b) for a, b in zip(t.type_args, p.type_args))
        return False

    def ma(a, b):
        if not has_tv(b):
            return a == b
        if kind(b) == "w":
            return kind(a) == "w" and a.bound is not None and b.bound is not None and \
                VAR(a.variance) == VAR(b.variance) and m(a.bound, b.bound)
        return m(a, b)
    return m(t, p)


def judge(t1, t2, fac, same_type, res):
    """None when the non-empty result is a unifier in the sense of the property, else
    (signature, description).  Model-independent: uses substitute_type, ==, refsub."""
    import src.ir.types as tp
    import refsub
    if not res:
        return None, "empty"
    sig = list(res.items())
    if any(v is None for _, v in sig):
        return (SIG_NONE, "a variable is bound to None (bound of a star projection)"), "none"
    targets = chain(t1, same_type)
    exact = False
    try:
        back = tp.substitute_type(t2, dict(res))
        exact = any(back == x for x in targets)
    except Exception:
        back = None
    how = "exact"
    if not exact:
        ok = False
        allnotes = []
        for x in targets:
            notes = []
            if ref_matches(sig, x, t2, notes):
                ok = True
                break
            allnotes += notes
        if not ok:
            if "variance" in allnotes:
                return (SIG_VARIANCE, "projections of different variance were unified: substituting back gives %s"
                        % export.short(back)), "bad"
            if "star-target" in allnotes:
                return (SIG_NONE, "a star projection of the target met a projection of the pattern (its variable was "
                        "bound to None and re-assigned later): substituting back gives %s" % export.short(back)), "bad"
            if any(weak_reassigned(sig, x, t2) for x in targets):
                return (SIG_REASSIGNED, "a bounded variable left open at one position is assigned at another: "
                        "substituting back gives %s" % export.short(back)), "bad"
            return (SIG_NOT_UNIFIER, "substituting the result back gives %s" % export.short(back)), "bad"
        how = "open"
    # bounds
    for k, v in sig:
        if k.bound is None:
            continue
        try:
            br = k.get_bound_rec(fac)
        except Exception:
            continue
        if br is None:
            continue
        cands = [k.bound, br]
        good = any(refsub.sub(v, b) for b in cands)
        if not good and kind(v) == "v":
            try:
                vb = v.get_bound_rec(fac)
            except Exception:
                vb = None
            good = vb is not None and any(refsub.sub(vb, b) for b in cands)
        if not good:
            return (SIG_BOUND, "%s is assigned %s which does not satisfy its bound %s"
                    % (k.name, export.short(v), export.short(k.bound))), "bad"
    return None, how
