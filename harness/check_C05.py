"""C05 — generated programs are closed and respect scoping and mutability rules (partial).

Proof side : lean/Heph/Props/C05.lean — `closed_sound`/`closed_complete` (the scope walker `closedCheck` decides the
             declarative `Closed`), `capture_sound`/`capture_complete`/`closed_capturesOK` (`captureCheck` decides javac's
             capture rule `CapturesOK`; the generator's rule implies it), `assignableVars_nonfinal`, `word_fresh`, `identifiers_distinct`,
             `identifier_not_reserved` (both removal variants; counterexample for the code as it is on the regenerated
             keyword tables).  `harness/regen_c05.py` rewrites lean/Heph/Generated/Keywords.lean before the build.
Streams    :
  variant      which `remove_reserved_words` the tree implements (as-is = case-sensitive set difference, fixed =
               case-insensitive) against Lean's `Pool.codeIsFixed`.
  reserved     EXHAUSTIVE over src/resources/words x languages x modes on the real `RandomUtils.remove_reserved_words`:
               every surviving word that some mode of the real `gen_identifier` turns into a keyword is a failing
               input (signature identifier:reserved-after-<mode>:<lang>); the list is compared with the model's
               `reservedCollisions` on the regenerated tables.
  pool         exact correspondence of the pool model (`word`, `reset_word_pool`, `remove_reserved_words`,
               `gen_identifier`, `caps`) on random operation histories; the real draws are fed to the model; a Python
               reference judges freshness directly.
  mutants      the checker is not vacuous: every mutant (unbound variable/function/assignment target, everything
               final, every class abstract, duplicated declaration, a declared name made a keyword) of explored
               programs must be rejected (else harness error).
  direct       DIRECT decision-point stream (harness/c05_direct.py): the real Generator in crafted contexts, a FIXED plan of
               cases (host: method of the parameterized class Cls<N, U> / parameterized function / plain function; chain
               of nested functions and lambdas entered through the real gen_func_decl / gen_lambda; script of one to three
               real routines; expected type: bare type variable, type variables at depth 1 and 2, function type, ground;
               generator seed; switches; policies), CPU cap per case.  Judges of the RESULT STATE: `closed.check` and the
               verified capture checker (`Capture.captureCheck`: javac's effectively-final rule) on the fragment; on the
               live objects: type variables of every created declaration are introduced by an enclosing declaration
               (where did `_gen_matching_func` put the helper?), Java capture (no read of a non-final / assignment of any
               local of an enclosing body inside a lambda or nested function), `namespace` / `_inside_java_lambda` /
               `declaration_namespace` / `_in_super_call` after every routine equal their values before it.  Negative
               controls (helper forced to top level for each type-variable shape; flag dropped after a lambda) must be
               flagged, else harness error.
  programs     `pipeline.run_many` over languages x switch settings x seeds; the verified `closed.check` runs on the
               'gen' and the 'erase' export of every program (a rejection IS a failing input: replay = generator
               tuple + stage + path + reason); every call of `_get_assignable_vars` is recorded
               (plugin_assignable), judged against the declarations (target non-final, nothing inside a Java lambda)
               and compared with the Lean model `assignableVars`.  The plan is fixed and the budget is CPU time summed
               over the workers (plugin_scope; per-program CPU cap; wall clock only as a safety net); every third program
               runs with generation policies (cfg.prob.* / cfg.limits.*) that favour lambdas, direct calls and side
               effects; `captureCheck` runs on every export; `namespace` / `_inside_java_lambda` are checked after every
               gen_lambda / gen_func_decl / _gen_func_ref_lambda / gen_class_decl of every run; evidence per language
               (`scoping_machinery_per_language`): programs, lambdas, nested lambdas, nested functions, member functions of
               parameterized classes, helpers made by _gen_matching_func / _gen_matching_class by expected-type shape and
               placement.
"""
import collections
import json
import multiprocessing
import os
import random
import subprocess
import tempfile
import time

import common
import c05_direct
import pipeline
import plugin_scope
import regen_c05

LEVEL = "proof"
PLUGIN = "plugin_assignable"
SCOPE_PLUGIN = "plugin_scope"     # must be installed last: it may skip the program (CPU budget)
STAGES = ("gen", "erase")
LANGS = pipeline.LANGS
MODES = (None, "lower", "capitalize")


# ------------------------------------------------------------------ helpers
def run_driver(requests, timeout=900):
    """as common.run_driver, but through temporary FILES instead of pipes.  While the worker pool of the programs
    stream is alive it forks replacement workers at arbitrary moments (maxtasksperchild); a fork that happens between
    subprocess's pipe creation and close leaves a copy of the write end of the driver's stdin in a worker, the driver
    then never sees end-of-file and `communicate` waits for ever (observed: two hangs in calibration).  Regular files
    have no such end-of-file problem."""
    if not os.path.exists(common.DRV):
        raise common.HarnessError("driver not built: " + common.DRV)
    with tempfile.TemporaryFile("w+") as fin, tempfile.TemporaryFile("w+") as fout, tempfile.TemporaryFile("w+") as ferr:
        for r in requests:
            fin.write(json.dumps(r, separators=(",", ":")) + "\n")
        fin.flush()
        fin.seek(0)
        try:
            p = subprocess.run([common.DRV], stdin=fin, stdout=fout, stderr=ferr, timeout=timeout)
        except subprocess.TimeoutExpired:
            raise common.HarnessError("driver did not answer %d requests within %d s" % (len(requests), timeout))
        fout.seek(0)
        out = fout.read()
        if p.returncode != 0:
            ferr.seek(0)
            raise common.HarnessError("driver exited %d: %s" % (p.returncode, ferr.read()[-500:]))
    lines = out.split("\n")
    if lines and lines[-1] == "":
        lines.pop()
    if len(lines) != len(requests):
        raise common.HarnessError("driver answered %d lines for %d requests" % (len(lines), len(requests)))
    return [json.loads(l) for l in lines]


def report(run, obj, signature, no_input=False):
    """one VIOLATION (or KNOWN-FINDING) line per signature and run: the first failing input is the replay, the
    others are counted in the evidence"""
    seen = run.cov.setdefault("signatures_reported", {})
    seen[signature] = seen.get(signature, 0) + 1
    if seen[signature] == 1:
        run.violation(obj, signature=signature, no_input=no_input)


def mode_name(m):
    return "plain" if m is None else m


def reserved_signature(lang, mode):
    return "identifier:reserved-after-%s:%s" % (mode_name(mode), lang)


def reason_shape(reason):
    """the shape of a rejection reason: its words without the names of the program"""
    toks = reason.split(":")
    if toks[0] == "arity":
        return ":".join(toks[:2])
    return toks[0]


def real_utils():
    pipeline.setup()
    from src import utils
    return utils


def fresh_ru(words, seed=0):
    """a private RandomUtils whose pool is `words` (instance attributes shadow the class-level pool)"""
    utils = real_utils()
    # `RandomUtils(seed)` cannot be called once src.utils is loaded: the module rebinds the name `random` to its own
    # RandomUtils instance, so `__init__` (whose only statement is `self.r = random.Random(seed)`) raises.  Same effect:
    ru = object.__new__(utils.RandomUtils)
    ru.r = random.Random(seed)
    ru.INITIAL_WORDS = set(words)
    ru.WORDS = set(words)
    return ru


def real_gen_identifier(ru, mode):
    """the real `gen_identifier(mode)` drawing from the pool of `ru`"""
    utils = real_utils()
    from src.generators import utils as gu
    saved = utils.random
    utils.random = ru
    try:
        assert gu.ut is utils
        return gu.gen_identifier(mode)
    finally:
        utils.random = saved


def py_lower_set(kws):
    return {k.lower() for k in kws}


# ------------------------------------------------------------------ variant
def detect_variant(tables):
    """which removal does the tree implement?  'asIs' | 'fixed' | 'unknown:<detail>'"""
    probe = set(tables["collisionWords"]) | {"zzzqq", "heph"}
    verdicts = set()
    for lang in LANGS:
        kws = set(tables["keywords"][lang])
        ru = fresh_ru(probe)
        ru.remove_reserved_words(lang)
        got = set(ru.WORDS)
        if set(ru.INITIAL_WORDS) != got:
            return "unknown:INITIAL_WORDS and WORDS differ after remove_reserved_words(%s)" % lang
        as_is = probe - kws
        fixed = {w for w in probe if w.lower() not in py_lower_set(kws)}
        if as_is == fixed and got == as_is:
            continue
        if got == as_is:
            verdicts.add("asIs")
        elif got == fixed:
            verdicts.add("fixed")
        else:
            return "unknown:%s leaves %s" % (lang, sorted(got ^ as_is)[:6])
    if len(verdicts) > 1:
        return "unknown:mixed"
    return verdicts.pop() if verdicts else "asIs"


# ------------------------------------------------------------------ reserved words (exhaustive on the real code)
def reserved_stream(run, tables, variant):
    """every entry of the word file, every language with a keyword file, every mode — on the REAL
    remove_reserved_words / word / gen_identifier"""
    utils = real_utils()
    words = regen_c05.read_words()
    real = []
    survivors = {}
    for lang in LANGS:
        kws = utils.get_reserved_words(utils.RandomUtils.resource_path, lang)
        if set(kws) != set(tables["keywords"][lang]):
            raise common.HarnessError("regen_c05 and get_reserved_words read different keyword sets for " + lang)
        ru = fresh_ru(words)
        ru.remove_reserved_words(lang)
        surv = sorted(ru.WORDS)
        survivors[lang] = len(surv)
        run.cov["traces_validated_against_impl"] += 1
        if not kws:
            continue            # nothing is reserved: no identifier can collide
        one = fresh_ru(())
        for w in surv:
            for mode in MODES:
                one.WORDS = {w}
                ident = real_gen_identifier(one, mode)
                if ident in kws:
                    real.append((lang, w, mode, ident))
    real.sort(key=lambda x: (LANGS.index(x[0]), x[1], mode_name(x[2])))
    run.cov["reserved"] = {"word_file_entries": len(words), "survivors_per_language": survivors,
                           "modes": [mode_name(m) for m in MODES],
                           "collisions_real": [[a, b, mode_name(c), d] for a, b, c, d in real]}
    run.count({"stream": "reserved", "words": len(words), "languages": list(LANGS)})
    # the model's list on the regenerated tables, for the variant the tree implements
    ans = run_driver([{"op": "closed.collisions", "fixed": variant == "fixed"}])[0]
    if "error" in ans:
        raise common.HarnessError("closed.collisions: " + ans["error"])
    model = sorted(tuple(x) for x in ans["r"])
    realm = sorted((lang, w, ident) for lang, w, _, ident in real)
    run.cov["reserved"]["collisions_model"] = [list(x) for x in model]
    # every collision is a failing input: replayed through pool -> remove_reserved_words -> word() -> gen_identifier
    for lang, w, mode, ident in real:
        demo = demonstrate_reserved(lang, w, mode)
        run.count({"stream": "reserved-demo", "lang": lang, "word": w, "mode": mode_name(mode)})
        if not demo["reserved"]:
            raise common.HarnessError("reserved identifier not reproduced on the single-word pool: %r" % (demo,))
        predicted = (lang, w, ident) in model
        report(run, {"kind": "failing-input", "stream": "reserved", "lang": lang, "word": w,
                     "mode": mode_name(mode), "identifier": demo["identifier"], "predicted_by_model": predicted,
                     "note": "the word survives remove_reserved_words(%s) and gen_identifier(%r) makes a "
                             "reserved word of the language of it" % (lang, mode)},
               signature=reserved_signature(lang, mode) if predicted else
               "identifier:reserved-unmodelled:%s:%s" % (mode_name(mode), lang))
    if model != realm:
        run.log("reserved-word collisions differ: model %s real %s" % (model[:8], realm[:8]))
        run.broken.append({"obligation": "correspondence reservedCollisions", "detail": {"model": model, "real": realm}})
        if not real:
            report(run, {"kind": "broken-correspondence", "stream": "reserved", "model": model, "real": realm,
                         "note": "the exhaustive walk over the word file finds no reserved identifier on the real code"},
                   signature="reserved:model-differs", no_input=True)
    if run.cov.get("lean_ahead_of_tree") and real:
        lang, w, mode, ident = real[0]
        report(run, {"kind": "failing-input", "stream": "reserved", "lang": lang, "word": w, "mode": mode_name(mode),
                     "identifier": ident,
                     "note": "Pool.codeIsFixed = true (identifier_not_reserved_status then claims the identifier clause "
                             "of C05 of the code) but the tree implements the case-sensitive removal"},
               signature="identifier:lean-claims-repaired-removal")
    return real


def demonstrate_reserved(lang, w, mode):
    """the real path: pool -> remove_reserved_words(lang) -> word() -> gen_identifier(mode)"""
    utils = real_utils()
    kws = utils.get_reserved_words(utils.RandomUtils.resource_path, lang)
    ru = fresh_ru({w})
    ru.remove_reserved_words(lang)
    if w not in ru.WORDS:
        return {"identifier": None, "reserved": False, "removed": True}
    ident = real_gen_identifier(ru, mode)
    return {"identifier": ident, "reserved": ident in kws, "removed": False}


# ------------------------------------------------------------------ pool correspondence
def pool_plan(rng, tables, words, size, nops):
    """a random pool and an abstract operation list (no outcome in it): replayable"""
    coll = tables["collisionWords"]
    base = rng.sample(words, size)
    if coll and rng.random() < 0.7:
        base += rng.sample(coll, min(len(coll), rng.randint(1, 6)))
    base = sorted(set(base))
    plan = []
    for _ in range(nops):
        x = rng.random()
        if x < 0.55:
            plan.append(["word"])
        elif x < 0.80:
            plan.append(["gen_identifier", rng.choice(MODES)])
        elif x < 0.86:
            plan.append(["reset"])
        elif x < 0.93:
            plan.append(["remove_reserved", rng.choice(LANGS)])
        else:
            length = rng.choice([1, 1, 2])
            bl = [c for c in "ABCDEFGHIJKLMNOPQRSTUVWXYZ" if rng.random() < 0.85][:25] if length == 1 else \
                ["AB", "BA", "QZ"]
            plan.append(["caps", length, bl])
    return {"base": base, "ru_seed": rng.randrange(1 << 30), "plan": plan}


def pool_execute(hist, tables, variant):
    """run the plan on the real RandomUtils; returns (driver request, real answers, final sets, problems found by
    the Python reference: a draw comes from the pool, leaves it, and does not repeat since the last reset)"""
    ru = fresh_ru(hist["base"], seed=hist["ru_seed"])
    ops, real = [], []
    drawn_since_reset = []
    problems = []
    for step in hist["plan"]:
        kind = step[0]
        if kind in ("word", "gen_identifier"):
            mode = step[1] if kind == "gen_identifier" else None
            if not ru.WORDS:
                try:
                    ru.word()
                    got = "no-exception"
                except IndexError:
                    got = "IndexError"
                ops.append(["word", None])
                real.append(got)
                continue
            # record what the real word() picks: wrap r.choice for this one call
            picked = {}
            orig_choice = ru.r.choice

            def choice(seq, _o=orig_choice, _p=picked):
                v = _o(seq)
                _p["w"] = v
                return v
            ru.r.choice = choice
            try:
                before = set(ru.WORDS)
                got = ru.word() if kind == "word" else real_gen_identifier(ru, mode)
            finally:
                ru.r.choice = orig_choice
            w = picked.get("w")
            if w is None:
                problems.append("word() did not call r.choice")
                w = got
            if w not in before or w in ru.WORDS:
                problems.append("word() returned %r: in pool before %s, after %s" % (w, w in before, w in ru.WORDS))
            if w in drawn_since_reset:
                problems.append("word() returned %r twice since the last reset" % w)
            expect = w if mode is None else (w.lower() if mode == "lower" else w.capitalize())
            if got != expect:
                problems.append("%s(%r) on the draw %r gave %r" % (kind, mode, w, got))
            drawn_since_reset.append(w)
            ops.append(["word", w] if kind == "word" else ["gen_identifier", mode, w])
            real.append(got)
        elif kind == "reset":
            ru.reset_word_pool()
            drawn_since_reset = []
            ops.append(["reset"])
            real.append(None)
        elif kind == "remove_reserved":
            ru.remove_reserved_words(step[1])
            ops.append(["remove_reserved", tables["keywords"][step[1]], variant == "fixed"])
            real.append(None)
        else:
            _, length, bl = step
            samples = []
            orig_sample = ru.r.sample

            def sample(pop, k, _o=orig_sample, _s=samples):
                v = _o(pop, k)
                _s.append("".join(v))
                return v
            ru.r.sample = sample
            try:
                got = ru.caps(length, bl)
            finally:
                ru.r.sample = orig_sample
            if got in bl or len(got) != length or not got.isupper():
                problems.append("caps(%d, %r) returned %r" % (length, bl, got))
            ops.append(["caps", samples, bl])
            real.append(got)
    rq = {"op": "closed.pool", "initial": hist["base"], "ops": ops}
    final = {"words": sorted(ru.WORDS), "initial": sorted(ru.INITIAL_WORDS)}
    return rq, real, final, problems


def pool_compare(rq, real, final, a):
    """None if the model's answer equals the real outcome, else a description of the first difference"""
    if "error" in a:
        raise common.HarnessError("closed.pool: " + a["error"])
    if a["r"] == real and sorted(a["words"]) == final["words"] and sorted(a["initial"]) == final["initial"]:
        return None
    first = next((i for i, (x, y) in enumerate(zip(a["r"], real)) if x != y), None)
    return {"first_differing_op": None if first is None else rq["ops"][first],
            "model": None if first is None else a["r"][first], "real": None if first is None else real[first],
            "final_words_differ": sorted(set(a["words"]) ^ set(final["words"]))[:10],
            "final_initial_differ": sorted(set(a["initial"]) ^ set(final["initial"]))[:10]}


def pool_stream(run, tables, variant, ndraws):
    words = regen_c05.read_words()
    rng = random.Random(run.rng.randrange(1 << 30))
    hists, reqs, reals, finals = [], [], [], []
    draws = 0
    sizes = collections.Counter()
    while draws < ndraws:
        big = len(reqs) % 25 == 24
        size = 10000 if big else rng.choice([0, 1, 3, 8, 20, 60, 200])
        nops = 150 if big else rng.choice([5, 20, 60, 150])
        hist = pool_plan(rng, tables, words, size, nops)
        rq, real, final, problems = pool_execute(hist, tables, variant)
        if problems:
            report(run, {"kind": "failing-input", "stream": "pool", "history": hist, "problems": problems,
                           "note": "judged by the Python reference: a draw must come from the pool, leave it, not repeat "
                                   "since the last reset; the identifier is the draw in the asked spelling; caps avoids "
                                   "the blacklist"}, signature="pool:reference-fails")
        hists.append(hist)
        reqs.append(rq)
        reals.append(real)
        finals.append(final)
        sizes[size] += 1
        draws += sum(1 for o in rq["ops"] if o[0] in ("word", "gen_identifier") and o[-1] is not None)
    answers = run_driver(reqs)
    diffs = 0
    for hist, rq, real, final, a in zip(hists, reqs, reals, finals, answers):
        run.count({"stream": "pool", "initial": len(rq["initial"]), "ops": len(rq["ops"])}, nontrivial=bool(rq["ops"]))
        run.cov["traces_validated_against_impl"] += 1
        for o in rq["ops"]:
            run.tally("pool_ops", o[0] if o[0] != "gen_identifier" else "gen_identifier:" + mode_name(o[1]))
        detail = pool_compare(rq, real, final, a)
        if detail is not None:
            diffs += 1
            if diffs == 1:
                run.log("pool correspondence breaks:", common.canon(detail)[:400])
                run.broken.append({"obligation": "correspondence closed.pool", "detail": detail})
                if not run.violations:
                    # the Python reference judged every draw of every history (above) and found nothing
                    report(run, {"kind": "broken-correspondence", "stream": "pool", "history": hist, "detail": detail,
                                   "note": "model and RandomUtils differ; the Python reference accepts every real draw"}, signature="pool:model-differs", no_input=True)
    run.cov["pool"] = {"histories": len(reqs), "draws": draws, "pool_sizes": {str(k): v for k, v in sorted(sizes.items())},
                       "differences": diffs}
    run.log("pool: %d histories, %d draws, %d differences" % (len(reqs), draws, diffs))


# ------------------------------------------------------------------ programs
# generation policies the harness sets per program (cfg.prob.* / cfg.limits.*; None = the defaults): more lambdas than
# function references, direct calls instead of reference calls, more side effects (assignments) and locals
KNOB_SETS = (None,
             {"func_ref": 0.1, "max_side_effects": 3, "max_var_decls": 4},
             {"func_ref": 0.2, "func_ref_call": 0.3, "max_side_effects": 2, "function_expr": 0.5})


def make_specs(rng, langs, settings, nseeds, depths, cap, cpu_cap=None, knob_sets=(None,)):
    specs = []
    for lang in langs:
        for sw in settings:
            for k in range(nseeds):
                sp = {"lang": lang, "seed": rng.randrange(1, 10 ** 6), "switches": tuple(sw),
                      "max_depth": depths[k % len(depths)], "stages": list(STAGES), "export": True,
                      "plugins": [PLUGIN, SCOPE_PLUGIN], "cap": cap}
                if cpu_cap:
                    sp["cpu_cap"] = cpu_cap
                kn = knob_sets[k % len(knob_sets)]
                if kn:
                    sp["knobs"] = dict(kn)
                specs.append(sp)
    rng.shuffle(specs)
    return specs


def replay_of(spec, **kw):
    d = {"lang": spec["lang"], "gen_seed": spec["seed"], "switches": list(spec["switches"]),
         "max_depth": spec["max_depth"]}
    if spec.get("knobs"):
        d["knobs"] = spec["knobs"]
    d.update(kw)
    return d


def stream_results(specs, deadline, workers, cpu_budget=None):
    """the plan is fixed; the budget is CPU time summed over the workers (plugin_scope skips the programs that are left
    once it is spent), `deadline` is a wall-clock safety net"""
    if len(specs) <= 2:
        for s in specs:
            yield s, pipeline.run_one(s)
        return
    ctx = multiprocessing.get_context("fork")
    if cpu_budget:
        plugin_scope.BUDGET["value"] = ctx.Value("d", 0.0)
        plugin_scope.BUDGET["limit"] = cpu_budget
    pool = ctx.Pool(workers, initializer=pipeline._worker_init, maxtasksperchild=25)
    try:
        it = pool.imap_unordered(pipeline.run_one, specs, chunksize=1)
        for _ in specs:
            left = deadline - time.time()
            if left <= 0:
                return
            try:
                r = it.next(timeout=left)
            except multiprocessing.TimeoutError:
                return
            yield r["spec"], r
    finally:
        pool.terminate()
        pool.join()
        plugin_scope.BUDGET["value"] = None


def check_request(export, kws, stats=True, capture=True):
    rq = dict(export)
    rq["op"] = "closed.check"
    rq["keywords"] = kws
    rq["stats"] = stats
    rq["capture"] = capture
    return rq


def expected_site_counts(export):
    """how many sites of each family `Spec/Scope.sites` must produce, counted here on the JSON export, node by node
    (independent of the Lean walk): one per name use, per declared identifier, per scope, per type occurrence that the
    specification names (declared types, type arguments, bounds, signatures - not the recorded `inferred` types)"""
    tt = export["tt"]
    c = collections.Counter()

    def bounded(tps):
        return sum(1 for i in tps if tt[i].get("bound") is not None)

    def f(n):
        k = n.get("n")
        if k is None:
            return
        if k == "variable":
            c["var"] += 1
        elif k == "call":
            c["call"] += 1
            c["type"] += len(n["targs"])
        elif k == "funcref":
            c["funcref"] += 1
            c["type"] += n["signature"] is not None
        elif k == "fieldaccess":
            c["fieldaccess"] += 1
        elif k == "new":
            c["new"] += 1
            c["type"] += 1
        elif k == "assign":
            c["assign"] += 1
        elif k == "super":
            c["super"] += 1
            c["type"] += 1
        elif k == "block":
            c["distinct:local"] += 1
        elif k == "class":
            c["identifier"] += 1
            c["distinct:field"] += 1
            c["distinct:method"] += 1
            c["distinct:type-parameter"] += 1
            c["type"] += bounded(n["tparams"])
        elif k == "func":
            c["identifier"] += 1
            c["distinct:parameter"] += 1
            c["distinct:type-parameter"] += 1
            c["type"] += bounded(n["tparams"]) + (n["retType"] is not None)
        elif k == "lambda":
            c["distinct:parameter"] += 1
            c["type"] += (n["signature"] is not None) + (n["retType"] is not None)
        elif k == "var":
            c["identifier"] += 1
            c["type"] += n["varType"] is not None
        elif k in ("field", "param"):
            c["identifier"] += 1
            c["type"] += 1
        elif k in ("bottom", "int", "real"):
            c["type"] += n["t"] is not None
        elif k in ("array", "is"):
            c["type"] += 1
    walk(export["decls"], f)
    c["distinct:top-level"] = 1
    return {k: v for k, v in c.items() if v}


def family(kind):
    if kind.startswith("distinct:"):
        return kind
    return kind.split(":")[0]


def site_coverage(run, spec, stage, export, kinds):
    got = collections.Counter()
    for k, v in kinds.items():
        got[family(k)] += v
    want = expected_site_counts(export)
    if dict(got) != want:
        diff = {k: (got.get(k, 0), want.get(k, 0)) for k in set(got) | set(want) if got.get(k, 0) != want.get(k, 0)}
        raise common.HarnessError("Spec/Scope.sites does not enumerate the program: (lean, json) counts differ %s for %s" % (
            diff, replay_of(spec, stage=stage)))
    run.cov["site_coverage_programs"] = run.cov.get("site_coverage_programs", 0) + 1


def report_rejection(run, spec, stage, ans, tables):
    """closedCheck (verified: closed_sound/closed_complete) rejects a generated program: a failing input"""
    lang = spec["lang"]
    reason, path = ans["reason"], ans["path"]
    shape = reason_shape(reason)
    if shape == "reserved-identifier":
        name = reason.split(":", 1)[1]
        sig = reserved_signature(lang, "capitalize" if name[:1].isupper() else "lower")
    else:
        sig = "closed:%s:%s" % (stage, shape)
    run.tally("rejections", "%s:%s:%s" % (lang, stage, shape))
    report(run, replay_of(spec, kind="failing-input", stream="programs", stage=stage, path=path, reason=reason,
                            note="the verified scope walker rejects this generated program (Closed fails at the path)"), signature=sig)


def assignable_requests(calls):
    reqs = []
    for c in calls:
        if isinstance(c["vars"], dict):
            raise common.HarnessError("plugin_assignable: helper raised " + c["vars"]["error"])
        reqs.append({"op": "closed.assignable", "insideJavaLambda": c["jl"], "vars": c["vars"]})
    return reqs


def capture_verdict(run, a, lang, obj, stream):
    """closed.check also answered `Capture.captureCheck` (javac's effectively-final rule; verified:
    capture_sound/capture_complete): a rejection is a failing input"""
    cap = a.get("capture")
    if cap is None:
        return
    n = a.get("captured") or [0, 0]
    cu = run.cov.setdefault("captured_uses", {})
    cu[lang] = [cu.get(lang, [0, 0])[0] + n[0], cu.get(lang, [0, 0])[1] + n[1]]
    if cap != "ok":
        shape = cap["reason"].split(":")[0]
        run.tally("capture_rejections", "%s:%s" % (lang, shape))
        report(run, dict(obj, kind="failing-input", stream=stream, path=cap["path"], reason=cap["reason"],
                         note="the verified capture checker (javac: a local captured by a lambda / nested function is "
                              "effectively final and is not assigned there) rejects this program"),
               signature="capture:%s" % shape)


def programs_stream(run, specs, tables, budget_s, label="programs", flush_at=96, cpu_budget=None):
    workers = min(12, max(2, (os.cpu_count() or 4) - 4))
    kinds = {l: collections.Counter() for l in LANGS}
    st8 = {"done": 0, "rejected": 0, "ass_diffs": 0}
    exports_for_mutants = []
    pending = []          # (what, spec, x, nbad of the program, request): the driver is started once per batch

    def flush():
        if not pending:
            return
        answers = run_driver([p[4] for p in pending])
        for (what, spec, x, nbad, rq_export), a in zip(pending, answers):
            lang = spec["lang"]
            if "error" in a:
                raise common.HarnessError("driver: %s on %s of %s" % (a["error"][:300], what, replay_of(spec)))
            if what == "check":
                stage = x
                run.count(replay_of(spec, stage=stage), nontrivial=True)
                run.cov["traces_validated_against_impl"] += 1
                run.tally("programs_checked", "%s:%s" % (lang, stage))
                for k, v in (a.get("kinds") or {}).items():
                    kinds[lang][k] += v
                site_coverage(run, spec, stage, rq_export, a.get("kinds") or {})
                capture_verdict(run, a, lang, replay_of(spec, stage=stage), "programs")
                if a["r"] != "ok":
                    st8["rejected"] += 1
                    run.log("REJECTED %s seed=%s switches=%s depth=%s stage=%s: %s" % (
                        lang, spec["seed"], spec["switches"], spec["max_depth"], stage, a["r"]))
                    report_rejection(run, spec, stage, a["r"], tables)
            else:
                c = x
                run.cov["assignable_compared"] += 1
                real, model = c["out"], a["r"]
                if model != real:
                    st8["ass_diffs"] += 1
                    if st8["ass_diffs"] == 1:
                        run.log("assignable correspondence breaks: real %s model %s" % (
                            common.canon(real)[:300], common.canon(model)[:300]))
                        run.broken.append({"obligation": "correspondence closed.assignable",
                                           "detail": {"real": real, "model": model, "call": c["i"]}})
                        if not nbad:
                            report(run, replay_of(spec, kind="broken-correspondence", stream="assignable", call=c,
                                                    model=model,
                                                    note="model and _get_assignable_vars differ; every target the real "
                                                         "function returned in this program is declared non-final"), signature="assignable:model-differs", no_input=True)
        del pending[:]

    for spec, r in stream_results(specs, time.time() + budget_s, workers, cpu_budget):
        lang = spec["lang"]
        sc = (r.get("plugins") or {}).get(SCOPE_PLUGIN) or {}
        if "error" in sc:
            raise common.HarnessError("plugin_scope: " + sc["error"])
        if sc.get("skipped"):
            st8["skipped"] = st8.get("skipped", 0) + 1
            continue
        st8["done"] += 1
        st8["cpu"] = st8.get("cpu", 0.0) + sc.get("cpu_s", 0.0)
        per = run.cov["scoping_machinery_per_language"].setdefault(lang, {"programs": 0})
        per["programs"] += 1
        for k, v in (sc.get("tally") or {}).items():
            per[k] = per.get(k, 0) + v
        for rec in sc.get("bad", []):
            report(run, replay_of(spec, kind="failing-input", stream="frame", state=rec,
                                  note="after the generator routine returned, `namespace` / `_inside_java_lambda` differ "
                                       "from their values before the call: the scope of the rest of the enclosing body is "
                                       "not the one the body was entered with"),
                   signature="state:not-restored:%s" % rec["after"])
        if "cutoff" in r:
            run.tally("pipeline_cutoff", "%s:%s" % (lang, r["cutoff"]))
        if "exception" in r:
            run.tally("pipeline_exception", "%s:%s:%s" % (lang, r["exception"]["stage"], r["exception"]["type"]))
        pl = (r.get("plugins") or {}).get(PLUGIN) or {}
        if "error" in pl:
            raise common.HarnessError("plugin: " + pl["error"])
        nbad = pl.get("nbad", 0)
        for stage in STAGES:
            st = r["stages"].get(stage)
            if st is None or "export" not in st:
                continue
            pending.append(("check", spec, stage, nbad, check_request(st["export"], tables["keywords"][lang])))
            if stage == "gen" and len(exports_for_mutants) < 40:
                exports_for_mutants.append((spec, st["export"]))
        calls = pl.get("calls", [])
        for c, q in zip(calls, assignable_requests(calls)):
            pending.append(("assignable", spec, c, nbad, q))
        for k, v in (pl.get("tally") or {}).items():
            run.cov["assignable_tally"][k] = run.cov["assignable_tally"].get(k, 0) + v
        run.cov["assignable_calls"] += pl.get("n", 0)
        # the specification-side judgement of the real filter (made in the worker on the live declarations)
        for rec in pl.get("bad", []):
            report(run, replay_of(spec, kind="failing-input", stream="assignable", call=rec,
                                    note="_get_assignable_vars returned a target whose declaration is final / "
                                         "unresolved, or a target inside a Java lambda (bad = [receiver, name, is_final])"), signature="assignable:%s" % ("inside-java-lambda" if rec["jl"] else "final-target"))
        if len(pending) >= flush_at:
            flush()
    flush()
    for l in LANGS:
        cur = run.cov["use_sites_per_language"].setdefault(l, {})
        for k, v in kinds[l].items():
            cur[k] = cur.get(k, 0) + v
    run.cov["programs_done_within_budget"] += st8["done"]
    run.cov["programs_skipped_cpu_budget_spent"] = run.cov.get("programs_skipped_cpu_budget_spent", 0) + st8.get("skipped", 0)
    run.cov["programs_cpu_s"] = round(run.cov.get("programs_cpu_s", 0) + st8.get("cpu", 0.0), 1)
    run.cov["programs_planned"] += len(specs)
    run.cov["programs_rejected"] += st8["rejected"]
    run.log("%s: %d of %d programs within the budget, %d rejections, %d assignable differences"
            % (label, st8["done"], len(specs), st8["rejected"], st8["ass_diffs"]))
    return exports_for_mutants


# ------------------------------------------------------------------ direct decision-point stream
def direct_plan(rng, ncases, langs_weight):
    """a FIXED number of cases: hosts x frame chains x scripts (one decision point, or prefix ; consumer) x expected-type
    shapes x generator seeds, Java weighted (its capture rule has no counterpart in the other languages)"""
    D = c05_direct
    shapes = D.SHAPES_TV + D.SHAPES_GROUND
    langs = [l for l, w in langs_weight for _ in range(w)]
    cases = []
    # structured part: every type-variable shape x every helper-creating decision point x every host with type variables
    for shape in D.SHAPES_TV:
        for op in ("matching_func", "func_call_plain", "func_ref", "matching_class_fun", "matching_class_fld"):
            for host in ("method", "pfunc"):
                for chain in ("", "n", "l"):
                    cases.append((host, chain, [[op, shape]]))
    # structured part: every prefix x every consumer inside nested frames (the state a finished sub-generation leaves)
    for pre in D.PREFIX_OPS:
        for con in D.CONSUMER_OPS:
            for chain in ("n", "l", "nl", "ll"):
                cases.append((rng.choice(D.HOSTS), chain, [[pre, rng.choice(shapes)], [con, rng.choice(shapes)]]))
    rng.shuffle(cases)
    out = []
    i = 0
    while len(out) < ncases:
        if i < len(cases):
            host, chain, script = cases[i]
        else:
            host, chain = rng.choice(D.HOSTS), rng.choice(D.CHAINS)
            if rng.random() < 0.4:
                script = [[rng.choice(D.OPS), rng.choice(shapes)]]
            else:
                script = [[rng.choice(D.PREFIX_OPS), rng.choice(shapes)], [rng.choice(D.CONSUMER_OPS), rng.choice(shapes)]]
                if rng.random() < 0.3:
                    script.append([rng.choice(D.CONSUMER_OPS), rng.choice(shapes)])
        i += 1
        lang = langs[len(out) % len(langs)]
        kn = KNOB_SETS[len(out) % len(KNOB_SETS)]
        c = {"lang": lang, "seed": rng.randrange(1, 10 ** 6), "switches": rng.choice([(0, 0, 0, 0), (0, 0, 0, 0), (1, 1, 0, 0), (0, 0, 1, 1)]),
             "max_depth": rng.choice([2, 3, 3, 4]), "host": host, "chain": chain, "script": script}
        if kn:
            c["knobs"] = dict(kn)
        out.append(c)
    return out


def _direct_worker(case):
    import signal
    old = signal.signal(signal.SIGPROF, pipeline._alarm)
    signal.setitimer(signal.ITIMER_PROF, case.get("cpu_cap", 2))
    try:
        return c05_direct.run_case(case)
    except pipeline.Cutoff:
        return {"case": case, "cutoff": True, "problems": [], "tally": {}}
    finally:
        signal.setitimer(signal.ITIMER_PROF, 0)
        signal.signal(signal.SIGPROF, old)
        c05_direct.reset_knobs()


def direct_replay_obj(case, **kw):
    d = {"stream": "direct", "case": case}
    d.update(kw)
    return d


def direct_stream(run, cases, tables, label="direct", sabotage_expected=None):
    """run the cases (worker processes, fixed plan, CPU cap per case), judge the result state.  With
    `sabotage_expected` the cases carry a deliberate harness-side sabotage (negative control): nothing is reported,
    the number of cases the judges flag is returned"""
    workers = min(12, max(2, (os.cpu_count() or 4) - 4))
    t0 = time.time()
    if len(cases) <= 2:
        results = [_direct_worker(c) for c in cases]
    else:
        ctx = multiprocessing.get_context("fork")
        with ctx.Pool(workers, initializer=pipeline._worker_init, maxtasksperchild=200) as pool:
            results = pool.map(_direct_worker, cases, chunksize=8)
    cov = run.cov.setdefault("direct", {"cases": 0, "cutoff": 0, "exceptions": {}, "per_language": {}, "decision_points": {},
                                        "chains": {}, "hosts": {}, "judged_by_closed_check": 0})
    reqs, owners = [], []
    flagged = set()
    for idx, r in enumerate(results):
        case = r["case"]
        lang = case["lang"]
        if sabotage_expected is None:
            cov["cases"] += 1
            per = cov["per_language"].setdefault(lang, {"cases": 0, "nested_frames": 0, "captured_refs": 0})
            per["cases"] += 1
            for k, v in (r.get("counts") or {}).items():
                per[k] = per.get(k, 0) + v
            cov["chains"][case["chain"] or "-"] = cov["chains"].get(case["chain"] or "-", 0) + 1
            cov["hosts"][case["host"]] = cov["hosts"].get(case["host"], 0) + 1
            for k, v in r.get("tally", {}).items():
                cov["decision_points"][k] = cov["decision_points"].get(k, 0) + v
            run.count({"stream": label, "lang": lang, "host": case["host"], "chain": case["chain"],
                       "script": case["script"]}, nontrivial=True)
        if r.get("cutoff"):
            cov["cutoff"] += 1
            continue
        if "exception" in r:
            k = "%s:%s" % (lang, r["exception"]["type"])
            cov["exceptions"][k] = cov["exceptions"].get(k, 0) + 1
        for pr in r["problems"]:
            if sabotage_expected is not None and pr["judge"] == "frame":
                continue          # the sabotage itself; the control is about the judges of the RESULT
            flagged.add(idx)
            if sabotage_expected is None:
                run.tally("direct_problems", "%s:%s" % (lang, pr["what"].split(":after:")[0]))
                what = pr["what"]
                sig = "direct:%s:%s" % (pr["judge"], what.split(":after:")[0] if pr["judge"] == "frame" else what)
                if pr["judge"] == "capture" and pr.get("effectively_final"):
                    # javac accepts a never re-assigned local: the generator's own rule (declared final) is broken, the
                    # program still compiles — reported under its own signature
                    sig += ":effectively-final"
                report(run, direct_replay_obj(case, kind="failing-input", problem=pr,
                                              note="specification-side judgement of the state the real decision points left "
                                                   "in a crafted context (see harness/c05_direct.py)"), signature=sig)
        if "export" in r:
            reqs.append(check_request(r["export"], tables["keywords"][lang], stats=False))
            owners.append((idx, case))
    answers = run_driver(reqs) if reqs else []
    for (idx, case), a in zip(owners, answers):
        lang = case["lang"]
        if "error" in a:
            raise common.HarnessError("driver: %s on direct case %s" % (a["error"][:300], case))
        if sabotage_expected is None:
            cov["judged_by_closed_check"] += 1
            run.cov["traces_validated_against_impl"] += 1
        bad = a["r"] != "ok" or (a.get("capture") or "ok") != "ok"
        if bad:
            flagged.add(idx)
        if sabotage_expected is not None:
            continue
        capture_verdict(run, a, lang, direct_replay_obj(case), "direct")
        if a["r"] != "ok":
            shape = reason_shape(a["r"]["reason"])
            run.tally("direct_rejections", "%s:%s" % (lang, shape))
            run.log("REJECTED direct case %s: %s" % (common.canon(case)[:300], a["r"]))
            report(run, direct_replay_obj(case, kind="failing-input", path=a["r"]["path"], reason=a["r"]["reason"],
                                          note="the verified scope walker rejects the fragment the real decision points "
                                               "produced in a crafted context"), signature="closed:direct:%s" % shape)
    if sabotage_expected is None:
        cov["wall_s"] = round(cov.get("wall_s", 0) + time.time() - t0, 1)
        run.log("%s: %d cases, %d flagged, %.0f s" % (label, len(cases), len(flagged), time.time() - t0))
    if sabotage_expected is not None:
        return len(flagged), sum(1 for r in results if "export" in r)
    return len(flagged)


def direct_negative_controls(run, tables, rng):
    """the judges of the direct stream are not vacuous: cases with a harness-side sabotage of the state (the helper
    declared at top level although its type mentions type variables — bare, at depth 1 and 2; `_inside_java_lambda`
    dropped when a lambda is finished) must be flagged"""
    tv_cases, fl_cases = [], []
    for shape in ("tv", "box_tv", "box_box_tv", "two_box_tv", "fun_tv"):
        for host in ("method", "pfunc"):
            for chain in ("", "l"):
                tv_cases.append({"lang": rng.choice(LANGS), "seed": rng.randrange(1, 10 ** 6), "switches": (0, 0, 0, 0),
                                 "max_depth": 3, "host": host, "chain": chain, "script": [["matching_func", shape]],
                                 "sabotage": "helper-at-top-level", "cpu_cap": 30})
    for chain in ("n", "l", "nl", "ll"):
        for con in ("assignable_all", "funvars_all", "objects_all"):
            fl_cases.append({"lang": "java", "seed": rng.randrange(1, 10 ** 6), "switches": (0, 0, 0, 0), "max_depth": 3,
                             "host": rng.choice(c05_direct.HOSTS), "chain": chain, "script": [["lambda_free", "int"], [con, "int"]],
                             "sabotage": "flag-dropped-after-lambda", "cpu_cap": 30})
    n1, j1 = direct_stream(run, tv_cases, tables, sabotage_expected=True)
    n2, j2 = direct_stream(run, fl_cases, tables, sabotage_expected=True)
    run.cov["direct"]["negative_controls"] = {"helper-at-top-level": {"flagged": n1, "judged": j1, "cases": len(tv_cases)},
                                              "flag-dropped-after-lambda": {"flagged": n2, "judged": j2, "cases": len(fl_cases)}}
    run.log("direct negative controls: helper-at-top-level %d/%d flagged, flag-dropped-after-lambda %d/%d flagged" % (
        n1, j1, n2, j2))
    # a case cut off by its CPU cap / ended by an exception of the generator has no fragment to judge
    if j1 < len(tv_cases) // 2 or n1 != j1:
        raise common.HarnessError("direct stream: %d of %d sabotaged helper placements flagged (%d cases)" % (n1, j1, len(tv_cases)))
    if j2 < len(fl_cases) // 2 or n2 < j2 * 3 // 4:
        raise common.HarnessError("direct stream: %d of %d dropped-flag cases flagged (%d cases)" % (n2, j2, len(fl_cases)))


# ------------------------------------------------------------------ mutants (the checker is not vacuous)
UNBOUND = "zzunboundzz"


def walk(j, f):
    if isinstance(j, dict):
        f(j)
        for v in j.values():
            walk(v, f)
    elif isinstance(j, list):
        for v in j:
            walk(v, f)


def first_node(export, kind, pred=lambda n: True):
    found = []

    def f(n):
        if not found and n.get("n") == kind and pred(n):
            found.append(n)
    walk(export["decls"], f)
    return found[0] if found else None


def mutants(export):
    """(name, mutated export, keywords, expected reason shapes)"""
    import copy
    out = []

    def mutate(name, kind, fn, expect, pred=lambda n: True):
        e = copy.deepcopy(export)
        n = first_node(e, kind, pred)
        if n is not None:
            fn(n)
            out.append((name, e, [], expect))
    mutate("unbound-variable", "variable", lambda n: n.__setitem__("name", UNBOUND), {"unresolved-variable"})
    mutate("unbound-function", "call", lambda n: n.__setitem__("func", UNBOUND),
           {"unresolved-function", "unresolved-method-of"}, lambda n: not n["isRefCall"])
    mutate("unbound-assignment-target", "assign", lambda n: n.__setitem__("name", UNBOUND),
           {"unresolved-variable", "unresolved-field"})
    mutate("unbound-field", "fieldaccess", lambda n: n.__setitem__("field", UNBOUND), {"unresolved-field"})
    mutate("unbound-function-reference", "funcref", lambda n: n.__setitem__("func", UNBOUND),
           {"unresolved-function-reference"})
    if first_node(export, "assign") is not None:
        e = copy.deepcopy(export)

        def fin(n):
            if n.get("n") in ("var", "field"):
                n["isFinal"] = True
        walk(e["decls"], fin)
        out.append(("everything-final", e, [], {"assign-final", "assign-final-field"}))
    classes = {d["name"] for d in export["decls"] if d.get("n") == "class"}
    tt = export["tt"]

    def new_of_declared(n):
        ent = tt[n["t"]]
        return ent.get("k") in ("s", "p") and ent.get("name") in classes
    if first_node(export, "new", new_of_declared) is not None:
        e = copy.deepcopy(export)
        for d in e["decls"]:
            if d.get("n") == "class":
                d["ctype"] = 2
        out.append(("every-class-abstract", e, [], {"new-of-non-regular-class"}))
    if export["decls"]:
        e = copy.deepcopy(export)
        e["decls"].append(copy.deepcopy(e["decls"][0]))
        out.append(("duplicate-top-level", e, [], {"duplicate-top-level"}))
        out.append(("declared-name-is-keyword", copy.deepcopy(export), [export["decls"][-1]["name"]],
                    {"reserved-identifier"}))
    # use before declaration: the first statement of a block now refers to a variable the block declares later
    e = copy.deepcopy(export)
    n = first_node(e, "block", lambda n: any(x.get("n") == "var" for x in n["body"][1:]))
    if n is not None:
        later = next(x for x in n["body"][1:] if x.get("n") == "var")
        n["body"].insert(0, {"n": "variable", "name": later["name"]})
        out.append(("use-before-declaration", e, [], {"unresolved-variable"}))
    # a type variable nobody binds, as the declared type of a variable
    e = copy.deepcopy(export)
    n = first_node(e, "var", lambda n: n["varType"] is not None)
    if n is not None:
        e["tt"] = e["tt"] + [{"k": "v", "name": "ZZUNBOUND", "var": 0, "bound": None}]
        n["varType"] = len(e["tt"]) - 1
        out.append(("type-variable-out-of-scope", e, [], {"type-variable-out-of-scope"}))
    # … and NESTED in the signature of a top-level function: `Box<ZZUNBOUND>` / `Box<Box<ZZUNBOUND>>` as return type
    pcls = next((d for d in export["decls"] if d.get("n") == "class" and len(d["tparams"]) == 1), None)
    ptype = None
    if pcls is not None:
        ptype = next((i for i, ent in enumerate(tt) if ent.get("k") == "p" and ent.get("name") == pcls["name"]), None)
    for depth in (1, 2):
        if ptype is None:
            break
        e = copy.deepcopy(export)
        n = next((d for d in e["decls"] if d.get("n") == "func" and d["retType"] is not None), None)
        if n is None:
            break
        tt2 = e["tt"]
        tt2.append({"k": "v", "name": "ZZUNBOUND", "var": 0, "bound": None})
        cur = len(tt2) - 1
        for _ in range(depth):
            ent = copy.deepcopy(tt2[ptype])
            ent["args"] = [cur]
            tt2.append(ent)
            cur = len(tt2) - 1
        n["retType"] = cur
        out.append(("type-variable-out-of-scope-nested-%d" % depth, e, [], {"type-variable-out-of-scope"}))
    # one constructor argument too few
    e = copy.deepcopy(export)
    n = first_node(e, "new", lambda n: new_of_declared(n) and n["args"])
    if n is not None:
        n["args"] = n["args"][1:]
        out.append(("new-with-missing-argument", e, [], {"arity:new"}))
    e = copy.deepcopy(export)
    n = first_node(e, "call", lambda n: not n["isRefCall"])
    if n is not None:
        # wrong under every signature (varargs and defaults included): no parameter has this name
        n["args"] = n["args"] + [{"n": "arg", "expr": {"n": "bool", "lit": "true"}, "name": UNBOUND}]
        out.append(("unknown-named-argument", e, [], {"arity:function", "arity:method-of", "arity"}))
    return out


def mutant_stream(run, exports, tables, limit):
    reqs, owners = [], []
    for spec, export in exports[:limit]:
        for name, e, extra_kw, expect in mutants(export):
            reqs.append(check_request(e, tables["keywords"][spec["lang"]] + extra_kw, stats=False))
            owners.append((spec, name, expect))
    if not reqs:
        return
    answers = run_driver(reqs)
    tally = collections.Counter()
    for (spec, name, expect), a in zip(owners, answers):
        if "error" in a:
            raise common.HarnessError("driver on mutant %s: %s" % (name, a["error"][:300]))
        if a["r"] == "ok":
            raise common.HarnessError("the scope walker ACCEPTS the mutant %s of %s (checker too weak)" % (
                name, replay_of(spec)))
        shape = reason_shape(a["r"]["reason"])
        tally["%s:rejected:%s" % (name, "as-expected" if shape in expect else shape)] += 1
        run.cov["evaluations"] += 1
    run.cov["mutants"] = dict(sorted(tally.items()))
    run.log("mutants: %s" % dict(sorted(tally.items())))


# ------------------------------------------------------------------ the check
def init_cov(run):
    for k in ("programs_done_within_budget", "programs_planned", "programs_rejected", "assignable_calls",
              "assignable_compared"):
        run.cov[k] = 0
    run.cov["assignable_tally"] = {}
    run.cov["use_sites_per_language"] = {}
    run.cov["scoping_machinery_per_language"] = {}


def variant_stream(run, tables):
    variant = detect_variant(tables)
    cur = run_driver([{"op": "closed.variant"}])[0].get("r")
    run.cov["tree_variant"] = variant
    run.cov["lean_current_variant"] = cur
    run.log("tree implements remove_reserved_words variant %s; Lean Pool.codeIsFixed says %s" % (variant, cur))
    if variant.startswith("unknown"):
        run.broken.append({"obligation": "remove_reserved_words is one of the two modelled variants", "detail": variant})
        return "asIs"
    if cur != variant:
        if variant == "asIs":
            # Lean claims the repaired removal (identifier_not_reserved_status then states the full property) but the
            # tree does not implement it: the reserved stream produces the failing input
            run.broken.append({"obligation": "Pool.codeIsFixed matches the tree", "detail": "lean=fixed tree=asIs"})
            run.cov["lean_ahead_of_tree"] = True
        else:
            run.assumptions.append("the tree implements the repaired (case-insensitive) remove_reserved_words; switch "
                                   "Heph.Pool.codeIsFixed to true: identifier_not_reserved_status then states that the "
                                   "identifier clause of C05 holds of the code")
    return variant


def check(run):
    pipeline.setup()
    tables, changed = regen_c05.regen()
    run.cov["keyword_tables_regenerated"] = {
        "changed": changed, "keywords": {l: len(tables["keywords"][l]) for l in LANGS},
        "collisionWords": tables["collisionWords"], "wordsCount": tables["wordsCount"],
        "wordsSha256": tables["wordsSha256"], "wordsAllLower": tables["wordsAllLower"]}
    if not tables["wordsAllLower"]:
        run.assumptions.append("src/resources/words is no longer pure [a-z]+: identifiers_distinct does not apply")
    proofs_ok = run.build_and_audit()
    quick = run.tier == "quick"
    init_cov(run)
    variant = variant_stream(run, tables)

    # 1. reserved words: exhaustive on the real code, compared with the regenerated tables of the model
    reserved_stream(run, tables, variant)
    # 2. the pool model
    pool_stream(run, tables, variant, 10 ** 4 if quick else 10 ** 5)
    # 3. direct decision-point stream: the real Generator in crafted contexts (fixed plan, CPU cap per case)
    drng = random.Random(run.rng.randrange(1 << 30))
    direct_negative_controls(run, tables, drng)
    dcases = direct_plan(drng, 2400 if quick else 24000, [("java", 3), ("kotlin", 1), ("groovy", 1), ("scala", 1)])
    direct_stream(run, dcases, tables)
    # 4. programs: the plan is fixed, the budget is CPU time summed over the workers (wall clock only as a safety net);
    # per-program CPU cap; every third program with generation policies that exercise the scoping machinery
    settings = [(0, 0, 0, 0), (1, 1, 0, 0), (0, 0, 1, 1)] if quick else pipeline.all_switch_settings()
    nseeds, cap, cpu_cap, cpu_budget, wall = (10, 90, 12, 360, 400) if quick else (150, 240, 60, 14000, 3000)
    depths = [3, 4, 5, 5, 6, 4] if quick else [4, 5, 5, 6, 6, 7]
    specs = make_specs(run.rng, LANGS, settings, nseeds, depths, cap, cpu_cap, KNOB_SETS)
    # the effectively-final rule only shows in Java programs with lambdas / nested functions; helper functions for
    # types with type variables need parameterized classes / functions: more of those (small)
    specs += make_specs(run.rng, ["java"], [(0, 0, 0, 0), (0, 0, 1, 1)], 24 if quick else 300, [4, 4, 5], cap, cpu_cap,
                        KNOB_SETS)
    run.rng.shuffle(specs)
    # the budget cuts the stream off: hand the Java programs out first, two for one other
    # (quick tier only; the thorough stream stays uniformly shuffled over the languages)
    if quick:
        java = [x for x in specs if x["lang"] == "java"]
        other = [x for x in specs if x["lang"] != "java"]
        specs = []
        while java or other:
            specs += java[:2] + other[:1]
            java, other = java[2:], other[1:]
    exports = programs_stream(run, specs, tables, wall, cpu_budget=cpu_budget)
    budget = cpu_budget
    # 5. the checker rejects what it must
    mutant_stream(run, exports, tables, 12 if quick else 40)
    run.cov["exhaustive"] = False
    run.cov["stream_budget_cpu_s"] = budget
    run.cov["rule"] = (
        "case = (generator replay (lang, seed, switches, max_depth[, knobs]), stage in gen/erase): closed.check (verified "
        "scope walker + verified capture checker) on the by-value export with the keyword table of the language, + frame "
        "discipline of namespace/_inside_java_lambda at every gen_lambda/gen_func_decl, + every _get_assignable_vars call of the "
        "run judged against the declarations and compared with the Lean model; + one case per DIRECT decision-point case "
        "(lang, seed, switches, depth, host, frame chain, script of real generator routines x expected-type shapes, knobs): "
        "closed.check + capture check of the fragment, type-variable scope / capture / frame judges on the live state; "
        "+ one case per pool operation history "
        "(exact correspondence with RandomUtils, draws fed to the model); + the exhaustive word-file x language x mode "
        "walk on the real remove_reserved_words / gen_identifier; distinct by replay tuple / history shape")
    # a broken obligation for which no stream produced a (new) failing input is reported as such; a known finding
    # does not stand in for it
    if run.broken and not run.violations:
        report(run, {"kind": "broken-proof" if not proofs_ok else "broken-obligation", "obligations": run.broken,
                     "note": "no failing input found by the reserved, pool, program and assignable streams of this run"},
               signature="proof" if not proofs_ok else "obligation", no_input=True)


def replay(run, rp):
    pipeline.setup()
    tables = regen_c05.tables()
    init_cov(run)
    stream = rp.get("stream")
    run.cov["rule"] = "replay of one %s case" % stream
    if stream == "reserved":
        mode = None if rp["mode"] == "plain" else rp["mode"]
        demo = demonstrate_reserved(rp["lang"], rp["word"], mode)
        run.count({"stream": "reserved-demo", "lang": rp["lang"], "word": rp["word"], "mode": rp["mode"]})
        run.log("replay reserved:", demo)
        if demo["reserved"]:
            report(run, dict(rp, identifier=demo["identifier"]), signature=reserved_signature(rp["lang"], mode))
        return
    if stream == "pool":
        variant = detect_variant(tables)
        rq, real, final, problems = pool_execute(rp["history"], tables, "fixed" if variant == "fixed" else "asIs")
        detail = pool_compare(rq, real, final, run_driver([rq])[0])
        run.count({"stream": "pool", "initial": len(rq["initial"]), "ops": len(rq["ops"])})
        run.log("replay pool: reference problems %s, model difference %s" % (problems, detail))
        if problems:
            report(run, dict(rp, problems=problems), signature="pool:reference-fails")
        elif detail is not None:
            report(run, dict(rp, detail=detail), signature="pool:model-differs", no_input=True)
        return
    if stream == "direct":
        case = rp["case"]
        case["switches"] = tuple(case.get("switches", (0, 0, 0, 0)))
        case["script"] = [list(x) for x in case["script"]]
        direct_stream(run, [case], tables, label="replay-direct")
        return
    spec = {"lang": rp["lang"], "seed": rp["gen_seed"], "switches": tuple(rp["switches"]), "max_depth": rp["max_depth"],
            "stages": list(STAGES), "export": True, "plugins": [PLUGIN, SCOPE_PLUGIN], "cap": 600,
            "assignable_cap": 10 ** 6}
    if rp.get("knobs"):
        spec["knobs"] = rp["knobs"]
    programs_stream(run, [spec], tables, 10 ** 6, label="replay")
