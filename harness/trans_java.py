"""Java entry of the translator-model registry + pipeline plugin that exports what the Lean
model of `JavaTranslator` (lean/Heph/Model/TransJava.lean, op "trans.java") reads.

Beside the by-value program (`export_ast`) the Java translator consults the *values* stored in
the program's `Context` (`get_decl`, `get_classes`, `get_namespaces_decls`, `get_type_hint` …).
`export_java(program)` therefore adds `ctxvals`, a list parallel to `context`: for every context
entry the declaration registered there in *header form* (bodies and initialisers stripped — the
translator only reads types, names, parameters, class kind, superclasses and member headers of a
looked-up declaration), `None` for Python `None` and for `types` entries (never read).

Use as a pipeline plugin: `spec["plugins"] = ["trans_java"]`; every stage dict then carries
`stage["java_export"]` (complete request body for the op, minus `package`).
`MODEL["request"](java_export, package, history=None)` builds the driver request."""
import src.ir.ast as ast
import export_ast


def _hdr_param(e, p):
    return {"n": "param", "name": p.name, "t": e.ty(p.param_type), "vararg": bool(p.vararg), "default": None}


def _hdr_func(e, f):
    return {"n": "func", "name": f.name, "params": [_hdr_param(e, p) for p in f.params],
            "retType": e.ty(f.ret_type), "inferred": e.ty(f.inferred_type), "body": None,
            "isFinal": bool(f.is_final), "override": bool(f.override), "tparams": e.tys(f.type_parameters),
            "ftype": f.func_type}


def header(e, v):
    """header form of a context value (None → None)"""
    if v is None:
        return None
    if isinstance(v, ast.VariableDeclaration):
        return {"n": "var", "name": v.name, "expr": {"n": "bottom", "t": None}, "isFinal": bool(v.is_final),
                "varType": e.ty(v.var_type), "inferred": e.ty(v.inferred_type)}
    if isinstance(v, ast.ParameterDeclaration):
        return _hdr_param(e, v)
    if isinstance(v, ast.FieldDeclaration):
        return e.node(v)
    if isinstance(v, ast.FunctionDeclaration):
        return _hdr_func(e, v)
    if isinstance(v, ast.Lambda):
        return {"n": "lambda", "name": v.name, "params": [_hdr_param(e, p) for p in v.params],
                "retType": e.ty(v.ret_type), "body": {"n": "bottom", "t": None}, "signature": e.ty(v.signature)}
    if isinstance(v, ast.ClassDeclaration):
        return {"n": "class", "name": v.name, "ctype": v.class_type, "isFinal": bool(v.is_final),
                "fields": [e.node(f) for f in v.fields],
                "supers": [{"n": "super", "t": e.ty(s.class_type), "args": None} for s in v.superclasses],
                "funcs": [_hdr_func(e, f) for f in v.functions], "tparams": e.tys(v.type_parameters)}
    return None     # TypeParameter under 'types': not read by the translator


def export_java(p):
    e = export_ast.Exporter()
    decls = [e.node(d) for d in p.declarations]
    context, vals = [], []
    for ns, ents in p.context._context.items():
        for kind in ("types", "funcs", "lambdas", "vars", "classes", "decls"):
            for name, v in ents[kind].items():
                context.append([list(ns), kind, name])
                vals.append(None if kind == "types" else header(e, v))
    return {"lang": p.language, "tt": e.tt.entries, "decls": decls, "context": context, "ctxvals": vals}


def request(java_export, package, history=None):
    rq = dict(java_export)
    rq["op"] = "trans.java"
    rq["package"] = package or ""
    if history:
        rq["history"] = [dict(h[0], package=h[1] or "") for h in history]
    return rq


# ---- pipeline plugin ----------------------------------------------------------------------
def install(state, spec):
    state["n"] = 0


def stage(state, name, program, stage_dict):
    stage_dict["java_export"] = export_java(program)
    state["n"] += 1


def collect(state):
    return {"stages_exported": state.get("n", 0)}


MODEL = {
    "lang": "java",
    "op": "trans.java",
    "plugin": "trans_java",          # pipeline plugin that adds stage["java_export"]
    "export_key": "java_export",
    "request": request,              # (java_export, package, history=None) -> driver request
    "answer_key": "r",               # text of the model; "<<ERROR:" marks a modelled Python exception
    "error_mark": "<<ERROR:",
    "fuel_mark": "<<FUEL>>",
}
