"""pipeline plugin of C17: records, inside the worker,

 * every call of `ParameterizedType.to_type_variable_free` whose result contains more use-site
   projections than its receiver, with the chain of calling functions (the *creating call site* of
   projections that do not come from `_get_type_arg_variance`);
 * the draws `Generator.gen_type_params` and `Generator.gen_func_decl` make themselves
   (`ut.random.bool` / `ut.random.choice` called directly from their frames) together with the
   flags of the type parameters they return, so that the decision models of
   lean/Heph/Model/Switches.lean can be compared on exactly the draws of the real run.

The RNG stream is not disturbed: the wrapped `bool` makes the same single `r.random()` call."""
import inspect
import linecache
import sys

MAXREC = 4000


def _nwild(t, seen=None):
    import src.ir.types as tp
    n = 0
    if isinstance(t, tp.WildCardType):
        n += 1
        if t.bound is not None:
            n += _nwild(t.bound)
    elif isinstance(t, tp.ParameterizedType):
        for a in t.type_args:
            n += _nwild(a)
    elif isinstance(t, tp.TypeParameter) and t.bound is not None:
        n += _nwild(t.bound)
    return n


def _chain(depth=2, limit=6):
    out = []
    f = sys._getframe(depth)
    while f is not None and len(out) < limit:
        fn = f.f_code.co_filename
        name = f.f_code.co_name
        if "/harness/" not in fn and not name.startswith("_w_"):
            base = fn.rsplit("/", 1)[-1]
            ent = "%s:%s" % (base, name)
            if not out or out[-1] != ent:
                out.append(ent)
        f = f.f_back
    return out


def _ratio(x):
    if isinstance(x, int):
        return [x, 1]
    a, b = float(x).as_integer_ratio()
    return [a, b]


def install(state, spec):
    import src.ir.types as tp
    from src import utils
    from src.generators import generator as G
    from src.generators.config import cfg
    import export
    state["tvf"] = []
    state["gtp"] = []
    state["gfd"] = []
    state["stack"] = []
    state["fstack"] = []
    state["orig"] = {}

    orig_tvf = tp.ParameterizedType.to_type_variable_free
    state["orig"]["tvf"] = orig_tvf

    def _w_tvf(self, factory):
        r = orig_tvf(self, factory)
        try:
            if len(state["tvf"]) < MAXREC and _nwild(r) > _nwild(self):
                state["tvf"].append({"chain": _chain(2), "receiver": export.short(self), "result": export.short(r)})
        except Exception as e:   # recording must never disturb the run
            state["tvf"].append({"error": repr(e)})
        return r
    tp.ParameterizedType.to_type_variable_free = _w_tvf

    ru = utils.random
    orig_bool, orig_choice = ru.bool, ru.choice
    state["orig"]["bool"], state["orig"]["choice"] = orig_bool, orig_choice

    def _w_bool(prob=0.5):
        x = ru.r.random()
        res = x < prob
        fr = sys._getframe(1)
        caller = fr.f_code.co_name
        if caller == "gen_type_params" and state["stack"]:
            state["stack"][-1]["draws"].append(["bool", _ratio(prob), _ratio(x), bool(res)])
        elif caller == "gen_func_decl" and state["fstack"]:
            line = linecache.getline(fr.f_code.co_filename, fr.f_lineno)
            state["fstack"][-1].append({"p": _ratio(prob), "x": _ratio(x), "res": bool(res),
                                        "is_param_func_draw": "parameterized_functions" in line})
        return res

    def _w_choice(choices):
        c = orig_choice(choices)
        caller = sys._getframe(1).f_code.co_name
        if caller == "gen_type_params" and state["stack"]:
            state["stack"][-1]["draws"].append(["choice", getattr(c, "value", None)])
        return c
    ru.bool = _w_bool
    ru.choice = _w_choice

    orig_gtp = G.Generator.gen_type_params
    orig_gfd = G.Generator.gen_func_decl
    state["orig"]["gtp"], state["orig"]["gfd"] = orig_gtp, orig_gfd

    def _w_gtp(self, count=None, with_variance=False, blacklist=None, for_function=False):
        rec = {"count": count, "with_variance": bool(with_variance), "for_function": bool(for_function),
               "lang": self.language, "p_bounded": _ratio(cfg.prob.bounded_type_parameters),
               "caller": sys._getframe(1).f_code.co_name, "draws": []}
        state["stack"].append(rec)
        try:
            r = orig_gtp(self, count=count, with_variance=with_variance, blacklist=blacklist,
                         for_function=for_function)
        finally:
            state["stack"].pop()
        rec["result"] = [[export.VAR(t.variance), t.bound is not None] for t in r]
        if len(state["gtp"]) < MAXREC:
            state["gtp"].append(rec)
        return r

    sig = inspect.signature(orig_gfd)

    def _w_gfd(self, *a, **kw):
        ba = sig.bind(self, *a, **kw)
        given = ba.arguments.get("type_params") is not None
        ns = ba.arguments.get("namespace") or self.namespace
        parent = ns[-1] if ns else "global"
        nested = bool(len(ns) >= 1 and parent != "global" and parent[0].islower())
        state["fstack"].append([])
        try:
            r = orig_gfd(self, *a, **kw)
        finally:
            draws = state["fstack"].pop()
        pf = [d for d in draws if d["is_param_func_draw"]]
        if len(state["gfd"]) < MAXREC:
            state["gfd"].append({"given": given, "nested": nested, "draws": pf,
                                 "p_func": _ratio(cfg.prob.parameterized_functions),
                                 "name": r.name, "ntparams": len(r.type_parameters),
                                 "variances": [export.VAR(t.variance) for t in r.type_parameters],
                                 "ftype": r.func_type})
        return r
    G.Generator.gen_type_params = _w_gtp
    G.Generator.gen_func_decl = _w_gfd


def collect(state):
    return {"tvf": state.get("tvf", []), "gtp": state.get("gtp", []), "gfd": state.get("gfd", [])}


def uninstall(state):
    import src.ir.types as tp
    from src import utils
    from src.generators import generator as G
    o = state.get("orig", {})
    if "tvf" in o:
        tp.ParameterizedType.to_type_variable_free = o["tvf"]
    if "bool" in o:
        utils.random.__dict__.pop("bool", None)
        utils.random.__dict__.pop("choice", None)
    if "gtp" in o:
        G.Generator.gen_type_params = o["gtp"]
        G.Generator.gen_func_decl = o["gfd"]
