"""pipeline plugin of C17: records, inside the worker,

 * every call of `ParameterizedType.to_type_variable_free` whose result contains more use-site
   projections than its receiver, with the chain of calling functions (the *creating call site* of
   projections that do not come from `_get_type_arg_variance`);
 * the draws `Generator.gen_type_params` and `Generator.gen_func_decl` make themselves
   (`ut.random.bool` / `ut.random.choice` called directly from their frames) together with the
   flags of the type parameters they return, so that the decision models of
   lean/Heph/Model/Switches.lean can be compared on exactly the draws of the real run.

The RNG stream is not disturbed: the wrapped `bool` makes the same single `r.random()` call."""
import inspect
import linecache
import sys

MAXREC = 4000


def _nwild(t, seen=None):
    import src.ir.types as tp
    n = 0
    if isinstance(t, tp.WildCardType):
        n += 1
        if t.bound is not None:
            n += _nwild(t.bound)
    elif isinstance(t, tp.ParameterizedType):
        for a in t.type_args:
            n += _nwild(a)
    elif isinstance(t, tp.TypeParameter) and t.bound is not None:
        n += _nwild(t.bound)
    return n


def _chain(depth=2, limit=6):
    out = []
    f = sys._getframe(depth)
    while f is not None and len(out) < limit:
        fn = f.f_code.co_filename
        name = f.f_code.co_name
        if "/harness/" not in fn and not name.startswith("_w_"):
            base = fn.rsplit("/", 1)[-1]
            ent = "%s:%s" % (base, name)
            if not out or out[-1] != ent:
                out.append(ent)
        f = f.f_back
    return out


def _ratio(x):
    if isinstance(x, int):
        return [x, 1]
    a, b = float(x).as_integer_ratio()
    return [a, b]


def install(state, spec):
    import src.ir.types as tp
    from src import utils
    from src.generators import generator as G
    from src.generators.config import cfg
    import export
    state["tvf"] = []
    state["tvf_made"] = []      # (result object, creating caller): kept alive, ids stay unique
    state["gtp"] = []
    state["gfd"] = []
    state["stack"] = []
    state["fstack"] = []
    state["orig"] = {}

    orig_tvf = tp.ParameterizedType.to_type_variable_free
    state["orig"]["tvf"] = orig_tvf

    def _w_tvf(self, factory):
        r = orig_tvf(self, factory)
        try:
            if len(state["tvf"]) < MAXREC and _nwild(r) > _nwild(self):
                ch = _chain(2)
                state["tvf"].append({"chain": ch, "receiver": export.short(self), "result": export.short(r)})
                callers = [c.split(":")[1] for c in ch if not c.startswith("types.py:")]
                state["tvf_made"].append((r, callers[0] if callers else "types.py"))
        except Exception as e:   # recording must never disturb the run
            state["tvf"].append({"error": repr(e)})
        return r
    tp.ParameterizedType.to_type_variable_free = _w_tvf

    ru = utils.random
    orig_bool, orig_choice = ru.bool, ru.choice
    state["orig"]["bool"], state["orig"]["choice"] = orig_bool, orig_choice

    def _w_bool(prob=0.5):
        x = ru.r.random()
        res = x < prob
        fr = sys._getframe(1)
        caller = fr.f_code.co_name
        if caller == "gen_type_params" and state["stack"]:
            state["stack"][-1]["draws"].append(["bool", _ratio(prob), _ratio(x), bool(res)])
        elif caller == "gen_func_decl" and state["fstack"]:
            line = linecache.getline(fr.f_code.co_filename, fr.f_lineno)
            state["fstack"][-1].append({"p": _ratio(prob), "x": _ratio(x), "res": bool(res),
                                        "is_param_func_draw": "parameterized_functions" in line})
        return res

    def _w_choice(choices):
        c = orig_choice(choices)
        caller = sys._getframe(1).f_code.co_name
        if caller == "gen_type_params" and state["stack"]:
            state["stack"][-1]["draws"].append(["choice", getattr(c, "value", None)])
        return c
    ru.bool = _w_bool
    ru.choice = _w_choice

    orig_gtp = G.Generator.gen_type_params
    orig_gfd = G.Generator.gen_func_decl
    state["orig"]["gtp"], state["orig"]["gfd"] = orig_gtp, orig_gfd

    def _w_gtp(self, count=None, with_variance=False, blacklist=None, for_function=False):
        rec = {"count": count, "with_variance": bool(with_variance), "for_function": bool(for_function),
               "lang": self.language, "p_bounded": _ratio(cfg.prob.bounded_type_parameters),
               "caller": sys._getframe(1).f_code.co_name, "draws": []}
        state["stack"].append(rec)
        try:
            r = orig_gtp(self, count=count, with_variance=with_variance, blacklist=blacklist,
                         for_function=for_function)
        finally:
            state["stack"].pop()
        rec["result"] = [[export.VAR(t.variance), t.bound is not None] for t in r]
        if len(state["gtp"]) < MAXREC:
            state["gtp"].append(rec)
        return r

    sig = inspect.signature(orig_gfd)

    def _w_gfd(self, *a, **kw):
        ba = sig.bind(self, *a, **kw)
        given = ba.arguments.get("type_params") is not None
        ns = ba.arguments.get("namespace") or self.namespace
        parent = ns[-1] if ns else "global"
        nested = bool(len(ns) >= 1 and parent != "global" and parent[0].islower())
        state["fstack"].append([])
        try:
            r = orig_gfd(self, *a, **kw)
        finally:
            draws = state["fstack"].pop()
        pf = [d for d in draws if d["is_param_func_draw"]]
        if len(state["gfd"]) < MAXREC:
            state["gfd"].append({"given": given, "nested": nested, "draws": pf,
                                 "p_func": _ratio(cfg.prob.parameterized_functions),
                                 "name": r.name, "ntparams": len(r.type_parameters),
                                 "variances": [export.VAR(t.variance) for t in r.type_parameters],
                                 "ftype": r.func_type})
        return r
    G.Generator.gen_type_params = _w_gtp
    G.Generator.gen_func_decl = _w_gfd


# ---------------------------------------------------------------------------------------------
# independent scan of the REAL program objects (specification-side oracle of check_C17):
# no exporter, no Lean.  Nodes are found through every attribute of a node that holds a node
# (or a list/tuple/dict of nodes), types through every attribute that holds a type.

FEATURES = ("projection", "contra-projection", "bound", "func-tparams", "variant-class-tparam",
            "variant-func-tparam")


def _type_features(t, memo, hits, trail):
    """features of all sub-terms of a type occurrence (arguments, bounds, supertypes, the
    constructor and its parameters)"""
    import src.ir.types as tp
    import export
    if t is None or not isinstance(t, tp.Type):
        return frozenset()
    m = memo.get(id(t))
    if m is not None and m[0] is t:
        return m[1]
    memo[id(t)] = (t, frozenset())     # cycles (none expected) do not loop
    fs = set()
    kids = []
    if isinstance(t, tp.WildCardType):
        fs.add("projection")
        kind = ("star-projection" if t.bound is None else
                {1: "covariant-projection", 2: "contravariant-projection"}.get(export.VAR(t.variance),
                                                                              "invariant-projection"))
        fs.add("kind:" + kind)
        if export.VAR(t.variance) == 2:
            fs.add("contra-projection")
        kids.append(("bound", t.bound))
    elif isinstance(t, tp.TypeParameter):
        if t.bound is not None:
            fs.add("bound")
        kids.append(("bound", t.bound))
    elif isinstance(t, tp.ParameterizedType):
        kids.append(("con", t.t_constructor))
        kids += [("arg", a) for a in t.type_args]
    elif isinstance(t, tp.TypeConstructor):
        kids += [("param", a) for a in t.type_parameters]
    if not isinstance(t, (tp.WildCardType, tp.TypeParameter)):
        kids += [("sup", a) for a in getattr(t, "supertypes", [])]
    for lbl, k in kids:
        fs |= _type_features(k, memo, hits, trail + [lbl])
    fs = frozenset(fs)
    memo[id(t)] = (t, fs)
    return fs


def _projection_sites(t, memo, out, enclosing=None, in_bound=False):
    """(wildcard, nearest enclosing parameterized type, inside a type-parameter bound?)"""
    import src.ir.types as tp
    if t is None or not isinstance(t, tp.Type) or id(t) in memo:
        return
    memo[id(t)] = t
    if isinstance(t, tp.WildCardType):
        out.append((t, enclosing, in_bound))
        _projection_sites(t.bound, memo, out, enclosing, in_bound)
    elif isinstance(t, tp.TypeParameter):
        _projection_sites(t.bound, memo, out, enclosing, True)
    elif isinstance(t, tp.ParameterizedType):
        _projection_sites(t.t_constructor, memo, out, enclosing, in_bound)
        for a in t.type_args:
            _projection_sites(a, memo, out, t, in_bound)
    elif isinstance(t, tp.TypeConstructor):
        for a in t.type_parameters:
            _projection_sites(a, memo, out, enclosing, in_bound)
    if not isinstance(t, (tp.WildCardType, tp.TypeParameter)):
        for a in getattr(t, "supertypes", []):
            _projection_sites(a, memo, out, enclosing, in_bound)


def scan_program(program, state=None):
    """returns {"features": sorted list, "per_node": counts, "origins": {...}}"""
    import src.ir.ast as ast
    import src.ir.types as tp
    import src.ir.node as irnode
    import export
    feats = set()
    memo = {}
    seen = set()
    types_seen = []
    nnodes = 0

    def values(x):
        if isinstance(x, (list, tuple, set, frozenset)):
            for y in x:
                yield from values(y)
        elif isinstance(x, dict):
            for y in x.values():
                yield from values(y)
        else:
            yield x

    stack = list(program.declarations)
    while stack:
        n = stack.pop()
        if n is None or id(n) in seen or not isinstance(n, irnode.Node) or isinstance(n, tp.Type):
            continue
        seen.add(id(n))
        nnodes += 1
        if isinstance(n, ast.FunctionDeclaration):
            if n.type_parameters:
                feats.add("func-tparams")
            if any(export.VAR(t.variance) != 0 for t in n.type_parameters):
                feats.add("variant-func-tparam")
        if isinstance(n, ast.ClassDeclaration):
            if any(export.VAR(t.variance) != 0 for t in n.type_parameters):
                feats.add("variant-class-tparam")
        for key, val in vars(n).items():
            for v in values(val):
                if isinstance(v, tp.Type):      # types are Nodes too: test them first
                    types_seen.append(v)
                    feats |= _type_features(v, memo, None, [key])
                elif isinstance(v, irnode.Node):
                    stack.append(v)
    origins = {}
    if "projection" in feats:
        made = (state or {}).get("tvf_made", [])
        by_id = {id(r): c for (r, c) in made}
        by_str = {}
        for (r, c) in made:
            by_str.setdefault(export.short(r), c)
        sites, m2 = [], {}
        for t in types_seen:
            _projection_sites(t, m2, sites)
        for (w, enc, in_bound) in sites:
            if enc is not None and id(enc) in by_id:
                org = "to_type_variable_free<-" + by_id[id(enc)]
            elif enc is not None and export.short(enc) in by_str:
                org = "to_type_variable_free<-" + by_str[export.short(enc)]
            else:
                org = "unattributed"
            k = "%s|%s" % ("in-type-parameter-bound" if in_bound else "outside-bounds", org)
            origins[k] = origins.get(k, 0) + 1
    return {"features": sorted(feats), "nodes": nnodes, "types": len(types_seen), "origins": origins}


def stage(state, name, program, st):
    if name == "gen":
        try:
            st["pyscan"] = scan_program(program, state)
        except Exception as e:      # reported by the check as a harness error
            st["pyscan"] = {"error": repr(e)}


def collect(state):
    return {"tvf": state.get("tvf", []), "gtp": state.get("gtp", []), "gfd": state.get("gfd", [])}


def uninstall(state):
    import src.ir.types as tp
    from src import utils
    from src.generators import generator as G
    o = state.get("orig", {})
    if "tvf" in o:
        tp.ParameterizedType.to_type_variable_free = o["tvf"]
    if "bool" in o:
        utils.random.__dict__.pop("bool", None)
        utils.random.__dict__.pop("choice", None)
    if "gtp" in o:
        G.Generator.gen_type_params = o["gtp"]
        G.Generator.gen_func_decl = o["gfd"]
