"""Random UNTYPED IR trees built with the real AST / type classes (C11 / C12, Scala model).

The theorems about the translator models quantify over every `Node` tree, typed or not; the pipeline
streams only reach what the generator builds.  This module draws small arbitrary trees over ALL node
kinds and attribute values the Scala printer branches on (wildcards of every variance, type variables in
arrays, `New(Any)` with arguments, qualified function names, lambdas / `new` as conditions, super-class
instantiations inside blocks, named arguments, varargs, foreign builtins such as Kotlin's Unit, `None`
types …) so that model and real translator are compared on every branch.  A translator that raises on a
tree is counted and skipped (exceptions are not modelled)."""
import string

NAMES = ["a", "b", "x", "foo", "Bar", "p.q", "m.n.o", ".lead", "trail.", "", "val", "y_1"]


class Gen:
    def __init__(self, rng):
        from src.ir import ast, types as tp, scala_types as sc, kotlin_types as kt, java_types as jt
        self.rng, self.ast, self.tp, self.sc, self.kt, self.jt = rng, ast, tp, sc, kt, jt
        self.tcon = tp.TypeConstructor("G", [tp.TypeParameter("A"), tp.TypeParameter("B", tp.Covariant)])
        self.base = [sc.Integer, sc.Long, sc.Short, sc.Byte, sc.Number, sc.Float, sc.Double, sc.Unit, sc.Any,
                     sc.AnyRef, sc.String, sc.Boolean, sc.Char, sc.Nothing, kt.Unit, kt.Long, kt.Any, jt.Integer,
                     tp.SimpleClassifier("C"), tp.SimpleClassifier("D", [tp.SimpleClassifier("C")]),
                     tp.TypeParameter("T"), tp.TypeParameter("U", tp.Covariant, sc.Number),
                     tp.TypeParameter("V", tp.Contravariant, tp.SimpleClassifier("C"))]

    # ------------------------------------------------------------ types
    def ty(self, d=2, wild=False):
        r, tp, sc = self.rng, self.tp, self.sc
        k = r.random()
        if d <= 0 or k < 0.55:
            return r.choice(self.base)
        if wild and k < 0.7:
            v = r.choice([tp.Invariant, tp.Covariant, tp.Contravariant])
            if v is tp.Invariant and r.random() < 0.7:
                return tp.WildCardType()
            return tp.WildCardType(self.ty(d - 1, wild=r.random() < 0.3), v)
        if k < 0.8:
            return tp.ParameterizedType(sc.Array, [self.ty(d - 1, wild=True)])
        if k < 0.9:
            return tp.ParameterizedType(sc.FunctionType(1), [self.ty(d - 1, True), self.ty(d - 1, True)])
        return tp.ParameterizedType(self.tcon, [self.ty(d - 1, True), self.ty(d - 1, True)],
                                    can_infer_type_args=r.random() < 0.5)

    def opt_ty(self, p_none=0.4):
        return None if self.rng.random() < p_none else self.ty()

    def tparam(self):
        r, tp = self.rng, self.tp
        return tp.TypeParameter(r.choice(["T", "K", "Z1"]), r.choice([tp.Invariant, tp.Covariant, tp.Contravariant]),
                                None if r.random() < 0.5 else self.ty(1))

    def name(self):
        return self.rng.choice(NAMES[:8]) if self.rng.random() < 0.8 else self.rng.choice(NAMES)

    def ident(self):
        return self.rng.choice(["a", "b", "x", "foo", "Bar", "y_1"])

    # ------------------------------------------------------------ expressions
    def expr(self, d):
        r, ast = self.rng, self.ast
        leaf = d <= 0 or r.random() < 0.25
        if leaf:
            k = r.randrange(7)
            if k == 0:
                return ast.BottomConstant(self.opt_ty())
            if k == 1:
                return ast.IntegerConstant(r.choice([0, 7, -3, 120]), self.opt_ty(0.2))
            if k == 2:
                return ast.RealConstant(r.choice(["1.5", "-0.25", "3.0"]), self.opt_ty(0.2))
            if k == 3:
                return ast.BooleanConstant(r.choice(["true", "false"]))
            if k == 4:
                return ast.CharConstant(r.choice(string.ascii_letters + "(]{ "))
            if k == 5:
                return ast.StringConstant(r.choice(["", "s", "a b", "(x", "q]"]))
            return ast.Variable(self.ident())
        k = r.randrange(13)
        E = lambda: self.expr(d - 1)  # noqa: E731
        if k == 0:
            n = r.choice([0, 0, 1, 2])
            t = self.ty(1) if r.random() < 0.1 else self.tp.ParameterizedType(self.sc.Array, [self.ty(1, wild=r.random() < 0.2)])
            return ast.ArrayExpr(t, n, [E() for _ in range(n if r.random() < 0.8 else r.randrange(3))])
        if k == 1:
            cls = r.choice([ast.LogicalExpr, ast.EqualityExpr, ast.ComparisonExpr, ast.ArithExpr])
            return cls(E(), E(), r.choice(cls.ALL_OPERATORS))
        if k == 2:
            return ast.Conditional(E(), self.block_or_expr(d - 1), self.block_or_expr(d - 1), self.opt_ty())
        if k == 3:
            return ast.Is(E(), self.ty(), is_not=r.random() < 0.5)
        if k == 4:
            t = self.sc.Any if r.random() < 0.15 else self.ty()
            return ast.New(t, [E() for _ in range(r.randrange(3))])
        if k == 5:
            return ast.FieldAccess(E(), self.ident())
        if k in (6, 7):
            args = [ast.CallArgument(E(), r.choice([None, None, "", "nm"])) for _ in range(r.randrange(3))]
            c = ast.FunctionCall(self.name(), args, None if r.random() < 0.5 else E(),
                                 type_args=[self.ty(1) for _ in range(r.choice([0, 0, 1, 2]))])
            c.can_infer_type_args = r.random() < 0.5
            return c
        if k == 8:
            return ast.Assignment(self.ident(), E(), None if r.random() < 0.5 else E())
        if k in (9, 10):
            return ast.Lambda("lam", [self.param(d - 1) for _ in range(r.randrange(3))], self.opt_ty(),
                              self.block_or_expr(d - 1), None)
        if k == 11:
            return ast.FunctionReference(self.name(), None if r.random() < 0.4 else E(), None)
        return self.block(d - 1)

    def stmt(self, d):
        r, ast = self.rng, self.ast
        k = r.random()
        if k < 0.25:
            return ast.VariableDeclaration(self.ident(), self.expr(d), is_final=r.random() < 0.5,
                                           var_type=self.opt_ty(), inferred_type=self.ty())
        if k < 0.32:
            return ast.SuperClassInstantiation(self.ty(1), None if r.random() < 0.5 else [self.expr(d - 1)])
        if k < 0.4:
            return self.func(d - 1)
        return self.expr(d)

    def block(self, d):
        return self.ast.Block([self.stmt(d) for _ in range(self.rng.randrange(4))], is_func_block=self.rng.random() < 0.6)

    def block_or_expr(self, d):
        return self.block(d) if self.rng.random() < 0.5 else self.expr(d)

    # ------------------------------------------------------------ declarations
    def param(self, d):
        r = self.rng
        vararg = r.random() < 0.2
        t = self.tp.ParameterizedType(self.sc.Array, [self.ty(1)]) if (vararg and r.random() < 0.8) else self.ty()
        return self.ast.ParameterDeclaration(self.ident(), t, vararg=vararg,
                                             default=None if r.random() < 0.6 else self.expr(d - 1))

    def func(self, d):
        r, ast = self.rng, self.ast
        body = None if r.random() < 0.15 else self.block_or_expr(d)
        ret = self.opt_ty(0.3)
        return ast.FunctionDeclaration(self.ident(), [self.param(d) for _ in range(r.randrange(3))], ret, body,
                                       r.choice([ast.FunctionDeclaration.CLASS_METHOD, ast.FunctionDeclaration.FUNCTION]),
                                       inferred_type=self.ty() if (ret is None or r.random() < 0.3) else None,
                                       is_final=r.random() < 0.5, override=r.random() < 0.3,
                                       type_parameters=[self.tparam() for _ in range(r.choice([0, 0, 1, 2]))])

    def cls(self, d):
        r, ast = self.rng, self.ast
        fields = [ast.FieldDeclaration(self.ident(), self.ty(), is_final=r.random() < 0.5,
                                       can_override=r.random() < 0.5, override=r.random() < 0.3)
                  for _ in range(r.randrange(3))]
        supers = [ast.SuperClassInstantiation(self.ty(1), None if r.random() < 0.4 else
                                              [self.expr(d - 1) for _ in range(r.randrange(3))])
                  for _ in range(r.choice([0, 1, 1, 2]))]
        return ast.ClassDeclaration(r.choice(["Cls", "K", "Bar"]), supers,
                                    r.choice([ast.ClassDeclaration.REGULAR, ast.ClassDeclaration.INTERFACE,
                                              ast.ClassDeclaration.ABSTRACT]),
                                    fields=fields, functions=[self.func(d) for _ in range(r.randrange(3))],
                                    is_final=r.random() < 0.5,
                                    type_parameters=[self.tparam() for _ in range(r.choice([0, 0, 1, 2]))])

    def decl(self, d):
        k = self.rng.random()
        if k < 0.3:
            return self.cls(d)
        if k < 0.6:
            return self.func(d)
        if k < 0.8:
            return self.stmt(d)
        return self.expr(d)          # a bare expression / block visited at top level


def export_decls(decls, lang="scala"):
    import export_ast
    e = export_ast.Exporter()
    prog = {"lang": lang, "decls": [e.node(d) for d in decls], "context": []}
    prog["tt"] = e.tt.entries
    return prog


def real_visit(translator_cls, decls, init, package=None):
    """visit the declarations in turn from the hand-set state `init`; returns texts and the state afterwards"""
    tr = translator_cls(package, {})
    tr.ident, tr.is_unit, tr.is_lambda, tr._cast_integers = (init["ident"], init["is_unit"], init["is_lambda"],
                                                             init["_cast_integers"])
    for d in decls:
        tr.visit(d)
    return {"texts": list(tr._children_res),
            "state": {"ident": tr.ident, "is_unit": tr.is_unit, "is_lambda": tr.is_lambda,
                      "_cast_integers": tr._cast_integers, "stack_len": len(tr._nodes_stack)}}


def cases(rng, n, depth=4):
    """n cases: (decls, init state)"""
    g = Gen(rng)
    for _ in range(n):
        while True:
            try:
                decls = [g.decl(rng.choice([1, 2, depth])) for _ in range(rng.choice([1, 1, 2, 3]))]
                break
            except (AssertionError, TypeError):      # a constructor of the IR refuses the drawn attribute values: draw again
                continue
        init = {"ident": rng.choice([0, 0, 2, 4, 7]), "is_unit": rng.random() < 0.3, "is_lambda": rng.random() < 0.3,
                "_cast_integers": rng.random() < 0.4}
        yield decls, init
