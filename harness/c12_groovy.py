"""C12, Groovy: "a declared type / explicit type argument is printed iff the program carries it", judged on the REAL
text of GroovyTranslator against the export of the IR (theorems: lean/Heph/Props/C12Groovy.lean).

 G1  the `def` keyword: the names printed as `def NAME = ` are exactly (as a multiset) the variables declared outside
     the global namespace WITHOUT a declared type (`var_type is None`; theorem var_annot_local) plus the nested
     functions printed as closure variables whose `ret_type` is None / groovy void (theorem ret_annot_closure).
     A difference is a failing input.
 G2  top-level variables without a declared type are nevertheless printed with a type (theorem
     var_annot_iff_counterexample / var_annot_global): known finding, re-observed.
 G3  explicit type arguments of calls are never printed (theorem call_targs_never_printed): known finding."""
import re
from collections import Counter

GVOID = "<class 'src.ir.groovy_types.VoidType'>"


def _is_gvoid(e, ix):
    if ix is None:
        return False
    t = e["tt"][ix]
    return t.get("k") == "b" and t.get("cls") == GVOID


def expected_defs(e):
    """(local bare variables, def-closures, top-level bare variables): lists of names"""
    loc, clo, top = [], [], []

    def walk(n, parent, toplevel):
        if isinstance(n, list):
            for x in n:
                walk(x, parent, toplevel)
            return
        if not isinstance(n, dict) or "n" not in n:
            return
        k = n["n"]
        if k == "var" and n["varType"] is None:
            (top if toplevel else loc).append(n["name"])
        if k == "func" and not toplevel and parent != "class":
            if n["retType"] is None or _is_gvoid(e, n["retType"]):
                clo.append(n["name"])
        for key, v in n.items():
            if isinstance(v, (dict, list)) and key not in ("tparams", "targs"):
                walk(v, k, False)

    for d in e["decls"]:
        walk(d, None, True)
    return loc, clo, top


def annotation_legs(run, spec, stage, text, e, inv, found, replay_of):
    bare = re.sub(r'"[^"\n]*"', '""', text)
    loc, clo, top = expected_defs(e)
    want = Counter(loc) + Counter(clo)
    got = Counter(re.findall(r"\bdef (?:Main\.)?(\w+) = ", bare))
    run.cov["groovy_def_keywords_compared"] = run.cov.get("groovy_def_keywords_compared", 0) + sum(want.values())
    bad = False
    if want != got:
        bad = True
        sig = "groovy:def-keyword-differs"
        if sig not in found:
            found.add(sig)
            diff = {k: [want.get(k, 0), got.get(k, 0)] for k in set(want) | set(got) if want.get(k, 0) != got.get(k, 0)}
            run.violation(dict(replay_of(spec, stage), kind="failing-input", translator="groovy", leg="G1 def keyword",
                               names_expected_vs_printed=dict(list(diff.items())[:6]),
                               note="`def NAME = ` must be printed exactly for local variables without a declared "
                                    "type and for closure-functions without a (non-void) return type"), signature=sig)
    if top:
        run.cov["groovy_toplevel_unannotated_variables"] = run.cov.get("groovy_toplevel_unannotated_variables", 0) + len(top)
        typed = sum(1 for nm in top if re.search(r"\bstatic (?:final )?(?!def\b)[^\n=]*[\w>\]] %s = " % re.escape(nm), bare))
        run.cov["groovy_toplevel_unannotated_variables_printed_with_type"] = \
            run.cov.get("groovy_toplevel_unannotated_variables_printed_with_type", 0) + typed
        if typed:
            run.violation(dict(replay_of(spec, stage), kind="failing-input", translator="groovy",
                               leg="annotation iff (top-level variables)", variables=top[:5],
                               note="top-level variables without a declared type are printed with a type"),
                          signature="groovy:toplevel-variable-without-declared-type-printed-with-type")
    targs = [nm for tag, nm, _ in inv if tag == "targs"]
    if targs:
        run.cov["groovy_explicit_call_type_arguments"] = run.cov.get("groovy_explicit_call_type_arguments", 0) + len(targs)
        printed = sum(1 for nm in targs if re.search(r"\.<[^;(){}]*>\s*%s\(" % re.escape(nm), bare))
        run.cov["groovy_explicit_call_type_arguments_printed"] = \
            run.cov.get("groovy_explicit_call_type_arguments_printed", 0) + printed
        if not printed:
            run.violation(dict(replay_of(spec, stage), kind="failing-input", translator="groovy",
                               leg="annotation iff (call type arguments)", calls=targs[:5],
                               note="calls carrying explicit type arguments (can_infer_type_args False) are printed "
                                    "without them"),
                          signature="groovy:explicit-call-type-arguments-not-printed")
    return bad
