"""Regenerates lean/Heph/Generated/Skeleton.lean from /repo/src/generators/generator.py on every
run (C18): the recursion SKELETON of expression generation, read with Python's `ast` module.

What is extracted (class `Generator` only)

 raw, per method that can reach `generate_expr` through `self.<method>(…)` calls:
   * the `self.depth += k` statements (amounts), the `self.depth = <local saved from self.depth>`
     restores, any OTHER write to `self.depth` (counted; the Lean side demands 0), the depth offset
     (relative to the method's entry) on every `return`/fall-through (a non-zero one is a *leak*:
     the method returns with the counter raised);
   * every call site `self.<m>(…)` of a method in that set: callee, line, the depth offset in force
     at the site, the `only_leaves` argument as written ("pass" = the caller's own parameter,
     "True", "False", "default:<callee default>", or the source text), the `gen_bottom` argument
     (source text; a local name is replaced by the expression last assigned to it), the type
     argument as written, keyword names passed, and the parameter `p` when the call is the right
     operand of `p or self.<m>(…)`.
 the dispatch of `get_generators`: the top-level `if`s in order with their condition text and the
   generator methods each branch can return (lambdas / local defs / dict values resolved to the
   `self.gen_*` they call; functions of `src.generators.generators` appear as "const:<name>").
 the cut of `gen_new`: the `self.depth > cfg.limits.max_depth * K` comparison inside a
   `gen_bottom` argument (operator and K) AND its guard: the other conjuncts of the disjunct the comparison
   stands in, read as exemptions `not X` (`cut_exempt`; the Lean side accepts exactly
   `<type argument>.is_primitive()`: the cut applies to every non-primitive argument type).
 flattened, per dispatched generator and per region root (the declaration-level methods
   BOUNDARY + entry points): every call path through helper methods that ends in a
   `generate_expr` call, with the summed depth offset, the number of offset>0 edges on the path,
   the composed `only_leaves` argument, whether the type argument is (or may be) the void type,
   and the cut of the last call.

What the syntactic extraction trusts (stated in the manifest)
 * the depth offset at a site is computed by a small abstract interpretation of the method body
   (sequencing, `if`/`else` joins where a branch ending in `return`/`raise` does not flow on, loop
   bodies must be offset-neutral); callees are assumed not to LOWER `self.depth` below its value
   at the call (justified on the table itself: the only writes are `+= k` and restores of a local
   saved in the same method; the Lean obligation `skeleton_ok` demands `otherWrites = 0`);
 * only direct `self.<name>(…)` calls are call sites (no aliasing of bound methods, no
   `getattr`); closures are attributed to the method that defines them (`deferred` sites, demanded
   to be absent outside `get_generators`);
 * `p or self.m(…)` is skipped on a path whose incoming call passes keyword `p` (the passed value
   is an AST node, assumed truthy);
 * a type argument is "void" exactly when its text is `self.bt_factory.get_void_type()`, "maybe"
   when it is absent, `ret_type`‑derived (`expr_type` in `_gen_func_body`), otherwise "no" (field,
   parameter, receiver and operand types are never void: a type-level fact the harness observes
   on every explored run through the C18 plugin, not something read from the syntax).
"""
import ast
import os
import common

SRC = os.path.join("src", "generators", "generator.py")
# declaration-level methods: every one starts a new *region* (its expressions are rooted afresh)
BOUNDARY = ["gen_lambda", "gen_func_decl", "gen_class_decl", "_gen_matching_class", "_gen_matching_func"]
ENTRY = ["generate_main_func", "gen_variable_decl"]   # gen_top_level_declaration picks gen_variable_decl / gen_class_decl / gen_func_decl
VOID_TEXT = "self.bt_factory.get_void_type()"
MAYBE_VOID_ARGS = {"": "maybe"}          # absent type argument: select_type()
MAYBE_VOID_SITES = {("_gen_func_body", "expr_type")}   # select_type(ret_types=False) may yield void


def unparse(e):
    return ast.unparse(e) if e is not None else ""


def is_self_depth(e):
    return isinstance(e, ast.Attribute) and e.attr == "depth" and isinstance(e.value, ast.Name) and e.value.id == "self"


def self_call(e, methods):
    if isinstance(e, ast.Call) and isinstance(e.func, ast.Attribute) and isinstance(e.func.value, ast.Name) \
            and e.func.value.id == "self" and e.func.attr in methods:
        return e.func.attr
    return None


class MethodInfo:
    def __init__(self, fn):
        self.fn = fn
        self.name = fn.name
        self.params = [a.arg for a in fn.args.args]            # incl. self
        d = fn.args.defaults
        self.defaults = {}
        for a, dv in zip(fn.args.args[len(fn.args.args) - len(d):], d):
            self.defaults[a.arg] = unparse(dv)
        self.incs, self.restores, self.other_writes = [], 0, 0
        self.returns = []          # offsets on return / fall-through (None = unknown)
        self.sites = []
        self.unknown = 0           # joins / loops where the offset was lost


def arg_of(call, callee, pname):
    """text of the argument bound to parameter `pname` of `callee` at `call`, or None"""
    for kw in call.keywords:
        if kw.arg == pname:
            return kw.value
    if pname in callee.params:
        i = callee.params.index(pname) - 1      # self
        if 0 <= i < len(call.args) and not any(isinstance(a, ast.Starred) for a in call.args[:i + 1]):
            return call.args[i]
    return None


def find_cut(e):
    """(op, K) of a `self.depth <op> cfg.limits.max_depth * K` comparison inside e"""
    if e is None:
        return None
    for n in ast.walk(e):
        if isinstance(n, ast.Compare) and len(n.ops) == 1 and is_self_depth(n.left):
            rhs = n.comparators[0]
            k = None
            if isinstance(rhs, ast.BinOp) and isinstance(rhs.op, ast.Mult):
                for a, b in ((rhs.left, rhs.right), (rhs.right, rhs.left)):
                    if unparse(a) == "cfg.limits.max_depth" and isinstance(b, ast.Constant) and isinstance(b.value, int):
                        k = b.value
            elif unparse(rhs) == "cfg.limits.max_depth":
                k = 1
            if k is not None:
                op = {ast.Gt: ">", ast.GtE: ">=", ast.Lt: "<", ast.LtE: "<=", ast.Eq: "=="}.get(type(n.ops[0]), "?")
                return op, k
    return None


def cut_exempt(e):
    """the guard of the depth cut inside a `gen_bottom` argument, read as
    `A or … or (self.depth > K * max_depth and not X1 and not X2 …)`: the texts [X1, X2, …] — a child for which
    one of them holds is NOT cut.  Anything else (a conjunct that is not a negation, a comparison that is not a
    conjunct of a top-level disjunct) is returned as "?:<text>", which no table accepted by `SkeletonOK` contains."""
    if e is None or find_cut(e) is None:
        return []

    def has_cmp(x):
        return any(isinstance(n, ast.Compare) and is_self_depth(n.left) for n in ast.walk(x))
    disjuncts = e.values if isinstance(e, ast.BoolOp) and isinstance(e.op, ast.Or) else [e]
    out = []
    for d in disjuncts:
        if not has_cmp(d):
            continue
        if isinstance(d, ast.Compare):
            continue
        if isinstance(d, ast.BoolOp) and isinstance(d.op, ast.And) and \
                any(isinstance(v, ast.Compare) and is_self_depth(v.left) for v in d.values):
            for v in d.values:
                if isinstance(v, ast.Compare) and is_self_depth(v.left):
                    continue
                if isinstance(v, ast.UnaryOp) and isinstance(v.op, ast.Not):
                    out.append(unparse(v.operand))
                else:
                    out.append("?:" + unparse(v))
        else:
            out.append("?:" + unparse(d))
    return out


def analyse(mi, methods):
    """abstract interpretation of the depth counter over the body of one method"""
    fn = mi.fn
    assigns = {}       # local name -> last assigned expression (textual order)

    def record_calls(expr, st, deferred=False, guard=None):
        if expr is None:
            return
        found = []

        def walk(e, dfr, g):
            if isinstance(e, ast.Lambda):
                walk(e.body, True, None)
                return
            if isinstance(e, ast.BoolOp) and isinstance(e.op, ast.Or) and isinstance(e.values[0], ast.Name) \
                    and e.values[0].id in mi.params:
                for v in e.values[1:]:
                    walk(v, dfr, e.values[0].id)
                return
            c = self_call(e, methods)
            if c is not None:
                found.append((e, c, dfr, g))
                g = None       # arguments of the guarded call are evaluated only if the call is
            for ch in ast.iter_child_nodes(e):
                walk(ch, dfr, g)

        walk(expr, deferred, guard)
        found.sort(key=lambda x: (x[0].lineno, x[0].col_offset))
        for e, c, dfr, g in found:
            callee = methods[c]
            ol = arg_of(e, callee, "only_leaves")
            if ol is None:
                olt = "default:" + callee.defaults.get("only_leaves", "") if "only_leaves" in callee.params else "none"
            else:
                t = unparse(ol)
                olt = "pass" if t == "only_leaves" and "only_leaves" in mi.params else t
            gb = arg_of(e, callee, "gen_bottom")
            gbe = gb
            if isinstance(gb, ast.Name) and gb.id in assigns:
                gbe = assigns[gb.id]
            targ = None
            for pn in ("expr_type", "etype"):
                if pn in callee.params:
                    targ = arg_of(e, callee, pn)
                    break
            mi.sites.append({
                "callee": c, "line": e.lineno, "off": st["off"], "ol": olt,
                "gen_bottom": unparse(gbe), "cut": find_cut(gbe), "cut_exempt": cut_exempt(gbe), "targ": unparse(targ),
                "kwargs": [kw.arg for kw in e.keywords if kw.arg], "guard": g or "", "deferred": dfr})

    def block(stmts, st):
        """returns True when the block always leaves the method (return/raise)"""
        for s in stmts:
            if stmt(s, st):
                return True
        return False

    def stmt(s, st):
        if isinstance(s, ast.AugAssign) and is_self_depth(s.target):
            if isinstance(s.op, ast.Add) and isinstance(s.value, ast.Constant) and isinstance(s.value.value, int) \
                    and s.value.value > 0:
                mi.incs.append(s.value.value)
                if st["off"] is not None:
                    st["off"] += s.value.value
            else:
                mi.other_writes += 1
                st["off"] = None
            return False
        if isinstance(s, ast.Assign):
            record_calls(s.value, st)
            for tg in s.targets:
                if is_self_depth(tg):
                    if isinstance(s.value, ast.Name) and s.value.id in st["saved"]:
                        mi.restores += 1
                        st["off"] = st["saved"][s.value.id]
                    else:
                        mi.other_writes += 1
                        st["off"] = None
                elif isinstance(tg, ast.Name):
                    assigns[tg.id] = s.value
                    if is_self_depth(s.value):
                        st["saved"][tg.id] = st["off"]
                    else:
                        st["saved"].pop(tg.id, None)
            return False
        if isinstance(s, ast.Return):
            record_calls(s.value, st)
            mi.returns.append(st["off"])
            return True
        if isinstance(s, ast.Raise):
            return True
        if isinstance(s, ast.If):
            record_calls(s.test, st)
            a = {"off": st["off"], "saved": dict(st["saved"])}
            b = {"off": st["off"], "saved": dict(st["saved"])}
            ta = block(s.body, a)
            tb = block(s.orelse, b)
            live = [x for x, t in ((a, ta), (b, tb)) if not t]
            if not live:
                return True
            offs = {x["off"] for x in live}
            if len(offs) > 1:
                mi.unknown += 1
                st["off"] = None
            else:
                st["off"] = offs.pop()
            st["saved"] = {k: v for k, v in live[0]["saved"].items() if all(x["saved"].get(k) == v for x in live)}
            return False
        if isinstance(s, (ast.For, ast.While)):
            record_calls(s.iter if isinstance(s, ast.For) else s.test, st)
            before = st["off"]
            inner = {"off": st["off"], "saved": dict(st["saved"])}
            block(s.body, inner)
            if inner["off"] != before:
                mi.unknown += 1
                st["off"] = None
            block(s.orelse, st)
            return False
        if isinstance(s, (ast.With, ast.Try)):
            t = block(s.body, st)
            for h in getattr(s, "handlers", []):
                block(h.body, st)
            block(getattr(s, "orelse", []), st)
            block(getattr(s, "finalbody", []), st)
            return t
        if isinstance(s, (ast.FunctionDef,)):
            for n in ast.walk(s):
                if isinstance(n, ast.Return) and n.value is not None:
                    record_calls(n.value, st, deferred=True)
                elif isinstance(n, ast.Expr):
                    record_calls(n.value, st, deferred=True)
            return False
        if isinstance(s, ast.Expr):
            record_calls(s.value, st)
            return False
        if isinstance(s, ast.AnnAssign):
            record_calls(s.value, st)
            return False
        for ch in ast.iter_child_nodes(s):
            if isinstance(ch, ast.expr):
                record_calls(ch, st)
        return False

    st = {"off": 0, "saved": {}}
    if not block(fn.body, st):
        mi.returns.append(st["off"])


# ---- dispatch of get_generators ------------------------------------------------------------------
def dispatch_of(fn, methods):
    env = {}          # local name -> list of element expressions (union over assignments / appends)
    defs = {}

    def elem(e):
        """one element of a generator list -> (callee, only_leaves text)"""
        if isinstance(e, ast.Lambda):
            e = e.body
        if isinstance(e, ast.Name) and e.id in defs:
            for n in ast.walk(defs[e.id]):
                if isinstance(n, ast.Return):
                    e = n.value
                    break
        c = self_call(e, methods)
        if c is not None:
            ol = arg_of(e, methods[c], "only_leaves")
            return (c, unparse(ol) if ol is not None else "default:" + methods[c].defaults.get("only_leaves", ""))
        if isinstance(e, ast.Attribute) and isinstance(e.value, ast.Name) and e.value.id == "gens":
            return ("const:" + e.attr, "none")
        return ("?:" + unparse(e)[:60], "?")

    def elems(e):
        """expression denoting a list of generators -> list of element expressions"""
        if isinstance(e, ast.List):
            out = []
            for x in e.elts:
                if isinstance(x, ast.Name) and x.id in env:
                    out += env[x.id]          # a local bound to ONE generator (gen_con)
                else:
                    out.append(x)
            return out
        if isinstance(e, ast.Name):
            return env.get(e.id, [e])
        if isinstance(e, ast.BinOp) and isinstance(e.op, ast.Add):
            return elems(e.left) + elems(e.right)
        if isinstance(e, ast.Dict):
            out = []
            for v in e.values:
                out += elems(v) if isinstance(v, (ast.List, ast.Tuple)) else [v]
            return out
        if isinstance(e, ast.Call) and isinstance(e.func, ast.Attribute) and e.func.attr == "get" \
                and isinstance(e.func.value, ast.Name):
            return env.get(e.func.value.id, [])
        return [e]

    branches = []

    def returns_in(stmts):
        out = []
        for s in stmts:
            for n in ast.walk(s):
                if isinstance(n, ast.Return) and n.value is not None:
                    out += elems(n.value)
        return out

    def scan(stmts):
        for s in stmts:
            if isinstance(s, ast.FunctionDef):
                defs[s.name] = s
            elif isinstance(s, ast.Assign) and len(s.targets) == 1 and isinstance(s.targets[0], ast.Name):
                env.setdefault(s.targets[0].id, [])
                env[s.targets[0].id] = env[s.targets[0].id] + elems(s.value)
            elif isinstance(s, ast.Expr) and isinstance(s.value, ast.Call) and isinstance(s.value.func, ast.Attribute) \
                    and s.value.func.attr == "append" and isinstance(s.value.func.value, ast.Name):
                env.setdefault(s.value.func.value.id, [])
                env[s.value.func.value.id] = env[s.value.func.value.id] + elems(ast.List(elts=list(s.value.args)))
            elif isinstance(s, ast.If):
                scan(s.body)
                scan(s.orelse)

    for s in fn.body:
        if isinstance(s, ast.If) and any(isinstance(n, ast.Return) for n in ast.walk(s)):
            scan(s.body)
            branches.append((unparse(s.test), returns_in(s.body)))
            scan(s.orelse)
        elif isinstance(s, ast.Return):
            branches.append(("", elems(s.value)))
        else:
            scan([s])
    out = []
    for cond, es in branches:
        seen, lst = set(), []
        for e in es:
            x = elem(e)
            if x not in seen:
                seen.add(x)
                lst.append(x)
        out.append((cond, lst))
    return out


# ---- collection -----------------------------------------------------------------------------------
def collect(path):
    tree = ast.parse(open(path).read())
    cls = next(n for n in tree.body if isinstance(n, ast.ClassDef) and n.name == "Generator")
    methods = {f.name: MethodInfo(f) for f in cls.body if isinstance(f, ast.FunctionDef)}
    for mi in methods.values():
        analyse(mi, methods)
    disp = dispatch_of(methods["get_generators"].fn, methods) if "get_generators" in methods else []
    dispatched = []
    for _, lst in disp:
        for c, _ol in lst:
            if c in methods and c not in dispatched:
                dispatched.append(c)
    # call graph; generate_expr -> dispatched generators
    edges = {m: {s["callee"] for s in mi.sites} for m, mi in methods.items()}
    edges.setdefault("generate_expr", set()).update(dispatched)
    reach = {"generate_expr"}
    changed = True
    while changed:
        changed = False
        for m, cs in edges.items():
            if m not in reach and cs & reach:
                reach.add(m)
                changed = True
    reach.discard("get_generators")
    return methods, disp, dispatched, reach


def compose_ol(cur, arg, callee_default):
    if arg == "pass":
        return cur
    if arg.startswith("default:"):
        return arg[len("default:"):] or callee_default
    return arg


def void_of(method, targ):
    if targ == VOID_TEXT:
        return "yes"
    if targ in MAYBE_VOID_ARGS or (method, targ) in MAYBE_VOID_SITES:
        return "maybe"
    return "no"


def flatten(methods, reach, root, problems):
    """all call paths root -> … -> generate_expr through helper methods"""
    out, bcalls = [], []

    def go(m, off, cnt, ol, kwargs, stack, path):
        mi = methods[m]
        for s in mi.sites:
            c = s["callee"]
            if c not in reach and c != "generate_expr":
                continue
            if s["deferred"]:
                if m != "get_generators":
                    problems.append("deferred call of %s in %s:%d" % (c, m, s["line"]))
                continue
            if s["guard"] and s["guard"] in kwargs:
                continue
            if s["off"] is None:
                problems.append("unknown depth offset at %s:%d" % (m, s["line"]))
                continue
            o2 = off + s["off"]
            c2 = cnt + (1 if s["off"] > 0 else 0)
            ol2 = compose_ol(ol, s["ol"], methods[c].defaults.get("only_leaves", "False"))
            p2 = path + [m]
            if c == "generate_expr":
                out.append({"path": ">".join(p2), "line": s["line"], "off": o2, "cnt": c2, "ol": ol2,
                            "targ": s["targ"], "void": void_of(m, s["targ"]), "cut": s["cut"],
                            "cut_exempt": s["cut_exempt"], "gen_bottom": s["gen_bottom"]})
            elif c in BOUNDARY:
                bcalls.append(">".join(p2) + ">" + c)
            elif c in stack or c == root:
                problems.append("helper cycle %s -> %s" % (">".join(p2), c))
            else:
                go(c, o2, c2, ol2, set(s["kwargs"]), stack | {c}, p2)

    go(root, 0, 0, "pass", set(), {root}, [])
    seen, uniq = set(), []
    for s in out:        # the same site reached through two call sites of one helper
        k = (s["path"], s["line"], s["off"], s["cnt"], s["ol"])
        if k not in seen:
            seen.add(k)
            uniq.append(s)
    return uniq, sorted(set(bcalls))


def lean_str(s):
    return '"' + s.replace("\\", "\\\\").replace('"', '\\"').replace("\n", " ") + '"'


def lean_list(xs):
    return "[" + ", ".join(xs) + "]"


def build():
    path = os.path.join(common.REPO, SRC)
    methods, disp, dispatched, reach = collect(path)
    problems = []
    raw = []
    for name in sorted(reach, key=lambda m: methods[m].fn.lineno):
        mi = methods[name]
        sites = [s for s in mi.sites if s["callee"] in reach or s["callee"] == "generate_expr"]
        leaks = sum(1 for r in mi.returns if r not in (0,))
        raw.append({"name": name, "line": mi.fn.lineno, "incs": mi.incs, "restores": mi.restores,
                    "other_writes": mi.other_writes, "leaks": leaks, "unknown": mi.unknown, "sites": sites})
    gens = []
    for g in dispatched:
        fs, bc = flatten(methods, reach, g, problems)
        gens.append({"name": g, "sites": fs, "boundary_calls": bc})
    roots = []
    for r in BOUNDARY + ENTRY:
        if r in methods:
            fs, bc = flatten(methods, reach, r, problems)
            roots.append({"name": r, "sites": fs, "boundary_calls": bc})
        else:
            problems.append("missing method " + r)
    wrapper, _ = flatten(methods, reach, "generate_expr", problems) if "generate_expr" in methods else ([], [])
    cuts = sorted({s["cut"] for m in raw for s in m["sites"] if s["cut"]})
    return {"raw": raw, "dispatch": disp, "gens": gens, "roots": roots, "wrapper": wrapper,
            "problems": sorted(set(problems)), "cuts": cuts, "boundary": BOUNDARY,
            "other_writes": sum(m["other_writes"] for m in raw),
            "leaks": [(m["name"], m["leaks"]) for m in raw if m["leaks"]]}


def fsite(s):
    cut = "none" if not s["cut"] else "(some (%s, %d))" % (lean_str(s["cut"][0]), s["cut"][1])
    return ("{ path := %s, line := %d, off := %d, cnt := %d, ol := %s, targ := %s, void := %s, cut := %s, cutExempt := %s }"
            % (lean_str(s["path"]), s["line"], s["off"], s["cnt"], lean_str(s["ol"]), lean_str(s["targ"]),
               lean_str(s["void"]), cut, lean_list([lean_str(x) for x in s.get("cut_exempt", [])])))


def render(sk):
    o = ["import Heph.Model.Depth",
         "/-! GENERATED by harness/regen_c18.py from src/generators/generator.py — do not edit.",
         "    The recursion skeleton of expression generation (see the generator's doc comment for what",
         "    the syntactic extraction trusts). -/",
         "namespace Heph.Generated", "open Heph.Depth", ""]
    o.append("/-- raw per-method facts: (method, line, amounts of `self.depth += k`, restores, other writes to")
    o.append("    `self.depth`, returns with a raised counter, lost offsets) -/")
    o.append("def skeletonMethods : List (String × Nat × List Nat × Nat × Nat × Nat × Nat) := [")
    o.append(",\n".join("  (%s, %d, %s, %d, %d, %d, %d)" % (lean_str(m["name"]), m["line"],
                                                          lean_list([str(i) for i in m["incs"]]), m["restores"],
                                                          m["other_writes"], m["leaks"], m["unknown"]) for m in sk["raw"]))
    o.append("]")
    o.append("")
    o.append("/-- raw call sites: (caller, callee, line, depth offset in force (none = lost), only_leaves argument,")
    o.append("    gen_bottom argument, type argument, guard parameter, deferred (inside a closure)) -/")
    o.append("def skeletonCalls : List (String × String × Nat × Option Nat × String × String × String × String × Bool) := [")
    rows = []
    for m in sk["raw"]:
        for s in m["sites"]:
            rows.append("  (%s, %s, %d, %s, %s, %s, %s, %s, %s)" % (
                lean_str(m["name"]), lean_str(s["callee"]), s["line"],
                "none" if s["off"] is None else "some %d" % s["off"], lean_str(s["ol"]), lean_str(s["gen_bottom"]),
                lean_str(s["targ"]), lean_str(s["guard"]), "true" if s["deferred"] else "false"))
    o.append(",\n".join(rows))
    o.append("]")
    o.append("")

    def gens(lst):
        return ",\n".join("  { name := %s, sites := [\n%s] }" % (
            lean_str(g["name"]), ",\n".join("      " + fsite(s) for s in g["sites"])) for g in lst)
    o.append("def skeleton : Skeleton where")
    o.append("  dispatch := [")
    o.append(",\n".join("    (%s, %s)" % (lean_str(c), lean_list(["(%s, %s)" % (lean_str(a), lean_str(b)) for a, b in l]))
                        for c, l in sk["dispatch"]))
    o.append("  ]")
    consts = []
    for _c, l in sk["dispatch"]:
        for a, _b in l:
            if a.startswith("const:") and a not in consts:
                consts.append(a)
    o.append("  consts := " + lean_list([lean_str(c) for c in consts]))
    o.append("  gens := [\n" + gens(sk["gens"]) + "]")
    o.append("  roots := [\n" + gens(sk["roots"]) + "]")
    o.append("  wrapperSites := [" + ", ".join(fsite(s) for s in sk["wrapper"]) + "]")
    o.append("  boundary := " + lean_list([lean_str(b) for b in sk["boundary"]]))
    o.append("  problems := " + lean_list([lean_str(p) for p in sk["problems"]]))
    o.append("  otherWrites := %d" % sk["other_writes"])
    o.append("")
    o.append("end Heph.Generated")
    o.append("")
    return "\n".join(o)


def regen_skeleton():
    sk = build()
    txt = render(sk)
    dst = os.path.join(common.LEAN, "Heph", "Generated", "Skeleton.lean")
    old = open(dst).read() if os.path.exists(dst) else None
    if old != txt:
        with open(dst, "w") as f:
            f.write(txt)
    return sk


if __name__ == "__main__":
    import json
    import sys
    sk = build()
    if len(sys.argv) > 1 and sys.argv[1] == "--write":
        regen_skeleton()
    print(json.dumps({k: v for k, v in sk.items() if k != "raw"}, indent=1, default=str))
    for m in sk["raw"]:
        print(m["name"], m["line"], "incs", m["incs"], "restores", m["restores"], "other", m["other_writes"],
              "leaks", m["leaks"], "unknown", m["unknown"])
        for s in m["sites"]:
            print("    ", s["callee"], s["line"], "off", s["off"], "ol", s["ol"], "| gb:", s["gen_bottom"][:60],
                  "| cut", s["cut"], "| targ", s["targ"][:40], "| guard", s["guard"], "| def", s["deferred"])
