"""C04 — structured stream: small hand-built IR programs (real `src.ir.ast` / `src.ir.types` classes, each
language's built-in factory) covering mutation-site kinds x type shapes that the random generator
rarely produces, each mutated under many controlled RNG states.

A *family* is a function `build(P)` (P = program builder of one language) that declares classes and
functions; `FAMILIES[name] = (build, languages)`.  `specs(...)` enumerates
(language, family, erase?, force, seed): `force` = the indices (modulo the length of the offered sequence)
returned by the FIRST calls of `utils.random.r.choice` during `TypeOverwriting.transform()` — the draw
of the candidate method, of the candidate node and, for a constructor / generic call, of the type
parameter (for a declaration: the first draw inside `find_irrelevant_type`, i.e. the replacement type) —
all further draws come from the seeded generator.  Every forced index is an outcome the real RNG can
produce, so every candidate site and many replacement types are observed with few runs.

`run_one(spec)` goes through `pipeline.run_one` (same exports, translations, plugins, caps as the random
stream): only the generator call is replaced by the builder.
"""
import random as _pyrandom

import pipeline

REGULAR, INTERFACE, ABSTRACT = 0, 1, 2


class ForcedRandom(_pyrandom.Random):
    """`random.Random` whose first `choice` calls (after `arm`) return the forced positions"""
    force = ()
    armed = False
    forced_log = ()

    def arm(self, force):
        self.force = list(force)
        self.armed = True
        self.forced_log = []

    def choice(self, seq):
        if self.armed and self.force:
            seq = list(seq) if not hasattr(seq, "__getitem__") else seq
            k = len(self.forced_log)
            # draw 0: the candidate methods (triples), draw 1: the candidate nodes of the type graph, draw 2: the next
            # draw whatever it is; other draws (e.g. of Program.get_types) come from the seeded generator
            fits = (k == 0 and len(seq) > 0 and isinstance(seq[0], tuple) and len(seq[0]) == 3) or \
                   (k == 1 and len(seq) > 0 and hasattr(seq[0], "is_omittable")) or k >= 2
            if fits:
                i = self.force.pop(0)
                self.forced_log.append([i, len(seq)])
                return seq[i % len(seq)]
        return super().choice(seq)


# ------------------------------------------------------------------------------------------------
class P:
    """program builder: registers everything in a Context the way the generator does"""

    def __init__(self, lang):
        from src.ir import ast, types as tp, context as ctx, BUILTIN_FACTORIES
        self.ast, self.tp = ast, tp
        self.lang = lang
        self.fac = BUILTIN_FACTORIES[lang]
        self.c = ctx.Context()
        self.G = ast.GLOBAL_NAMESPACE
        self.any = self.fac.get_any_type()
        self.void = self.fac.get_void_type()
        self.variance_ok = lang in ("kotlin", "scala")
        self.has_prims = lang in ("java", "groovy")

    # -- types
    def tparam(self, name, bound=None, variance=None):
        tp = self.tp
        v = {None: tp.Invariant, "out": tp.Covariant, "in": tp.Contravariant}[variance if self.variance_ok else None]
        return tp.TypeParameter(name, variance=v, bound=bound)

    def builtin(self, which, prim=False):
        t = getattr(self.fac, "get_%s_type" % which)()
        if prim and self.has_prims:
            return type(t)(primitive=True)
        return t

    # -- declarations
    def cls(self, name, tparams=(), fields=(), supers=(), funcs=(), ctype=REGULAR, final=False):
        """fields: [(name, type)]; supers: [(type, [arg exprs] | None)]; funcs: built with `method`"""
        ast = self.ast
        fds = [ast.FieldDeclaration(n, t) for n, t in fields]
        sups = [ast.SuperClassInstantiation(t, a) for t, a in supers]
        d = ast.ClassDeclaration(name, sups, ctype, fields=fds, functions=list(funcs), is_final=final,
                                 type_parameters=list(tparams))
        self.c.add_class(self.G, name, d)
        ns = self.G + (name,)
        for f in fds:
            self.c.add_var(ns, f.name, f)
        for t in tparams:
            self.c.add_type(ns, t.name, t)
        for f in funcs:
            self._register_func(ns, f)
        return d

    def _register_func(self, ns, f):
        self.c.add_func(ns, f.name, f)
        fns = ns + (f.name,)
        for p in f.params:
            self.c.add_var(fns, p.name, p)
        for t in f.type_parameters:
            self.c.add_type(fns, t.name, t)
        body = f.body
        if isinstance(body, self.ast.Block):
            for s in body.body:
                if isinstance(s, self.ast.VariableDeclaration):
                    self.c.add_var(fns, s.name, s)

    def mkfunc(self, name, params, ret, body, tparams=(), method=False, final=False, override=False):
        """params: [(name, type)]; body: list of statements (block; the last one is the result) or an
        expression; None = abstract"""
        ast = self.ast
        ps = [ast.ParameterDeclaration(n, t) for n, t in params]
        if isinstance(body, list):
            body = ast.Block(body)
        return ast.FunctionDeclaration(name, ps, ret, body,
                                       ast.FunctionDeclaration.CLASS_METHOD if method else ast.FunctionDeclaration.FUNCTION,
                                       is_final=final, override=override, type_parameters=list(tparams))

    def func(self, name, params, ret, body, tparams=()):
        f = self.mkfunc(name, params, ret, body, tparams)
        self._register_func(self.G, f)
        return f

    def gvar(self, name, expr, t):
        v = self.ast.VariableDeclaration(name, expr, var_type=t)
        self.c.add_var(self.G, name, v)
        return v

    # -- expressions
    def var(self, name, expr, t, final=True):
        return self.ast.VariableDeclaration(name, expr, is_final=final, var_type=t)

    def new(self, t, *args):
        return self.ast.New(t, list(args))

    def call(self, fname, args, targs=(), receiver=None):
        ast = self.ast
        return ast.FunctionCall(fname, [ast.CallArgument(a) for a in args], receiver=receiver, type_args=list(targs))

    def ref(self, name):
        return self.ast.Variable(name)

    def const(self, which, prim=False):
        ast = self.ast
        t = self.builtin(which, prim)
        if which in ("integer", "short", "long", "byte"):
            return ast.IntegerConstant(7, t)
        if which in ("double", "float"):
            return ast.RealConstant("1.5", t)
        if which == "string":
            return ast.StringConstant("s")
        if which == "boolean":
            return ast.BooleanConstant("true")
        if which == "char":
            return ast.CharConstant("c")
        raise ValueError(which)

    def program(self):
        return self.ast.Program(self.c, self.lang)


# ------------------------------------------------------------------------------------------------
# families
def _abc(p):
    a, b, c = p.cls("Alpha"), p.cls("Beta"), p.cls("Gamma")
    return a.get_type(), b.get_type(), c.get_type()


def _topsub(p):
    top = p.cls("Top")
    sub = p.cls("Sub", supers=[(top.get_type(), [])])
    return top.get_type(), sub.get_type()


def fam_var_simple(p):
    A, B, C = _abc(p)
    T, S = _topsub(p)
    p.func("test", [], p.void, [
        p.var("a", p.new(A), A), p.var("t", p.new(S), T), p.var("s", p.new(S), S), p.var("o", p.new(B), p.any)])


def fam_var_builtin(p):
    A, B, C = _abc(p)
    stmts = []
    for i, w in enumerate(("integer", "short", "long", "double", "char", "string", "boolean", "byte", "float")):
        stmts.append(p.var("v%d" % i, p.const(w), p.builtin(w)))
    p.func("test", [], p.void, stmts)
    p.func("test2", [("q", p.builtin("integer"))], p.void, [p.var("n", p.ref("q"), p.builtin("integer"))])


def fam_var_prim(p):
    """primitives and boxes (Java, Groovy): a primitive variable, a boxed one, a box initialised by a primitive value"""
    A, B, C = _abc(p)
    stmts = []
    for i, w in enumerate(("integer", "short", "long", "double", "char", "byte", "float")):
        stmts.append(p.var("p%d" % i, p.const(w, prim=True), p.builtin(w, prim=True)))
    p.func("test", [], p.void, stmts)
    p.func("test2", [("q", p.builtin("integer", prim=True)), ("r", p.builtin("double"))], p.void, [
        p.var("x", p.ref("q"), p.builtin("integer", prim=True)),
        p.var("y", p.ref("r"), p.builtin("double")),
        p.var("z", p.new(A), A)])


def fam_ret(p):
    A, B, C = _abc(p)
    T, S = _topsub(p)
    p.func("fa", [], A, p.new(A))
    p.func("ft", [], T, [p.var("s", p.new(S), S), p.ref("s")])
    # (no constant results: JLS 5.2 narrows constants, known finding 10)
    p.func("fi", [("x", p.builtin("integer"))], p.builtin("integer"), p.ref("x"))
    p.func("fs", [("x", p.builtin("string"))], p.builtin("string"), p.ref("x"))
    p.func("fp", [("x", S)], T, p.ref("x"))


def _pair(p, n, used, name):
    """class <name><T1..Tn>(one field per parameter index in `used`)"""
    ps = [p.tparam("T%d" % (i + 1)) for i in range(n)]
    d = p.cls(name, ps, [("f%d" % i, ps[i]) for i in used])
    return d.get_type()


def _fam_phantom(n, used, decl):
    """`new K<A, B, ..>(args for the used parameters)` stored in a variable of the top type (`decl` = "any") or of
    the instantiated type itself ("self"): the parameters not in `used` are not constrained by the constructor"""
    def build(p):
        tys = list(_abc(p))
        K = _pair(p, n, used, "Kons")
        t = K.new(tys[:n])
        e = p.new(t, *[p.new(tys[i]) for i in used])
        p.func("test", [], p.void, [p.var("x", e, p.any if decl == "any" else K.new(tys[:n]))])
    return build


def fam_box(p):
    A, B, C = _abc(p)
    T, S = _topsub(p)
    Box = _pair(p, 1, [0], "Box")
    p.func("test", [], p.void, [
        p.var("b", p.new(Box.new([A]), p.new(A)), Box.new([A])),
        p.var("bt", p.new(Box.new([T]), p.new(S)), Box.new([T])),
        p.var("bb", p.new(Box.new([Box.new([A])]), p.new(Box.new([A]), p.new(A))), Box.new([Box.new([A])])),
        p.var("bi", p.new(Box.new([p.builtin("integer")]), p.const("integer")), Box.new([p.builtin("integer")])),
        p.var("bo", p.new(Box.new([B]), p.new(B)), p.any)])
    p.func("mk", [("x", A)], Box.new([A]), p.new(Box.new([A]), p.ref("x")))


def fam_bounded(p):
    A, B, C = _abc(p)
    T, S = _topsub(p)
    X = p.tparam("X", bound=T)
    NB = p.cls("NBox", [X], [("f", X)]).get_type()
    Y = p.tparam("Y", bound=T)
    Z = p.tparam("Z")
    Two = p.cls("Two", [Z, Y], [("g", Y)]).get_type()
    p.func("test", [], p.void, [
        p.var("n", p.new(NB.new([S]), p.new(S)), NB.new([S])),
        p.var("m", p.new(NB.new([T]), p.new(S)), p.any),
        p.var("w", p.new(Two.new([A, S]), p.new(S)), p.any)])
    U = p.tparam("U", bound=T)
    p.func("idb", [("x", U)], U, [p.var("y", p.ref("x"), U), p.ref("y")], tparams=[U])


def fam_variance(p):
    """declaration-site variance (Kotlin, Scala; invariant elsewhere), arguments that are the top type"""
    A, B, C = _abc(p)
    T, S = _topsub(p)
    O = p.tparam("T", variance="out")
    Out = p.cls("Out", [O], [("f", O)]).get_type()
    K1, V1 = p.tparam("K", variance="out"), p.tparam("V", variance="out")
    Both = p.cls("Both", [K1, V1], [("k", K1), ("v", V1)]).get_type()
    In_ = p.cls("Sink", [p.tparam("T", variance="in")]).get_type()
    Mix = p.cls("Mix", [p.tparam("I"), p.tparam("O", variance="out")]).get_type()
    p.func("test", [], p.void, [
        p.var("xs", p.new(Out.new([p.any]), p.new(A)), Out.new([p.any])),
        p.var("ys", p.new(Both.new([p.any, p.any]), p.new(S), p.new(A)), Both.new([p.any, p.any])),
        p.var("zs", p.new(Out.new([T]), p.new(S)), Out.new([T])),
        p.var("ks", p.new(In_.new([S])), In_.new([S])),
        p.var("ms", p.new(Mix.new([A, p.any])), Mix.new([A, p.any])),
        p.var("os", p.new(Out.new([Out.new([p.any])]), p.new(Out.new([p.any]), p.new(B))), Out.new([Out.new([p.any])]))])
    p.func("mk", [], Out.new([p.any]), p.new(Out.new([p.any]), p.new(C)))


def fam_generic_call(p):
    A, B, C = _abc(p)
    T, S = _topsub(p)
    X = p.tparam("X")
    p.func("ident", [("x", X)], X, p.ref("x"), tparams=[X])
    P1, P2 = p.tparam("P1"), p.tparam("P2")
    p.func("snd", [("x", P2)], P2, p.ref("x"), tparams=[P1, P2])
    Q1, Q2 = p.tparam("Q1"), p.tparam("Q2")
    p.func("fst", [("x", Q1)], Q1, p.ref("x"), tparams=[Q1, Q2])
    p.func("test", [], p.void, [
        p.var("a", p.call("ident", [p.new(A)], [A]), A),
        p.var("b", p.call("snd", [p.new(B)], [A, B]), p.any),
        p.var("c", p.call("fst", [p.new(C)], [C, B]), p.any),
        p.var("d", p.call("snd", [p.new(S)], [A, T]), T)])


def fam_tparam_decl(p):
    """declared types that are type parameters (of the class, of the function, bounded)"""
    A, B, C = _abc(p)
    T, S = _topsub(p)
    X = p.tparam("X")
    get = p.mkfunc("get", [], X, [p.var("r", p.ref("f"), X), p.ref("r")], method=True)
    p.cls("Holder", [X], [("f", X)], funcs=[get])
    U = p.tparam("U", bound=T)
    p.func("idb", [("x", U)], U, [p.var("y", p.ref("x"), U), p.ref("y")], tparams=[U])
    W = p.tparam("W")
    p.func("idw", [("x", W)], W, [p.var("y", p.ref("x"), W), p.ref("y")], tparams=[W])


def fam_subclass_generic(p):
    A, B, C = _abc(p)
    Foo = p.cls("Foo").get_type()
    Bar = p.cls("Bar", [p.tparam("T")], supers=[(Foo, [])]).get_type()
    X = p.tparam("X")
    Box = p.cls("Box", [X]).get_type()
    Y = p.tparam("Y")
    Baz = p.cls("Baz", [Y], [("g", Y)], supers=[(Box.new([Y]), [])]).get_type()
    p.func("test", [], p.void, [
        p.var("x", p.new(Bar.new([A])), Foo),
        p.var("y", p.new(Baz.new([A]), p.new(A)), Box.new([A])),
        p.var("z", p.new(Foo), Foo),
        p.var("w", p.new(Baz.new([B]), p.new(B)), Baz.new([B]))])
    p.func("mk", [], Foo, p.new(Bar.new([C])))


def fam_global_method(p):
    """a global variable, a class with a method holding declarations, two candidate methods"""
    A, B, C = _abc(p)
    T, S = _topsub(p)
    p.gvar("gv", p.new(A), A)
    m = p.mkfunc("work", [("q", S)], T, [p.var("l", p.ref("q"), T), p.ref("l")], method=True)
    p.cls("Worker", [], [("h", B)], funcs=[m])
    p.func("test", [], A, [p.var("u", p.ref("gv"), A), p.ref("u")])


FAMILIES = {
    "var_simple": (fam_var_simple, pipeline.LANGS),
    "var_builtin": (fam_var_builtin, pipeline.LANGS),
    "var_prim": (fam_var_prim, ("java", "groovy")),
    "ret": (fam_ret, pipeline.LANGS),
    "box": (fam_box, pipeline.LANGS),
    "bounded": (fam_bounded, pipeline.LANGS),
    "variance": (fam_variance, pipeline.LANGS),
    "generic_call": (fam_generic_call, pipeline.LANGS),
    "tparam_decl": (fam_tparam_decl, pipeline.LANGS),
    "subclass_generic": (fam_subclass_generic, pipeline.LANGS),
    "global_method": (fam_global_method, pipeline.LANGS),
}
# constructor type arguments: 1-3 parameters, every subset of parameters constrained by a field, the value
# stored in a variable of the top type (nothing else constrains the arguments) or of its own type
for _n in (1, 2, 3):
    for _mask in range(1, 2 ** _n):
        _used = [i for i in range(_n) if _mask >> i & 1]
        for _decl in ("any", "self"):
            FAMILIES["phantom_%d_%s_%s" % (_n, "".join(map(str, _used)), _decl)] = (
                _fam_phantom(_n, _used, _decl), pipeline.LANGS)


# ------------------------------------------------------------------------------------------------
def build_program(lang, family):
    build, langs = FAMILIES[family]
    p = P(lang)
    build(p)
    return p.program()


def install(state, spec):
    """pipeline plugin: the RNG of the real code becomes a ForcedRandom"""
    from src import utils
    state["c04_orig_r"] = utils.random.r
    state["c04_spec"] = spec
    utils.random.r = ForcedRandom()


def stage(state, name, program, st):
    from src import utils
    spec = state.get("c04_spec")
    if spec is not None and name == spec["stages"][-2]:
        # the next stage is the overwrite: from here on the first draws are forced
        utils.random.r.arm(spec.get("force") or [])


def collect(state):
    from src import utils
    return {"forced": list(getattr(utils.random.r, "forced_log", []))}


def uninstall(state):
    from src import utils
    if "c04_orig_r" in state:
        utils.random.r = state["c04_orig_r"]


def run_one(spec):
    """spec: {family, lang, seed, erase: bool, force: [ints]} -> the result dict of pipeline.run_one"""
    pipeline.setup()
    import itertools
    from src import utils
    full = dict(spec)
    full.setdefault("switches", [0, 0, 0, 0])
    full.setdefault("max_depth", 6)
    full["stages"] = ["gen", "erase", "overwrite"] if spec.get("erase") else ["gen", "overwrite"]
    full.setdefault("export", True)
    full.setdefault("translate", [spec["lang"]])
    full.setdefault("cap", 60)
    full["plugins"] = ["c04_families", "plugin_tda"]
    full.setdefault("erasure_options", {})

    def generate(lang, seed, switches=(0, 0, 0, 0), max_depth=6):
        pipeline.configure(lang, switches, max_depth)
        pipeline._STATE["cnt"]["c"] = itertools.count(1)
        utils.random.r.seed(seed)
        utils.random.reset_word_pool()
        return build_program(lang, spec["family"])

    orig_gen = pipeline.generate
    pipeline.generate = generate
    try:
        r = pipeline.run_one(full)
    finally:
        pipeline.generate = orig_gen
    if "overwrite" in r.get("stages", {}) and "erase" not in r["stages"]:
        # the judge reads the stage before the overwrite under the name "erase"
        r["stages"]["erase"] = r["stages"]["gen"]
    return r


def run_chunk(specs):
    return [run_one(s) for s in specs]


def run_many(specs, workers=8, chunk=12):
    import multiprocessing as mp
    if len(specs) <= chunk:
        return run_chunk(specs)
    chunks = [specs[i:i + chunk] for i in range(0, len(specs), chunk)]
    ctx = mp.get_context("fork")
    with ctx.Pool(min(workers, len(chunks)), initializer=pipeline._worker_init, maxtasksperchild=40) as pool:
        out = []
        for rs in pool.imap(run_chunk, chunks):
            out += rs
        return out


QUICK_PHANTOM = ("phantom_2_0_any", "phantom_2_1_any", "phantom_2_01_any", "phantom_2_1_self", "phantom_3_2_any",
                 "phantom_3_1_any", "phantom_3_12_any", "phantom_3_02_any", "phantom_1_0_any")


# families whose declared types instantiate user generics: the third draw (the replacement type) is walked over
# all user classes, so that "the replacement is built from the old type's own constructor" is observed
WIDE = ("variance", "box", "subclass_generic")


def specs(rng, tier, langs=pipeline.LANGS, families=None):
    """every family x language: the first draws forced over a grid (candidate method, candidate node, third draw =
    type parameter of a call node / replacement type of a declaration) plus free seeds; on the erased program a
    smaller grid.  quick: a sub-grid and 9 of the 44 phantom families; thorough: everything"""
    quick = tier == "quick"
    out = []
    for fam in sorted(FAMILIES):
        if families and fam not in families:
            continue
        ph = fam.startswith("phantom")
        if quick and ph and not families and fam not in QUICK_PHANTOM:
            continue
        if ph:
            gn, gt, free = (2, 3, 1) if quick else (2, 8, 20)
        elif fam in WIDE:
            gn, gt, free = (4, 8, 2) if quick else (9, 14, 60)
        else:
            gn, gt, free = (5, 2, 2) if quick else (9, 12, 60)
        for lang in FAMILIES[fam][1]:
            if lang not in langs:
                continue
            for erase in (False, True):
                n1, t1 = (gn, gt) if not erase else ((2, 1) if quick else (4, 3))
                grid = [[0, n, a] for n in range(n1) for a in range(t1)]
                if not ph and not erase:
                    grid += [[1, n, 0] for n in range(2 if quick else 4)]
                for f in grid:
                    out.append({"family": fam, "lang": lang, "erase": erase, "force": f, "seed": rng.randrange(1, 10 ** 6)})
                for _ in range(free if not erase else (0 if quick else 4)):
                    out.append({"family": fam, "lang": lang, "erase": erase, "force": [], "seed": rng.randrange(1, 10 ** 6)})
    return out
