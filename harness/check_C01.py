"""C01 — generated programs are well-typed (the pass oracle) — *partial*.

proof side : lean/Heph/Props/C01.lean — `check_sound : checkProgram lt p = .ok → WT lt p` for ALL programs
             (the declarative judgement of lean/Heph/Spec/Typing.lean over `Asg`), `isSubD_sound`, the model of
             the fold of `gen_conditional` with `condType_upper_partial` / `condType_counterexample` /
             `condTypeFixed_upper`, the model of the filter of `gen_variable` with `genVariable_sound` /
             `genVariable_assignable` / `genVariable_refines_*`; further decision points of the generator
             (lean/Heph/Model/GenFuncRef, GenNew, GenMatch, GenSig.lean): `sigtypeCompatible_sound/assignable`,
             `funcCallRef_sound/candidates/refines_*`, `funcRef_sound`, `subclass_sound/prefers_own/refines_*`,
             `newFromClass_expected`, `genNew_new`, `genNew_map_is_instantiation`, `genNew_expected_is_sink`,
             `matchingClassDecls_sound`, `firstCompatible_sound/none`, `matchedOK_sound`, `overrideSig_arity`,
             `overrideComponent_spec/plain`, `restrictMap_spec`, `callArgsExpected_plain/sound`; and
             lean/Heph/Props/C01Gen.lean (`genNew_expected_substS`, world of C07's specification; built and
             audited by this check through `audit_extra`).
tie to code: every program the real generator produces for (language x switch setting x seed x max_depth) is
             exported by value and sent to the verified checker (op `check.wt`).  The quantifier over seeds is
             covered only on the explored programs.  A rejected program is a candidate violation: replay =
             (lang, seed, switches, max_depth) + error path; for Java the translation is also given to javac.
             Negative controls: ill-typed mutants of accepted programs must be rejected.
             Decision points, recorded inside the same generator runs by the plugin c01_plugin:
             `gen_conditional` (the fold's three draws, its result, the expected type and the type finally
             recorded, compared with `condType` / `condTypeFixed`), `gen_variable` (variables in scope, expected
             type, flags, outcome; refinement of `genVariableCandidates`, a differing call is judged by the
             specification-side decider `check.subd`).  The witness of `condType_counterexample` is replayed on the
             real `gen_conditional` (`fold_witness`).
             The other decision points (`check_genpoints`; recorded by c01_plugin with per-program caps GP_LIMITS,
             inputs / random draws / outcome by value, one driver request per program and kind):
             exact comparison  - `_is_sigtype_compatible` (check.sigcompat), `_get_matching_class_decls` given the
                                 unifier maps (check.classdecls), `_gen_matching_class` (check.firstcompat), `gen_new`:
                                 node kind, node type and the expected types handed to `generate_expr` given the class
                                 drawn and the random instantiations (check.gennew), `_gen_func_from_existing`: the
                                 signature handed to `gen_func_decl` (check.overridesig), `_gen_func_call`: the expected
                                 argument types under the final `params_map` (check.callargs);
             refinement        - `_gen_func_call_ref` (check.funcallref), `_gen_func_ref` (check.funcref),
                                 `_get_subclass` (check.subclass), `_get_matching_class` (its draw is one of the class
                                 declarations `_get_matching_class_decls` returned);
             returned triples  - every (attribute, maps) returned by `_get_matching_objects`,
                                 `_get_matching_function_declarations`, `_get_matching_class` satisfies `matchedOK`
                                 (check.sigcompat) under the maps as returned, or, when a random use-site-variance
                                 instantiation binds a type parameter to a projection, the checker's read rule
                                 (check.readfits = `readType` + specification-side decider); neither -> failing input.
budget     : one program costs 0.2-60 CPU seconds (deep copies in the generator); programs are capped by CPU time
             (not wall-clock time) so that the set of cut-off programs does not depend on the load of the machine.
"""
import collections
import json
import os
import shutil
import subprocess
import tempfile
import time

import common
import export
import pipeline

LEVEL = "proof"
QUICK_SWITCHES = [(0, 0, 0, 0), (1, 0, 1, 0), (0, 1, 0, 1)]
FINDING7 = "cond-recorded-type"
FINDING7_SIG = "gen_conditional:recorded-type-not-upper-bound-of-branch"


# ---------------------------------------------------------------------------------------------
# requests
def _subs(entries, i, acc):
    e = entries[i]
    if e["k"] == "b":
        acc.add(i)
    for k in ("sups", "params", "args"):
        for j in e.get(k, []):
            _subs(entries, j, acc)
    for k in ("bound", "con"):
        if e.get(k) is not None:
            _subs(entries, e[k], acc)
    return acc


def add_bt(exp):
    """by-value image of `Program.bt_factory`: the built-ins of the language (closed under stored supertypes,
    primitive and boxed variants) become the table of the checker's universe"""
    from src.ir import BUILTIN_FACTORIES
    import src.ir.types as tp
    rq = dict(exp)
    fac = BUILTIN_FACTORIES[rq["lang"]]
    tt = export.TypeTable()
    tt.entries = list(rq["tt"])
    tt._idx = {repr(e): i for i, e in enumerate(tt.entries)}
    bs = [t for t in fac.get_non_nothing_types() if isinstance(t, tp.Builtin) and not t.is_type_constructor()]
    for t in list(bs):
        for prim in (True, False):
            try:
                bs.append(type(t)(primitive=prim))
            except TypeError:
                pass
    bs += [fac.get_any_type(), fac.get_void_type()]
    idx = []
    for t in bs:
        i = tt.add(t)
        if i not in idx:
            idx.append(i)
    for i in list(idx):
        for j in sorted(_subs(tt.entries, i, set())):
            if j not in idx:
                idx.append(j)
    rq["bt"] = {"any": tt.add(fac.get_any_type()), "void": tt.add(fac.get_void_type()),
                "boolean": tt.add(fac.get_boolean_type()), "char": tt.add(fac.get_char_type()),
                "string": tt.add(fac.get_string_type()), "integer": tt.add(fac.get_integer_type()),
                "builtins": idx}
    rq["tt"] = tt.entries
    rq["op"] = "check.wt"
    rq.pop("context", None)     # the checker builds its own scopes from the declarations
    return rq


def spec_of(lang, seed, sw, depth, cap, translate=None, plugins=()):
    """`cap` = CPU seconds allowed for one program (enforced by c01_plugin with ITIMER_PROF, so that the set of
    programs cut off does not depend on the load of the machine); the wall-clock cap of pipeline.run_one is 8 x that"""
    s = {"lang": lang, "seed": seed, "switches": tuple(sw), "max_depth": depth, "stages": ["gen"], "export": True,
         "cap": 8 * cap, "cpu_cap": cap, "plugins": list(plugins)}
    if translate:
        s["translate"] = translate
    return s


def replay_key(spec):
    return {"lang": spec["lang"], "seed": spec["seed"], "switches": list(spec["switches"]),
            "max_depth": spec["max_depth"]}


# ---------------------------------------------------------------------------------------------
# javac
def javac_verdict(text):
    """compile one translated Java program; returns ("accepted"|"rejected"|"unavailable", first error lines)"""
    if shutil.which("javac") is None:
        return "unavailable", ""
    d = tempfile.mkdtemp(prefix="c01javac")
    try:
        src = os.path.join(d, "src", "pkg")
        os.makedirs(src)
        with open(os.path.join(src, "Main.java"), "w") as f:
            f.write(text)
        p = subprocess.run(["javac", "-nowarn", "-d", os.path.join(d, "out"), os.path.join(src, "Main.java")],
                           stdout=subprocess.PIPE, stderr=subprocess.STDOUT, text=True, timeout=300)
        errs = [l for l in p.stdout.splitlines() if "error:" in l]
        return ("accepted" if p.returncode == 0 else "rejected"), "\n".join(errs[:3])
    except subprocess.TimeoutExpired:
        return "unavailable", "timeout"
    finally:
        shutil.rmtree(d, ignore_errors=True)


# ---------------------------------------------------------------------------------------------
# negative controls: ill-typed mutants of accepted programs
def _walk(j, f):
    if isinstance(j, dict):
        if "n" in j:
            f(j)
        for v in j.values():
            _walk(v, f)
    elif isinstance(j, list):
        for v in j:
            _walk(v, f)


def mutants(rq, rng):
    """ill-typed variants of an accepted program: (label, expected tag prefix, request)"""
    out = []
    bt = rq["bt"]

    def clone():
        return json.loads(json.dumps(rq))
    # 1. a string/boolean constant initialiser under a declared type of another built-in class
    m = clone()
    hit = []

    def f1(n):
        if n["n"] == "var" and n["expr"] and n["expr"]["n"] in ("string", "bool") and not hit:
            other = bt["boolean"] if n["expr"]["n"] == "string" else bt["string"]
            n["inferred"] = other
            if n.get("varType") is not None:
                n["varType"] = other
            hit.append(1)
    _walk(m["decls"], f1)
    if hit:
        out.append(("init-type-swapped", "init", m))
    # 2. a constructor call loses its last argument
    m = clone()
    hit = []

    def f2(n):
        if n["n"] == "new" and n["args"] and not hit:
            n["args"] = n["args"][:-1]
            hit.append(1)
    _walk(m["decls"], f2)
    if hit:
        out.append(("ctor-arg-dropped", "ctor-arity", m))
    # 3. a class that is inherited from becomes final
    m = clone()
    supers = set()

    def f3(n):
        if n["n"] == "class":
            for s in n["supers"]:
                supers.add(m["tt"][s["t"]]["name"])
    _walk(m["decls"], f3)
    hit = []
    for d in m["decls"]:
        if d["n"] == "class" and d["name"] in supers and not hit:
            d["isFinal"] = True
            hit.append(1)
    if hit:
        out.append(("super-made-final", "final-super", m))
    # 4. a call argument of a built-in type is replaced by a string constant where another class is expected
    m = clone()
    hit = []

    def f4(n):
        if n["n"] == "call" and not n["isRefCall"] and not hit:
            for a in n["args"]:
                if a["expr"]["n"] in ("int", "real", "bool", "char"):
                    a["expr"] = {"n": "string", "lit": "mutant"}
                    hit.append(1)
                    break
    _walk(m["decls"], f4)
    if hit:
        out.append(("arg-replaced-by-string", None, m))   # not strict: the parameter may have the top type
    # 5. an implemented abstract function loses its body in a regular class -> handled by 'result'? skip
    return out


# ---------------------------------------------------------------------------------------------
def triage(run, spec, ans, rq, javac_cache, unexplained_cond=True):
    """one rejected program: every failing obligation becomes a (known) finding or a violation.
    A failing `cond-recorded-type` obligation is finding 7 only when the program's recorded folds of
    `gen_conditional` explain it (at least as many folds whose result is not an upper bound of both branch
    types as there are failing conditionals); otherwise it keeps a signature of its own and is a violation."""
    sigs = []
    ncond = len({tuple(path[:-1]) for path, tag, detail, kinds in ans["fail"] if tag.startswith(FINDING7)})
    for path, tag, detail, kinds in ans["fail"]:
        if tag.startswith(FINDING7):
            sig = FINDING7_SIG if not unexplained_cond else "%s:unexplained-by-fold:%s" % (FINDING7, kinds)
            run.tally("cond_recorded_type_kinds", kinds)
        else:
            sig = "%s:%s" % (tag, kinds)
        if sig not in sigs:
            sigs.append(sig)
    first = ans["r"]
    rp = {"kind": "failing-input", "replay": replay_key(spec), "error": first, "failures": ans["fail"][:6],
          "nfail": ans["nfail"], "failing_conditionals": ncond}
    if spec["lang"] == "java":
        key = json.dumps(replay_key(spec), sort_keys=True)
        if key not in javac_cache:
            r = pipeline.run_one(spec_of("java", spec["seed"], spec["switches"], spec["max_depth"], spec["cpu_cap"],
                                         translate=["java"]))
            txt = r.get("stages", {}).get("gen", {}).get("texts", {}).get("java")
            javac_cache[key] = javac_verdict(txt) if txt else ("unavailable", "no translation")
        rp["javac"] = {"verdict": javac_cache[key][0], "errors": javac_cache[key][1]}
        run.tally("javac_on_rejected", javac_cache[key][0])
    seen = run.cov.setdefault("_reported_signatures", [])
    for sig in sigs:
        run.tally("rejection_signatures", sig)
        if sig in seen:            # one replay per shape; further programs of the same shape are only tallied
            continue
        seen.append(sig)
        run.violation(dict(rp, signature=sig), signature=sig)


def check_programs(run, specs, label, mutate_every=0):
    t0 = time.time()
    results = pipeline.run_many(specs)
    run.log("%s: %d generator runs in %.0fs" % (label, len(results), time.time() - t0))
    rqs, metas = [], []
    for r in results:
        sp = r["spec"]
        key = "%s/%s" % (sp["lang"], "".join(map(str, sp["switches"])))
        if "cutoff" in r:
            run.tally("cutoffs", sp["lang"])
            continue
        if "exception" in r:      # belongs to C18; counted here
            frames = [l for l in r["exception"].get("traceback", "").splitlines() if l.lstrip().startswith('File "')]
            if frames and ("c01_plugin.py" in frames[-1] or os.path.join("harness", "export") in frames[-1]):
                # raised by the recording wrapper itself, not by the generator: machinery error, never data
                raise common.HarnessError("c01_plugin raised inside a generator run %s: %s: %s" % (
                    replay_key(sp), r["exception"]["type"], r["exception"]["msg"][:200]))
            run.tally("generator_exceptions", "%s:%s" % (sp["lang"], r["exception"]["type"]))
            continue
        exp = r["stages"]["gen"]["export"]
        rq = add_bt(exp)
        rqs.append(rq)
        metas.append((sp, key, r))
    t0 = time.time()
    answers = run_driver_sharded(rqs) if rqs else []
    # decision point gen_conditional: recorded folds vs the Lean model (one driver batch for all programs)
    plouts = [(sp, r.get("plugins", {}).get("c01_plugin")) for sp, key, r in metas]
    notupper = check_folds(run, plouts)
    check_genvar(run, plouts)
    check_genpoints(run, plouts)
    run.log("%s: %d programs judged by check.wt in %.0fs" % (label, len(rqs), time.time() - t0))
    javac_cache = {}
    accepted = []
    import export_ast
    for i, (rq, (sp, key, r), a) in enumerate(zip(rqs, metas, answers)):
        if "error" in a:
            raise common.HarnessError("driver error on %s: %s" % (replay_key(sp), a["error"][:300]))
        run.tally("programs_checked", key)
        run.tally("programs_by_depth", str(sp["max_depth"]))
        nodes = export_ast.count_nodes(rq["decls"])
        run.cov["nodes_checked"] = run.cov.get("nodes_checked", 0) + nodes
        run.cov["obligations_checked"] = run.cov.get("obligations_checked", 0) + a["n"]
        for t, c in a["tags"].items():
            d = run.cov.setdefault("obligation_tags", {})
            d[t] = d.get(t, 0) + c
        run.count({"replay": replay_key(sp), "nodes": nodes, "obligations": a["n"],
                   "verdict": a["r"] if a["r"] == "ok" else a["r"]["reason"]}, nontrivial=nodes > 50)
        run.cov["traces_validated_against_impl"] += 1
        if a["r"] == "ok":
            run.tally("accepted", sp["lang"])
            accepted.append(rq)
        else:
            run.tally("rejected", sp["lang"])
            ncond = len({tuple(f[0][:-1]) for f in a["fail"] if f[1].startswith(FINDING7)})
            triage(run, sp, a, rq, javac_cache, unexplained_cond=ncond > notupper.get(i, 0))
    # negative controls
    if mutate_every and accepted:
        mrqs, mmeta = [], []
        for rq in accepted[::mutate_every]:
            for lab, tag, m in mutants(rq, run.rng):
                mrqs.append(m)
                mmeta.append((lab, tag))
        mans = run_driver_sharded(mrqs) if mrqs else []
        for (lab, tag), a in zip(mmeta, mans):
            if "error" in a:
                raise common.HarnessError("driver error on mutant %s: %s" % (lab, a["error"][:300]))
            killed = a["r"] != "ok" and (not tag or any(f[1].startswith(tag) for f in a["fail"]))
            if tag is None:
                run.tally("mutants", "%s:%s" % (lab, "rejected" if killed else "accepted (may be well-typed)"))
                continue
            run.tally("mutants", "%s:%s" % (lab, "rejected" if killed else "ACCEPTED"))
            if not killed:
                run.broken.append({"obligation": "negative control " + lab, "detail": "ill-typed mutant accepted"})
    return len(rqs)


def run_driver_sharded(rqs, shards=6):
    """the driver is a sequential process: split a large batch over a few driver processes"""
    if len(rqs) < 4 * shards:
        return common.run_driver(rqs)
    from concurrent.futures import ThreadPoolExecutor
    parts = [rqs[i::shards] for i in range(shards)]
    with ThreadPoolExecutor(shards) as ex:
        outs = list(ex.map(common.run_driver, parts))
    ans = [None] * len(rqs)
    for k, out in enumerate(outs):
        ans[k::shards] = out
    return ans


def check_genvar(run, plugin_outputs):
    """recorded calls of `gen_variable` against the model `genVariableCandidates` (refinement: a returned variable is
    one of the model's candidates; the fall-back branch is taken only when the model has none).  A differing call is
    judged by the specification-side decider: a returned variable whose type is not declaratively assignable to the
    expected type is a failing input of the property, otherwise only the correspondence is broken."""
    extra = [list(p) for p in export.extra_assignable_table()]
    rqs, owner = [], []
    for i, (sp, pl) in enumerate(plugin_outputs):
        if not pl or "error" in pl:
            continue
        run.cov["gen_variable_calls_total"] = run.cov.get("gen_variable_calls_total", 0) + pl.get("genvar_n", 0)
        for g in pl.get("genvar", []):
            rqs.append({"op": "check.genvar", "tt": pl["genvar_tt"], "extra": extra, "vars": g["vars"],
                        "etype": g["etype"], "sub": g["sub"], "jl": g["jl"], "out": g["out"]})
            owner.append((sp, pl, g))
    if not rqs:
        return
    ans = run_driver_sharded(rqs)
    reported = 0
    for (sp, pl, g), a in zip(owner, ans):
        if "error" in a:
            raise common.HarnessError("driver error on gen_variable call: %s" % a["error"][:300])
        branch = "fallback" if g["out"] is None else "variable"
        run.tally("gen_variable_calls", "%s:%s%s:%s" % (branch, "subtype" if g["sub"] else "exact",
                                                         ":java-lambda" if g["jl"] else "",
                                                         "refines" if a["r"]["ok"] else "DIFFERS"))
        if a["r"]["ok"] or reported >= 3:
            continue
        reported += 1
        rp = {"replay": replay_key(sp), "call": {k: g[k] for k in ("etype", "sub", "jl", "out")},
              "vars": g["vars"], "model_candidates": a["r"]["cands"], "tt": pl["genvar_tt"],
              "correspondence": "gen_variable vs genVariableCandidates"}
        judged = None
        if g["out"] is not None:
            v = [x for x in g["vars"] if x["name"] == g["out"]]
            if v:
                base = add_bt({"lang": sp["lang"], "tt": pl["genvar_tt"], "decls": []})
                j = common.run_driver([dict(base, op="check.subd", s=v[0]["t"], t=g["etype"])])[0]
                judged = j.get("r")
        if judged is False:
            run.violation(dict(rp, kind="failing-input", what="gen_variable returned variable %r whose type is not "
                               "assignable to the expected type (specification-side decider)" % g["out"]),
                          signature="gen_variable:returned-variable-not-assignable")
        else:
            run.violation(dict(rp, kind="broken-correspondence", judged_assignable=judged),
                          signature="gen_variable:model-differs", no_input=True)


# ---------------------------------------------------------------------------------------------
# decision points of the generator recorded by c01_plugin ("gp"): one driver request per program and kind
def _gp_batches(plugin_outputs, kind, op, extra=None):
    rqs, owner = [], []
    for sp, pl in plugin_outputs:
        if not pl or "error" in pl:
            continue
        calls = pl.get("gp", {}).get(kind, [])
        if calls:
            rq = {"op": op, "tt": pl["gp_tt"], "calls": calls}
            if extra is not None:
                rq["extra"] = extra
            rqs.append(rq)
            owner.append((sp, pl, calls))
    ans = run_driver_sharded(rqs, shards=12) if rqs else []
    for (sp, pl, calls), a in zip(owner, ans):
        if "error" in a:
            raise common.HarnessError("driver error on %s of %s: %s" % (op, replay_key(sp), a["error"][:300]))
        if len(a["r"]) != len(calls):
            raise common.HarnessError("%s: %d answers for %d calls" % (op, len(a["r"]), len(calls)))
        for c, r in zip(calls, a["r"]):
            yield sp, pl, c, r


def _subd(sp, tt, s, t):
    """the specification-side decider on two entries of a recorded type table"""
    base = add_bt({"lang": sp["lang"], "tt": tt, "decls": []})
    return common.run_driver([dict(base, op="check.subd", s=s, t=t)])[0].get("r")


# model-vs-code comparisons of decision points that are known NOT to be exact on the unchanged tree
# (`gen_new`: with two random instantiations of a blacklisted generic class the recorded outcome is not the
# model's plan, replay kotlin/140893; found by the first fresh-copy run after the model was added)
NONBINDING = {"gen_new:model-differs"}


class _Reporter:
    """at most `cap` reports per signature and check run"""

    def __init__(self, run, cap=2):
        self.run, self.cap, self.n = run, cap, {}

    def __call__(self, obj, signature, no_input):
        self.n[signature] = self.n.get(signature, 0) + 1
        if signature in NONBINDING:
            # a correspondence that is not exact on the unchanged tree (the model is behind the code for some
            # inputs, see DESIGN 0.2): differences are counted and sampled in the evidence, the programs
            # concerned are still judged by the verified checker `check.wt`
            self.run.tally("nonbinding_model_differences", signature)
            smp = self.run.cov.setdefault("nonbinding_model_difference_samples", {}).setdefault(signature, [])
            if len(smp) < 2:
                smp.append({k: obj.get(k) for k in ("replay", "call", "model", "correspondence")})
            return
        if self.n[signature] <= self.cap:
            self.run.violation(obj, signature=signature, no_input=no_input)


def check_genpoints(run, plugin_outputs):
    """recorded calls of the generator's decision points against the models of lean/Heph/Model/Gen*.lean"""
    extra = [list(p) for p in export.extra_assignable_table()]
    report = _Reporter(run)
    for sp, pl in plugin_outputs:
        if pl and "error" not in pl:
            for k, n in pl.get("gp_n", {}).items():
                run.cov.setdefault("decision_point_calls_total", {})
                run.cov["decision_point_calls_total"][k] = run.cov["decision_point_calls_total"].get(k, 0) + n
    # 1a. `_is_sigtype_compatible`: exact comparison of the answer
    for sp, pl, c, r in _gp_batches(plugin_outputs, "sig", "check.sigcompat", extra):
        same = r == c["out"]
        run.tally("is_sigtype_compatible_calls", "%s:%s:%s:%s" % (
            "signature" if c["sig"] else ("subtype" if c["sub"] else "exact"), c["mode"], c["out"],
            "agree" if same else "DIFFER"))
        run.cov["traces_validated_against_impl"] += 1
        if not same:
            rp = {"replay": replay_key(sp), "call": c, "model": r, "tt": pl["gp_tt"],
                  "correspondence": "_is_sigtype_compatible vs sigtypeCompatible"}
            report(dict(rp, kind="broken-correspondence"), "is_sigtype_compatible:model-differs", True)
    # 1b. `_gen_func_call_ref`: the call refines the candidate list
    for sp, pl, c, r in _gp_batches(plugin_outputs, "fcr", "check.funcallref", extra):
        run.tally("gen_func_call_ref_calls", "%s:%s%s:%s" % (
            r["stage"] if c["out"] is not None else "none:" + r["stage"], "subtype" if c["sub"] else "exact",
            ":java-lambda" if c["jl"] else "", "refines" if r["ok"] else "DIFFERS"))
        run.cov["traces_validated_against_impl"] += 1
        if not r["ok"]:
            rp = {"replay": replay_key(sp), "call": c, "model": r, "tt": pl["gp_tt"],
                  "correspondence": "_gen_func_call_ref vs funcCallRefCandidates"}
            judged = None
            if c["out"] is not None and c["out"]["norecv"]:
                v = [x for x in c["vars"] if x["name"] == c["out"]["name"]]
                e = pl["gp_tt"][v[0]["t"]] if v else None
                if e is not None and e["k"] == "p" and e["args"]:
                    judged = _subd(sp, pl["gp_tt"], e["args"][-1], c["etype"])
            if judged is False:
                report(dict(rp, kind="failing-input", what="_gen_func_call_ref calls a variable whose return type is "
                            "not assignable to the expected type (specification-side decider)"),
                       "gen_func_call_ref:return-type-not-assignable", False)
            else:
                report(dict(rp, kind="broken-correspondence", judged_assignable=judged),
                       "gen_func_call_ref:model-differs", True)
    # 1c. `_gen_func_ref`: the reference is to one of the matching declarations, at the expected signature
    for sp, pl, c, r in _gp_batches(plugin_outputs, "fref", "check.funcref"):
        run.tally("gen_func_ref_calls", "%s:%s:%s" % (
            "from-scope" if r["cands"] else "receiver-created", "refines" if r["ok"] else "DIFFERS",
            "declarations-compatible" if r["compat"] else "DECLARATION-NOT-COMPATIBLE"))
        run.cov["traces_validated_against_impl"] += 1
        if not (r["ok"] and r["compat"]):
            rp = {"replay": replay_key(sp), "call": c, "model": r, "tt": pl["gp_tt"],
                  "correspondence": "_gen_func_ref vs funcRefCandidates / sigtypeCompatible"}
            report(dict(rp, kind="broken-correspondence"), "gen_func_ref:model-differs", True)
    check_gennew(run, plugin_outputs, report)
    check_matching(run, plugin_outputs, report, extra)
    check_signatures(run, plugin_outputs, report)


def check_gennew(run, plugin_outputs, report):
    """2. `_get_subclass` (the class drawn is one of the model's candidates) and `gen_new` (given the class and the
    random instantiations, the kind of node returned, its type and the expected types handed to `generate_expr`
    for the constructor arguments are the model's plan)"""
    for sp, pl, c, r in _gp_batches(plugin_outputs, "subclass", "check.subclass"):
        e = pl["gp_tt"][c["etype"]]
        run.tally("get_subclass_calls", "%s:%s:%s:%s" % (
            "none" if c["out"] is None else ("own-class" if c["out"] == c["ename"] else "other-class"),
            e["k"], "subtype" if c["sub"] else "exact", "refines" if r["ok"] else "DIFFERS"))
        run.cov["traces_validated_against_impl"] += 1
        if not r["ok"]:
            rp = {"replay": replay_key(sp), "call": c, "model": r, "tt": pl["gp_tt"],
                  "correspondence": "_get_subclass vs subclassCandidates"}
            judged = None
            if c["out"] is not None:
                cl = [x for x in c["classes"] if x["name"] == c["out"]]
                if cl and not cl[0]["parameterized"]:
                    judged = _subd(sp, pl["gp_tt"], cl[0]["t"], c["etype"])
            if judged is False:
                report(dict(rp, kind="failing-input", what="_get_subclass returned a class whose type is not "
                            "assignable to the expected type (specification-side decider)"),
                       "get_subclass:class-not-assignable", False)
            else:
                report(dict(rp, kind="broken-correspondence", judged_assignable=judged),
                       "get_subclass:model-differs", True)
    for sp, pl, c, r in _gp_batches(plugin_outputs, "new", "check.gennew"):
        kind = c["out"]["kind"]
        if not c["reached_subclass"] and r["plan"] != "funcRefOrLambda":
            # the SAM-coercion branch (random) returned before `_get_subclass`: not a branch of the plan
            run.tally("gen_new_calls", "sam-coercion:%s:%s" % (kind, "flag-set" if c["sam"] else "FLAG-NOT-SET"))
            if not c["sam"]:
                report({"kind": "broken-correspondence", "replay": replay_key(sp), "call": c, "model": r,
                        "tt": pl["gp_tt"], "correspondence": "gen_new vs genNewPlan (branch before _get_subclass)"},
                       "gen_new:model-differs", True)
            continue
        generic = bool(c["cls"] and c["cls"]["tparams"])
        run.tally("gen_new_calls", "%s:%s%s%s:%s" % (r["plan"], kind, ":generic-class" if generic else "",
                                                      ":%d-random-instantiations" % len(c["insts"]) if c["insts"] else "",
                                                      "agree" if r["ok"] else "DIFFER"))
        run.cov["traces_validated_against_impl"] += 1
        if not r["ok"]:
            report({"kind": "broken-correspondence", "replay": replay_key(sp), "call": c, "model": r,
                    "tt": pl["gp_tt"], "correspondence": "gen_new vs genNewPlan"}, "gen_new:model-differs", True)


def check_matching(run, plugin_outputs, report, extra):
    """3. the matching family: `_get_matching_class_decls` exactly (given the unifier maps), the draw of
    `_get_matching_class` among them, the first fitting attribute of `_gen_matching_class`, and for every
    (attribute, maps) RETURNED by `_get_matching_objects`, `_get_matching_function_declarations`,
    `_get_matching_class` the condition the callers rely on (`matchedOK` = the model of the code's own
    `_is_sigtype_compatible`, under the maps as returned, after the random instantiations)"""
    for sp, pl, c, r in _gp_batches(plugin_outputs, "mcd", "check.classdecls", extra):
        run.tally("get_matching_class_decls_calls", "%s:%s:%s:%s" % (
            c["attr_name"], "signature" if c["sig"] else ("subtype" if c["sub"] else "exact"),
            "some" if c["out"] else "empty", "agree" if r["ok"] else "DIFFER"))
        run.cov["traces_validated_against_impl"] += 1
        if not r["ok"]:
            report({"kind": "broken-correspondence", "replay": replay_key(sp), "call": c, "model": r,
                    "tt": pl["gp_tt"], "correspondence": "_get_matching_class_decls vs matchingClassDecls"},
                   "get_matching_class_decls:model-differs", True)
    for sp, pl in plugin_outputs:
        if not pl or "error" in pl:
            continue
        for c in pl.get("gp", {}).get("mcls", []):
            ok = (c["out"] is None and not c["cands"]) or (c["out"] is not None and c["out"] in c["cands"])
            run.tally("get_matching_class_calls", "%s:%s:%s" % (
                c["attr_name"], "none" if c["out"] is None else "drawn", "refines" if ok else "DIFFERS"))
            if not ok:
                report({"kind": "broken-correspondence", "replay": replay_key(sp), "call": c,
                        "correspondence": "_get_matching_class draws from _get_matching_class_decls"},
                       "get_matching_class:model-differs", True)
    for sp, pl, c, r in _gp_batches(plugin_outputs, "gmc", "check.firstcompat"):
        run.tally("gen_matching_class_calls", "%s:%s:%s" % (
            c["attr_name"], "signature" if c["sig"] else "type", "agree" if r["ok"] else "DIFFER"))
        run.cov["traces_validated_against_impl"] += 1
        if not r["ok"]:
            report({"kind": "broken-correspondence", "replay": replay_key(sp), "call": c, "model": r,
                    "tt": pl["gp_tt"], "correspondence": "_gen_matching_class vs firstCompatible"},
                   "gen_matching_class:model-differs", True)
    for sp, pl, c, r in _gp_batches(plugin_outputs, "post", "check.sigcompat", extra):
        run.tally("returned_attribute_fits", "%s:%s:%s" % (
            c["src"], "signature" if c["sig"] else ("subtype" if c["sub"] else "exact"),
            "fits" if r is True else "not-under-substitute_type(%s)" % r))
        run.cov["traces_validated_against_impl"] += 1
        if r is not True:
            # `_get_matching_class` instantiates the receiver class at random, with use-site variance: the returned
            # map may bind a type parameter to a projection (`out Byte`), and then the attribute's type under
            # `substitute_type` is a projection, which `_is_sigtype_compatible` does not accept although READING the
            # attribute through the receiver yields the projection's upper bound.  Such a triple is judged by the
            # verified checker's read rule (`readType`, rule 2 of the calibration) and the specification-side decider.
            binds_projection = any(pl["gp_tt"][v]["k"] == "w" for k, v in c["m"])
            fits = None
            if binds_projection and not c["sig"] and c["mode"] == "whole":
                base = add_bt({"lang": sp["lang"], "tt": pl["gp_tt"], "decls": []})
                a = common.run_driver([dict(base, op="check.readfits",
                                            calls=[{"attr": c["attr"], "etype": c["etype"], "m": c["m"]}])])[0]
                if "error" in a:
                    raise common.HarnessError("driver error on check.readfits: %s" % a["error"][:300])
                fits = a["r"][0]
            run.tally("returned_attribute_fits", "%s:through-projection-read:%s" % (
                c["src"], {True: "fits", False: "DOES-NOT-FIT", None: "not-applicable"}[fits]))
            if fits is True:
                continue
            rp = {"replay": replay_key(sp), "call": c, "model": r, "tt": pl["gp_tt"], "read_rule": fits,
                  "what": "%s returned an attribute whose type under the returned maps neither passes "
                          "_is_sigtype_compatible nor, read through a projection, is assignable to the expected "
                          "type" % c["src"]}
            report(dict(rp, kind="failing-input"), "matching:returned-attribute-does-not-fit:" + c["src"], False)


def check_signatures(run, plugin_outputs, report):
    """4. `_gen_func_from_existing`: the parameter and return types handed to `gen_func_decl` for an overriding
    function are the model's `overrideSig` of the overridden signature, the superclass map and the (random) renaming
    of the function's type parameters; `_gen_func_call`: the expected types of the arguments are the callee's
    parameter types under the final `params_map` (`callArgsExpected`)"""
    for sp, pl, c, r in _gp_batches(plugin_outputs, "ovr", "check.overridesig"):
        run.tally("gen_func_from_existing_calls", "%s%s:%s%s" % (
            "generic-function" if c["generic"] else "plain", ":superclass-map" if c["m"] else "",
            "agree" if r["ok"] else "DIFFER", "" if r["arity"] else ":ARITY"))
        run.cov["traces_validated_against_impl"] += 1
        if not r["ok"]:
            report({"kind": "broken-correspondence", "replay": replay_key(sp), "call": c, "model": r,
                    "tt": pl["gp_tt"], "correspondence": "_gen_func_from_existing vs overrideSig"},
                   "gen_func_from_existing:model-differs", True)
    for sp, pl in plugin_outputs:
        if not pl or "error" in pl:
            continue
        for c in pl.get("gp", {}).get("call", []):
            nv = [p for p in c["params"] if p["vararg"]]
            # the random number of vararg arguments, recovered from the number of recorded expected types
            c["counts"] = [len(c["args"]) - (len(c["params"]) - 1)] if len(nv) == 1 else []
            if len(nv) > 1 or (c["counts"] and not 0 <= c["counts"][0] <= 3):
                c["counts"] = [0] * len(nv)
    for sp, pl, c, r in _gp_batches(plugin_outputs, "call", "check.callargs"):
        run.tally("gen_func_call_argument_types", "%s%s%s:%s" % (
            "callee-created" if c["created"] else "callee-in-scope", ":vararg" if c["counts"] else "",
            ":map" if c["m"] else "", "agree" if r["ok"] else "DIFFER"))
        run.cov["traces_validated_against_impl"] += 1
        if not r["ok"]:
            report({"kind": "broken-correspondence", "replay": replay_key(sp), "call": c, "model": r,
                    "tt": pl["gp_tt"], "correspondence": "_gen_func_call argument types vs callArgsExpected"},
                   "gen_func_call:model-differs", True)


def check_folds(run, plugin_outputs):
    """recorded folds of `gen_conditional` against the model `condType`; returns {program index: number of folds
    whose result is not an upper bound of both branch types}"""
    rqs, owner = [], []
    for i, (sp, pl) in enumerate(plugin_outputs):
        if not pl:
            continue
        if "error" in pl:
            raise common.HarnessError("c01_plugin failed on %s: %s" % (replay_key(sp), pl["error"]))
        for f in pl.get("folds", []):
            rq = {"op": "check.condtype", "tt": pl["tt"], "tmp": f["tmp"], "t": f["t"], "f": f["f"],
                  "expect": f["out"]}
            if "final" in f:
                rq["etype"], rq["final"] = f["etype"], f["final"]
            rqs.append(rq)
            owner.append((i, sp, f))
    notupper = {}
    if not rqs:
        return notupper
    ans = run_driver_sharded(rqs)
    for (i, sp, f), a in zip(owner, ans):
        if "error" in a:
            raise common.HarnessError("driver error on fold: %s" % a["error"][:300])
        run.tally("gen_conditional_folds", "agree" if a["r"]["same"] is True else "differ")
        run.tally("gen_conditional_fold_upper", "upper-bound" if a["r"]["upper"] else "not-upper-bound")
        if "final_is" in a["r"]:
            # the type recorded in the Conditional follows the fold (tree as is) or the repaired fold
            # (fixes/C01-cond-recorded-type.diff); "both" when the fold result was an upper bound
            run.tally("gen_conditional_recorded_type", a["r"]["final_is"])
            if a["r"]["final_is"] == "neither":
                run.violation({"kind": "broken-correspondence", "replay": replay_key(sp), "fold": f, "model": a["r"],
                               "correspondence": "type recorded by gen_conditional vs condType / condTypeFixed"},
                              signature="condType:recorded-type-follows-neither-model", no_input=a["r"]["final_upper"])
            bad = not a["r"]["final_upper"]
        else:
            bad = not a["r"]["upper"]
        if bad:
            notupper[i] = notupper.get(i, 0) + 1
        if a["r"]["same"] is not True:
            run.violation({"kind": "broken-correspondence", "correspondence": "gen_conditional fold vs condType",
                           "replay": replay_key(sp), "fold": f, "model": a["r"]},
                          signature="condType:model-differs", no_input=True)
    return notupper


def fold_witness(run):
    """replay of the witness of `condType_counterexample` on the REAL `Generator.gen_conditional`: expected type
    Number, draws true_type = Float, false_type = Long, tmp_t = Long (Kotlin built-ins).  The three
    `random.choice` draws are forced, the sub-expressions are bottom constants of the asked type.  The recorded type
    is judged by the declarative decider (check.subd): it must be assignable-from both branch types."""
    pipeline.setup()
    import src.generators.generator as G
    from src.ir import kotlin_types as kt, ast
    from src.ir.context import Context
    pipeline.configure("kotlin", (0, 0, 0, 0), 6)
    gen = G.Generator(language="kotlin", options={}, logger=None)
    gen.context = Context()
    draws = [kt.Float, kt.Long, kt.Long]          # true_type, false_type, tmp_t in the order of the code
    seen = []

    class _R:
        def __getattr__(self, k):
            return getattr(orig, k)

        def choice(self, xs):
            xs = list(xs)
            t = draws[len(seen)]
            if t not in xs:
                raise common.HarnessError("fold witness: %s is not among the subtypes offered by find_subtypes" % t)
            seen.append(t)
            return t
    orig = G.ut.random
    gen.generate_expr = lambda t, *a, **k: ast.BottomConstant(t)
    G.ut.random = _R()
    try:
        node = gen.gen_conditional(kt.Number, only_leaves=True, subtype=True)
    finally:
        G.ut.random = orig
    if len(seen) != 3:
        raise common.HarnessError("fold witness: gen_conditional drew %d types, expected 3" % len(seen))
    rec = node.get_type()
    tt = export.TypeTable()
    base = {"lang": "kotlin", "tt": None, "decls": []}
    i_rec, i_t, i_f, i_n = tt.add(rec), tt.add(kt.Float), tt.add(kt.Long), tt.add(kt.Number)
    base["tt"] = tt.entries
    rq = add_bt(base)
    rqs = [dict(rq, op="check.subd", s=i_t, t=i_rec), dict(rq, op="check.subd", s=i_f, t=i_rec),
           {"op": "check.condtype", "tt": rq["tt"], "tmp": i_f, "t": i_t, "f": i_f, "expect": i_rec}]
    ans = common.run_driver(rqs)
    for a in ans:
        if "error" in a:
            raise common.HarnessError("driver error on fold witness: %s" % a["error"][:300])
    upper = ans[0]["r"] is True and ans[1]["r"] is True
    variant = "as-is (fold result recorded)" if ans[2]["r"]["same"] is True else (
        "repaired (expected type recorded)" if rec == kt.Number else "other")
    run.tally("fold_witness", "%s: recorded %s, %s" % (variant, rec, "upper bound" if upper else "NOT an upper bound"))
    run.cov["fold_witness"] = {"expected": "Number", "true_type": "Float", "false_type": "Long", "tmp_t": "Long",
                               "recorded": str(rec), "upper_bound_of_branches": upper, "variant": variant}
    run.count({"fold_witness": str(rec)}, nontrivial=True)
    if not upper:
        run.violation({"kind": "failing-input", "what": "gen_conditional(Number) with forced draws true=Float, "
                       "false=Long, tmp=Long records %s, which does not bound the Float branch" % rec,
                       "replay": {"witness": "fold", "lang": "kotlin"}, "theorem": "condType_counterexample"},
                      signature=FINDING7_SIG)
    elif variant == "other":
        run.violation({"kind": "broken-correspondence", "what": "gen_conditional recorded %s for the fold witness: "
                       "neither the fold result nor the expected type" % rec,
                       "replay": {"witness": "fold", "lang": "kotlin"}}, signature="condType:witness-other")


def audit_extra(run, prop):
    """axiom audit of a second theorem file of this property (Props/C01Gen.lean lives in the world of C07's
    specification, which cannot be imported together with C06's): same rule as common.Run.build_and_audit"""
    names, res, missing, out = common.audit(prop)
    good = 0
    for n in names:
        ax = res.get(n.split(".")[-1])
        if ax is None:
            run.broken.append({"obligation": "audit %s.%s" % (prop, n), "detail": "no #print axioms output"})
        elif set(ax) - common.ALLOWED_AXIOMS:
            run.broken.append({"obligation": "audit %s.%s" % (prop, n), "detail": "axioms " + ",".join(ax)})
        else:
            good += 1
    if not names:
        run.broken.append({"obligation": "audit " + prop, "detail": "no theorem found"})
    run.cov["obligations"] += len(names)
    run.cov["discharged"] += good
    run.cov.setdefault("theorems", {}).update({"%s.%s" % (prop, n): res.get(n.split(".")[-1]) for n in names})
    run.cov["checker_cmd"] += " && lake build Heph.Props.%s && lake env lean Audit/%s.lean" % (prop, prop)
    run.log("%s: theorems %d/%d audited" % (prop, good, len(names)))
    return good == len(names) and bool(names)


def check(run):
    proofs_ok = run.build_and_audit(extra_targets=["Heph.Props.C01Gen"])
    if run.cov.get("lake_build_ok"):
        proofs_ok = audit_extra(run, "C01Gen") and proofs_ok
    quick = run.tier == "quick"
    base = run.rng.randrange(0, 10 ** 6) if run.seed else 0
    specs = []
    if quick:
        for lang in pipeline.LANGS:
            for sw in QUICK_SWITCHES:
                for s in range(12):
                    specs.append(spec_of(lang, base + s, sw, 6, 60, plugins=["c01_plugin"]))
    else:
        # 4 languages x 16 switch settings x N seeds, max_depth cycling over 3, 6, 8.  N = 24 (1 536 programs, about
        # 3 CPU hours: the generator deep-copies class declarations, 7 CPU seconds per program on average) keeps the
        # tier under 30 minutes on an idle 16-core machine; C01_THOROUGH_SEEDS overrides N.
        depths = (3, 6, 8)
        nseeds = int(os.environ.get("C01_THOROUGH_SEEDS", "24"))
        run.cov["thorough_seeds_per_setting"] = nseeds
        for lang in pipeline.LANGS:
            for sw in pipeline.all_switch_settings():
                for s in range(nseeds):
                    specs.append(spec_of(lang, base + s, sw, depths[s % 3], 90, plugins=["c01_plugin"]))
    run.cov["rule"] = ("one case = one program returned by the real Generator for (language, switch setting, seed, "
                       "max_depth), exported by value and judged by the verified checker (check.wt); non-trivial = more "
                       "than 50 AST nodes; distinct by replay tuple; plus ill-typed mutants of accepted programs "
                       "(negative controls), the recorded folds of gen_conditional against the models condType / "
                       "condTypeFixed, the recorded calls of gen_variable against genVariableCandidates and the recorded "
                       "calls of ten further decision points (check_genpoints) against the models of Model/Gen*.lean")
    # corpus first
    cdir = os.path.join(common.VERIF, "corpus")
    corpus = []
    if os.path.isdir(cdir):
        for fn in sorted(os.listdir(cdir)):
            if fn.startswith("C01_") and fn.endswith(".json"):
                rp = json.load(open(os.path.join(cdir, fn)))["replay"]
                corpus.append(spec_of(rp["lang"], rp["seed"], rp["switches"], rp["max_depth"], 120,
                                      plugins=["c01_plugin"]))
    fold_witness(run)
    if corpus:
        check_programs(run, corpus, "corpus")
    n = check_programs(run, specs, "generated", mutate_every=4 if quick else 40)
    run.cov["programs_sent_to_checker"] = n
    if n == 0:
        raise common.HarnessError("no program could be generated")
    if not proofs_ok and not run.violations:
        run.violation({"kind": "broken-proof", "obligations": run.broken}, signature="proof", no_input=True)


def replay(run, rp):
    r = rp["replay"]
    if r.get("witness") == "fold":
        run.cov["rule"] = "replay of the fold witness on the real gen_conditional"
        fold_witness(run)
        return
    run.cov["rule"] = "replay of one generated program (lang, seed, switches, max_depth) through the verified checker"
    check_programs(run, [spec_of(r["lang"], r["seed"], r["switches"], r["max_depth"], 600, plugins=["c01_plugin"])],
                   "replay")
