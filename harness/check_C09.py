"""C09 — subtype search and irrelevant-type search return only what they promise.

proof side : lean/Heph/Props/C09.lean (findTypes / findTypesNominal / availTypes / irrelevantNominal /
             candidateArgs / irrelevantParam of Model/Find.lean against SubT / Asg; result checkers subtypesOK /
             irrelevantOK judged by the declarative decider isSubD, sound for Asg; candidateArgs_sound,
             irrelevantParam_neq)
tie to code: every invocation of `_find_types`, `find_irrelevant_type`, `_find_candidate_type_args` and
             `get_irrelevant_parameterized_type` (nested ones included) is recorded by pass-through wrappers
             (find_lib.Instrument);
             EXACT: the set before `to_type` == model `findTypes` given the recorded related
             instantiation; `available_types` == model `availTypes` given the two recorded lists; the nested
             `_find_types` calls of `_find_candidate_type_args` (which type, which DIRECTION) == model
             `candidateCalls` and its candidate list == model `candidateArgs` of the recorded answers; the answer
             of `get_irrelevant_parameterized_type` == model `irrelevantParam` of the recorded replacements;
             REFINEMENT (the property itself, judged on the implementation's answers): every list
             returned by a top-level search passes `subtypesOK`, every answer of
             `find_irrelevant_type` passes `irrelevantOK` (Lean checkers, decider isSubD), and
             independently the Python reference decider refsub agrees with each rejection; below the top level:
             the whole candidate SET of a position must be contained in the query's argument when the nested
             searches kept their promise (reference decider; no sampling of `random.choice` needed), an
             irrelevant instantiation must not carry the relevant arguments.
streams    : witnesses of the recorded findings; STRUCTURED strata over a hand-made table (chain New > Foo > Bar >
             Baz, one constructor per declared variance, Fn<in A, out R>, Pair, the built-in Function1; Kotlin and
             Java, thorough: all four languages): every declared variance x every use-site form (none/out/in/star)
             x both directions x include_self/concrete_only, arguments with proper sub- and supertypes in the
             table; instantiations nested 2-3 deep under invariant / covariant / contravariant parameters for
             find_subtypes / find_supertypes / find_irrelevant_type over the minimal type list of the query, that
             list + 1, and the full table; direct calls of `_find_candidate_type_args` (3 variances x 4 forms x 2
             directions x ignore_variance) and `get_irrelevant_parameterized_type`; several seeds of
             `src.utils.random` per query; RANDOM completed class tables (projections made to agree with the
             declared variance; each parameterized irrelevant query repeated over its minimal type list with
             further seeds); real generator + TypeOverwriting runs.  The evidence carries the input distribution
             (`dist_*`, `seeds_per_query`, `irrelevant_distinct_answers_per_query`, `generator_dist_*`).
history    : two seeded changes (seeded/C09-1: `get_irrelevant_parameterized_type` returns the relevant
             instantiation; seeded/C09-2: direction flipped twice for a contravariant parameter with an `in`
             projection) passed the check as of commit 46ea75f: the judges rejected both answers when shown, but
             the streams held 30 modelled `get_irrelevant_parameterized_type` invocations (none reproducing the old
             arguments) and 1 query with declaration-site `in` + use-site `in` (no proper subtype of the bound in
             the table), and the signature `in-to-bare` of a recorded finding would have swallowed the second.
"""
import common
from common import canon
import export
from export import kind
import gen_types
import find_lib as fl
import refsub

LEVEL = "proof"

SIG_SUB = "find_types:"
SIG_IRR = "find_irrelevant_type:"


eval_frames = fl.eval_frames


# ---- synthetic stream ------------------------------------------------------------------------------------
def type_list(tb, rng, with_vars=True):
    ts = list(tb.simple) + list(tb.cons)
    bs = tb.boxed_builtins()
    ts += rng.sample(bs, min(len(bs), rng.randint(2, 6)))
    if tb.any not in ts:
        ts.append(tb.any)
    if rng.random() < 0.3 and tb.builtin_cons:
        ts.append(tb.builtin_cons[0])
    if with_vars and rng.random() < 0.3:
        ts += [v for v in tb.scope_vars() if v.name.startswith("F_")][:1]
    rng.shuffle(ts)
    return ts


def wb_inst(tb, rng, con, depth, allow_wild, scope=()):
    """an instantiation of `con` whose arguments respect the declared bounds (a few tries)"""
    import src.ir.types as tp
    for _ in range(6):
        m, args = {}, []
        for p in con.type_parameters:
            if p.bound is None:
                a = tb.arg(depth, allow_wild, scope, p)
            else:
                try:
                    b = tp.substitute_type(p.bound, m)
                except Exception:
                    b = p.bound
                if kind(b) == "w":
                    b = b.bound if (b.bound is not None and b.is_covariant()) else None
                if b is None:
                    a = tb.arg(depth, allow_wild, scope, p)
                else:
                    cands = [c for c in tb.simple + tb.boxed_builtins() if c == b or refsub.sub(c, b)]
                    a = rng.choice(cands) if (cands and rng.random() < 0.5) else b
                    if allow_wild and rng.random() < 0.15 and kind(a) != "w" and not p.is_contravariant():
                        a = tp.WildCardType(a, tp.Covariant)
            if kind(a) == "w" and a.bound is not None and export.VAR(p.variance) not in (0, export.VAR(a.variance)):
                # a projection that contradicts the declared variance is outside the property's domain:
                # make it agree (declaration-site `in` + use-site `in` / `out` + `out` are the rare shapes)
                a = tp.WildCardType(a.bound, p.variance)
            m[p] = a
            args.append(a)
        try:
            t = con.new(args)
        except Exception:
            continue
        if fl.well_bounded(t):
            return t
    return tb.inst(con, depth, allow_wild, scope)


def query(tb, rng):
    r = rng.random()
    cls = tb.simple + tb.cons
    if r < 0.25 and cls:
        c = rng.choice(cls)
        if kind(c) == "c":
            c = wb_inst(tb, rng, c, 1, rng.random() < 0.5)
        return tb.supertype_of(c)                    # something that HAS subtypes in the table
    if r < 0.4 and tb.simple:
        return rng.choice(tb.simple)
    if r < 0.75 and (tb.cons or tb.builtin_cons):
        con = rng.choice(tb.cons or tb.builtin_cons)
        return wb_inst(tb, rng, con, 1, rng.random() < 0.5, tuple(tb.scope_vars()) if rng.random() < 0.25 else ())
    if r < 0.83:
        return rng.choice(tb.scope_vars())
    if r < 0.88:
        return tb.any
    return tb.ground(2, rng.random() < 0.5)


FOCUS_SEEDS = 3


def synthetic(run, ntables, per_table):
    from src import utils
    import src.ir.type_utils as tu
    rng = run.rng
    exc = {}
    allframes = []
    tot = None
    for ti in range(ntables):
        tb = gen_types.Table(rng, pbound=0.3)
        boxes = fl.boxes_of(tb.bt)
        frames = []
        with fl.Instrument(cap=20000) as ins:
            for _ in range(per_table):
                k = rng.random()
                types = type_list(tb, rng, with_vars=k < 0.65)
                q = query(tb, rng)
                utils.random.r.seed(rng.randrange(1 << 30))
                try:
                    if k < 0.4:
                        tu.find_subtypes(q, types, include_self=rng.random() < 0.5, concrete_only=rng.random() < 0.6)
                    elif k < 0.65:
                        b = None
                        if rng.random() < 0.4:
                            b = tb.supertype_of(q) if kind(q) in ("b", "s", "p") else None
                        tu.find_supertypes(q, types, include_self=rng.random() < 0.5, bound=b,
                                           concrete_only=rng.random() < 0.6)
                    else:
                        tu.find_irrelevant_type(q, types, tb.bt)
                        if kind(q) == "p":
                            # the same query over its minimal type list (+ one or two other types), further RNG
                            # seeds: only over a short list does the search pick the query's own constructor and
                            # re-draw the nested arguments often enough to be observed
                            mini = []
                            for c in _mentioned(q, []):
                                if kind(c) == "c":
                                    c = next((d for d in tb.cons + tb.builtin_cons if d == c), c)
                                mini.append(c)
                            others = [t for t in types if not any(t == m for m in mini)]
                            mini += rng.sample(others, min(len(others), rng.randint(0, 2)))
                            if not any(kind(t) in ("s", "b") for t in mini):
                                mini.append(rng.choice(tb.boxed_builtins()))    # something to instantiate with
                            for _s in range(FOCUS_SEEDS):
                                utils.random.r.seed(rng.randrange(1 << 30))
                                try:
                                    tu.find_irrelevant_type(q, list(mini), tb.bt)
                                except Exception as e:
                                    exc[type(e).__name__] = exc.get(type(e).__name__, 0) + 1
                except Exception as e:           # exceptions are recorded in the frames, counted, not judged
                    exc[type(e).__name__] = exc.get(type(e).__name__, 0) + 1
                for fr in ins.take():
                    fr["boxes"] = boxes
                    fr["where"] = {"table": ti, "lang": tb.lang}
                    frames.append(fr)
        allframes += frames
        if (ti + 1) % 40 == 0 or ti + 1 == ntables:
            st = eval_frames(run, allframes, "tables", origin={"stream": "tables"})
            tot = st if tot is None else {k2: tot[k2] + st[k2] for k2 in st}
            allframes = []
    run.cov["synthetic"] = dict(tot, tables=ntables, top_level_exceptions=exc)
    run.log("stream tables: %d tables, %d frames, %d requests, %d exact differ, %d answers rejected, %d returned types judged; exceptions %s"
            % (ntables, tot["frames"], tot["requests"], tot["exact_diffs"], tot["rejected"], tot["returned_types"], exc))
    return tot


# ---- structured strata -----------------------------------------------------------------------------------
def chain_table(lang):
    """a small hand-made class table: the chain New > Foo > Bar > Baz and an unrelated class (so that every
    argument `Bar` / projection bound `Bar` has proper subtypes AND proper supertypes in the table), one
    constructor per declared variance (for Java/Groovy all invariant: use-site variance only), a function-like
    constructor `Fn<in A, out R>`, an invariant `Pair<K, V>`, and the language's built-in Function1"""
    import src.ir.types as tp
    bt = gen_types.factory(lang)
    anyt = bt.get_any_type()
    decl = lang in ("kotlin", "scala")
    co, contra = (tp.Covariant, tp.Contravariant) if decl else (tp.Invariant, tp.Invariant)
    New = tp.SimpleClassifier("New", [anyt])
    Foo = tp.SimpleClassifier("Foo", [New])
    Bar = tp.SimpleClassifier("Bar", [Foo])
    Baz = tp.SimpleClassifier("Baz", [Bar])
    Unrel = tp.SimpleClassifier("Unrel", [anyt])
    Inv = tp.TypeConstructor("Inv", [tp.TypeParameter("T")], [anyt])
    Src = tp.TypeConstructor("Src", [tp.TypeParameter("T", co)], [anyt])
    Sink = tp.TypeConstructor("Sink", [tp.TypeParameter("T", contra)], [anyt])
    Fn = tp.TypeConstructor("Fn", [tp.TypeParameter("A", contra), tp.TypeParameter("R", co)], [anyt])
    Pair = tp.TypeConstructor("Pair", [tp.TypeParameter("K"), tp.TypeParameter("V")], [anyt])
    F1 = bt.get_function_type(1)
    return {"lang": lang, "bt": bt, "any": anyt, "decl": decl, "chain": [New, Foo, Bar, Baz], "Unrel": Unrel,
            "Inv": Inv, "Src": Src, "Sink": Sink, "Fn": Fn, "Pair": Pair, "F1": F1,
            "classes": [New, Foo, Bar, Baz, Unrel], "cons": [Inv, Src, Sink, Fn, Pair]}


def _proj(tp, x, use):
    if use == "bare":
        return x
    if use == "star":
        return tp.WildCardType()
    return tp.WildCardType(x, tp.Covariant if use == "out" else tp.Contravariant)


def _uses_for(p):
    """the use-site forms that are well-formed at a parameter of this declared variance"""
    v = export.VAR(p.variance)
    return ["bare", "out", "in", "star"] if v == 0 else ["bare", "out", "star"] if v == 1 else ["bare", "in", "star"]


def variance_matrix(T):
    """every declared variance x every use-site form, the argument / bound in the middle of the chain"""
    import src.ir.types as tp
    import itertools
    Bar = T["chain"][2]
    qs = []
    for con in (T["Inv"], T["Src"], T["Sink"]):
        for use in _uses_for(con.type_parameters[0]):
            qs.append(con.new([_proj(tp, Bar, use)]))
    for con in (T["Fn"], T["F1"], T["Pair"]):
        ps = con.type_parameters
        combos = list(itertools.product(*[[u for u in _uses_for(p) if u != "star"] for p in ps]))
        for uses in combos:
            qs.append(con.new([_proj(tp, Bar, u) for u in uses]))
        qs.append(con.new([tp.WildCardType(), Bar]))
    return qs


def nested_queries(T):
    """instantiations nested 2-3 deep under invariant / covariant / contravariant parameters, bare and projected"""
    import src.ir.types as tp
    New, Foo, Bar, Baz = T["chain"]
    Inv, Src, Sink, Fn, Pair = T["cons"]
    out = lambda x: tp.WildCardType(x, tp.Covariant)          # noqa: E731
    inn = lambda x: tp.WildCardType(x, tp.Contravariant)      # noqa: E731
    qs = [Inv.new([Inv.new([Foo])]), Inv.new([Src.new([Foo])]), Src.new([Inv.new([Foo])]),
          Sink.new([Inv.new([Foo])]), Src.new([Src.new([Bar])]), Sink.new([Sink.new([Bar])]),
          Pair.new([Inv.new([Bar]), Inv.new([Bar])]), Pair.new([Foo, Inv.new([Foo])]),
          Inv.new([Inv.new([Inv.new([Foo])])]), Src.new([Inv.new([Src.new([Bar])])]),
          Fn.new([Inv.new([Foo]), Inv.new([Foo])]), Fn.new([Bar, Src.new([Bar])]),
          Inv.new([out(Inv.new([Bar]))]), Inv.new([inn(Src.new([Bar]))]), Src.new([out(Src.new([out(Bar)]))]),
          Inv.new([Inv.new([out(Bar)])]), Inv.new([Sink.new([inn(Bar)])])]
    return qs


def _mentioned(t, acc):
    """the classes and constructors a type mentions (the minimal type list of a query)"""
    k = kind(t)
    if k == "p":
        if not any(c is t.t_constructor or c == t.t_constructor for c in acc):
            acc.append(t.t_constructor)
        for a in t.type_args:
            _mentioned(a, acc)
    elif k == "w":
        if t.bound is not None:
            _mentioned(t.bound, acc)
    elif k in ("s", "b"):
        if not any(c == t for c in acc):
            acc.append(t)
    return acc


def _table_constructor(T, c):
    """the table's own constructor object for the (copied) constructor of an instantiation"""
    for d in T["cons"] + [T["F1"]]:
        if d == c:
            return d
    return c


def structured(run, langs, find_seeds, irr_seeds):
    """the structured strata: (1) variance matrix x both directions x flags, several RNG seeds per query;
    (2) nested instantiations for find_subtypes / find_irrelevant_type, over the minimal type list of the query
    and over the full table, many RNG seeds per query; (3) direct calls of `_find_candidate_type_args`
    (every declared variance x use-site form x direction x ignore_variance) and of
    `get_irrelevant_parameterized_type` (relevant arguments given)"""
    from src import utils
    import src.ir.types as tp
    import src.ir.type_utils as tu
    rng = run.rng
    tot = None
    exc = {}
    nq = {"find": 0, "irrelevant": 0, "cand": 0, "irrparam": 0}
    for lang in langs:
        T = chain_table(lang)
        bt = T["bt"]
        boxes = fl.boxes_of(bt)
        full = T["classes"] + T["cons"] + [T["F1"]] + rng.sample(fl.boxes_of(bt), 2)
        frames = []
        distinct = {}

        def call(f, label):
            try:
                return f()
            except Exception as e:
                exc[type(e).__name__] = exc.get(type(e).__name__, 0) + 1

        with fl.Instrument(cap=100000) as ins:
            def flush(where):
                for fr in ins.take():
                    fr["boxes"] = boxes
                    fr["where"] = dict(where, lang=lang)
                    frames.append(fr)
            # (1) + (2a): the searches
            for qi, q in enumerate(variance_matrix(T) + nested_queries(T)):
                for si in range(find_seeds):
                    seed = rng.randrange(1 << 30)
                    types = list(full)
                    rng.shuffle(types)
                    for direction in ("sub", "super"):
                        utils.random.r.seed(seed)
                        nq["find"] += 1
                        if direction == "sub":
                            call(lambda: tu.find_subtypes(q, types, include_self=si % 2 == 0, concrete_only=si % 3 != 2),
                                 "find_subtypes")
                        else:
                            call(lambda: tu.find_supertypes(q, types, include_self=si % 2 == 0, concrete_only=si % 3 != 2),
                                 "find_supertypes")
                        flush({"stratum": "matrix/nested", "query": export.short(q), "rng_seed": seed})
            run.tally("seeds_per_query", "find:%d" % find_seeds)
            # (2b): the irrelevant-type search, minimal and full type lists
            flat = [T["Inv"].new([T["chain"][2]]), T["Src"].new([T["chain"][2]]), T["Sink"].new([T["chain"][2]]),
                    T["chain"][2], T["Pair"].new([T["chain"][1], T["chain"][2]]), T["F1"].new([T["chain"][2], T["chain"][1]])]
            for q in nested_queries(T) + flat:
                mini = [_table_constructor(T, c) if kind(c) == "c" else c for c in _mentioned(q, [])]
                for types, n, tag in ((mini, irr_seeds, "minimal"), (mini + [T["Unrel"]], irr_seeds // 2, "minimal+1"),
                                      (full, irr_seeds // 2, "full")):
                    seen = set()
                    for si in range(n):
                        seed = rng.randrange(1 << 30)
                        utils.random.r.seed(seed)
                        nq["irrelevant"] += 1
                        r = call(lambda: tu.find_irrelevant_type(q, list(types), bt), "find_irrelevant_type")
                        seen.add(export.short(r))
                        flush({"stratum": "irrelevant/" + tag, "query": export.short(q), "rng_seed": seed})
                    run.tally("irrelevant_distinct_answers_per_query", "%d" % len(seen))
            run.tally("seeds_per_query", "irrelevant:%d/%d/%d" % (irr_seeds, irr_seeds // 2, irr_seeds // 2))
            # (3a) direct: _find_candidate_type_args, every declared variance x use-site form x direction x ignore
            Bar = T["chain"][2]
            for v in (tp.Invariant, tp.Covariant, tp.Contravariant):
                p = tp.TypeParameter("P", v)
                for use in ("bare", "out", "in", "star"):
                    for inner in (Bar, T["Inv"].new([Bar]), T["Src"].new([Bar])):
                        if use == "star" and inner is not Bar:
                            continue
                        base = _proj(tp, inner, use)
                        for gs in (True, False):
                            for ign in (False, True):
                                utils.random.r.seed(rng.randrange(1 << 30))
                                nq["cand"] += 1
                                call(lambda: tu._find_candidate_type_args(p, base, list(full), gs, {}, ign), "cand")
                                flush({"stratum": "direct-cand", "query": "%s / %s" % (export.short(p), export.short(base))})
            # (3b) direct: get_irrelevant_parameterized_type with the relevant arguments given
            for con, args in ((T["Inv"], [T["Inv"].new([Bar])]), (T["Inv"], [Bar]), (T["Src"], [Bar]), (T["Sink"], [Bar]),
                              (T["Pair"], [T["Inv"].new([Bar]), T["Inv"].new([Bar])]), (T["Pair"], [Bar, T["Inv"].new([Bar])]),
                              (T["Fn"], [Bar, T["Inv"].new([Bar])]), (T["Src"], [T["Src"].new([Bar])])):
                mini = [_table_constructor(T, c) if kind(c) == "c" else c for c in _mentioned(con.new(args), [])]
                for si in range(irr_seeds):
                    utils.random.r.seed(rng.randrange(1 << 30))
                    nq["irrparam"] += 1
                    call(lambda: tu.get_irrelevant_parameterized_type(con, list(mini), {con.name: list(args)}, bt), "irrparam")
                    flush({"stratum": "direct-irrparam", "query": "%s<%s>" % (con.name, ", ".join(export.short(a) for a in args))})
        st = eval_frames(run, frames, "structured", origin={"stream": "structured"})
        tot = st if tot is None else {k2: tot[k2] + st[k2] for k2 in st}
    run.cov["structured"] = dict(tot, languages=list(langs), queries=nq, top_level_exceptions=exc)
    run.log("stream structured (%s): %s calls, %d frames, %d requests, %d exact differ, %d answers rejected, %d returned types "
            "judged; exceptions %s" % (",".join(langs), nq, tot["frames"], tot["requests"], tot["exact_diffs"], tot["rejected"],
                                        tot["returned_types"], exc))
    return tot


# ---- witnesses of the recorded findings (also proved rejected in Props/C09.lean) ------------------------------------
def witness_tables():
    """(name, function, factory, query, types, predicate on the answer): the recorded findings, by hand"""
    import src.ir.types as tp
    import src.ir.kotlin_types as kt
    import src.ir.java_types as jt
    bt = kt.KotlinBuiltinFactory()
    jbt = jt.JavaBuiltinFactory()
    Foo = tp.SimpleClassifier("Foo", [kt.Any])
    Baz = tp.SimpleClassifier("Baz", [kt.Any])
    Bar = tp.TypeConstructor("Bar", [tp.TypeParameter("T")], [Foo])
    Prod = tp.TypeConstructor("Prod", [tp.TypeParameter("T", tp.Covariant)], [kt.Any])
    Lone = tp.SimpleClassifier("Lone", [])
    W = tp.TypeParameter("W")
    Box = tp.TypeConstructor("Box", [tp.TypeParameter("T")], [kt.Any])
    Hold = tp.TypeConstructor("Hold", [W], [Box.new([W])])
    T2 = tp.TypeParameter("T")
    Qux = tp.TypeConstructor("Qux", [T2, tp.TypeParameter("W", bound=T2)], [kt.Any])
    Node = tp.TypeConstructor("Node", [tp.TypeParameter("Y")], [kt.Any])
    Wrap = tp.SimpleClassifier("Wrap", [kt.Any])
    Leaf = tp.SimpleClassifier("Leaf", [Node.new([Wrap]), kt.Any])
    NodeIn = tp.TypeConstructor("NodeIn", [tp.TypeParameter("V", tp.Contravariant)], [kt.Any])
    X3 = tp.TypeParameter("X")
    TreeC = tp.TypeConstructor("TreeC", [X3], [NodeIn.new([X3])])
    return [
        ("generic_subclass", "irrelevant", bt, Foo, [Foo, Bar, Baz, kt.String],
         lambda r: kind(r) == "p" and r.name == "Bar"),
        ("same_constructor", "irrelevant", bt, Prod.new([kt.Any]), [Foo, Baz, Prod, kt.String],
         lambda r: kind(r) == "p" and r.name == "Prod"),
        ("top_type", "irrelevant", bt, Lone, [Lone, Baz, kt.Any, kt.String], lambda r: r == kt.Any),
        ("primitive_box", "irrelevant", jbt, jt.FloatType(primitive=True), [jt.Number, jt.String, jt.Float],
         lambda r: r == jt.Number),
        ("generic_subclass_parameterized", "irrelevant", bt, Box.new([kt.String]), [Box, Hold, kt.String, Baz],
         lambda r: kind(r) == "p" and r.name == "Hold" and r.type_args[0] == kt.String),
        ("param_bounded_param", "subtypes", bt, Qux.new([Node.new([tp.WildCardType(Wrap, tp.Covariant)]), Leaf]),
         [Qux, Node, Wrap, Leaf, kt.String],
         lambda rs: any(kind(r) == "p" and r.name == "Qux" and r.type_args[0] == Leaf for r in rs)),
        ("projected_query", "irrelevant", bt, Box.new([tp.WildCardType()]), [Box, Foo, Baz, kt.String],
         lambda r: kind(r) == "p" and r.name == "Box"),
        ("projected_query_contravariant", "irrelevant", bt,
         tp.TypeConstructor("Sink", [tp.TypeParameter("T", tp.Contravariant)], [kt.Any]).new([Box.new([tp.WildCardType()])]),
         [tp.TypeConstructor("Sink", [tp.TypeParameter("T", tp.Contravariant)], [kt.Any]), Box, Foo, Baz],
         lambda r: kind(r) == "p" and r.name == "Sink" and kind(r.type_args[0]) == "p" and r.type_args[0].name == "Box"
         and kind(r.type_args[0].type_args[0]) != "w"),
        ("generic_subclass_contravariant", "irrelevant", bt, TreeC.new([NodeIn.new([Foo])]), [TreeC, NodeIn, Foo, kt.String],
         lambda r: kind(r) == "p" and r.name == "NodeIn" and kind(r.type_args[0]) == "p" and r.type_args[0].name == "TreeC"),
        ("type_variable_bound_chain", "irrelevant", bt, tp.TypeParameter("Z", bound=tp.TypeParameter("V", bound=kt.Double)),
         [kt.Double, kt.String, Foo], lambda r: r == kt.Double),
        ("nested_contravariant_projection", "subtypes", bt,
         Box.new([tp.WildCardType(Box.new([tp.WildCardType(Foo, tp.Contravariant)]), tp.Contravariant)]),
         [Box, Foo, Baz, kt.String],
         lambda rs: any(kind(r) == "p" and r.name == "Box" and kind(r.type_args[0]) == "p"
                        and r.type_args[0].type_args[0] == Foo for r in rs)),
    ]


def run_witness(tu, w, seed):
    from src import utils
    name, func, bt, q, types, pred = w
    utils.random.r.seed(seed)
    try:
        if func == "irrelevant":
            r = tu.find_irrelevant_type(q, types, bt)
            return r is not None and pred(r)
        return pred(tu.find_subtypes(q, types, include_self=True, concrete_only=True))
    except IndexError:          # nothing to instantiate a constructor with (short type list): no answer
        return False


def detect_variant():
    """which find_irrelevant_type does the tree implement?  Replays the witnesses of the repaired defects."""
    import src.ir.type_utils as tu
    seen = {}
    for w in witness_tables()[:4]:
        seen[w[0]] = sum(1 for i in range(60) if run_witness(tu, w, i))
    if all(seen.values()):
        return "asIs", seen
    if not any(seen.values()):
        return "repaired", seen
    return "mixed:" + ",".join(k for k, v in seen.items() if v), seen


def witnesses(run):
    import src.ir.type_utils as tu
    for w in witness_tables():
        name, func, bt, q, types, pred = w
        frames = []
        hit = 0
        with fl.Instrument() as ins:
            for i in range(60):
                if run_witness(tu, w, i):
                    hit += 1
                for fr in ins.take():
                    if fr["depth"] == 0 and fr["kind"] == ("irrelevant" if func == "irrelevant" else "find"):
                        fr["boxes"] = fl.boxes_of(bt)
                        fr["where"] = {"witness": name}
                        frames.append(fr)
        run.tally("witness_" + name, "present" if hit else "absent")
        run.log("witness %s: the answer of the recorded shape appeared in %d of 60 draws" % (name, hit))
        eval_frames(run, frames, "witness " + name, origin={"stream": "witness"})


# ---- generator stream --------------------------------------------------------------------------------------------
def generator_stream(run, nprog):
    import pipeline
    specs = []
    for i in range(nprog):
        lang = pipeline.LANGS[i % 4]
        specs.append({"lang": lang, "seed": run.seed * 100003 + i, "switches": (0, 0, 0, 0), "max_depth": 6,
                      "stages": ["gen", "overwrite"], "export": False, "cap": 60 if run.tier == "quick" else 150,
                      "plugins": ["plug_find"], "find_variant": fl.VARIANT["v"]})
    results = pipeline.run_many(specs, workers=12 if nprog <= 12 else None)
    cut = exc = 0
    n0 = len(run.violations)
    agg = {"frames": 0, "requests": 0, "exact_diffs": 0, "rejected": 0, "returned_types": 0, "calls_find": 0,
           "calls_irrelevant": 0}
    seen = set()
    first_diff = None
    for r in results:
        if "cutoff" in r:
            cut += 1
        if "exception" in r:
            exc += 1
        pl = r.get("plugins", {}).get("plug_find", {})
        if "error" in pl:
            raise common.HarnessError("plug_find: " + pl["error"])
        agg["calls_find"] += pl.get("calls", {}).get("find", 0)
        agg["calls_irrelevant"] += pl.get("calls", {}).get("irrelevant", 0)
        agg["frames"] += pl.get("frames", 0)
        for k, v in pl.get("tallies", {}).items():
            for k2, n in v.items():
                d = run.cov.setdefault("generator_" + k, {})
                d[k2] = d.get(k2, 0) + n
        agg["returned_types"] += pl.get("returned_types", 0)
        agg["requests"] += pl.get("requests", 0)
        agg["exact_diffs"] += pl.get("exact_diffs", 0)
        if pl.get("first_diff") and first_diff is None:
            first_diff = (pl["first_diff"], r["spec"])
        for v in pl.get("violations", []):
            agg["rejected"] += 1
            obj = dict(v["replay"], program={k: r["spec"][k] for k in ("lang", "seed", "switches", "max_depth")})
            run.violation(obj, signature=v["signature"])
        for c in pl.get("cases", []):
            k = canon(c)
            run.cov["evaluations"] += 1
            run.cov["traces_validated_against_impl"] += 1
            if k not in seen:
                seen.add(k)
    run.cov["generator"] = dict(agg, programs=nprog, cutoffs=cut, exceptions=exc, distinct_case_digests=len(seen))
    if first_diff is not None:
        d, spec = first_diff
        run.violation({"kind": "broken-correspondence", "correspondence": "%s vs Model/Find (generator)" % d["request"]["op"],
                       "request": d["request"], "implementation": d["implementation"], "model": d["model"],
                       "program": {k: spec[k] for k in ("lang", "seed", "switches", "max_depth")}},
                      signature=d["request"]["op"] + ":model-differs", no_input=len(run.violations) == n0)
    run.log("generator: %d programs (%d cut off, %d exceptions): %d _find_types calls, %d find_irrelevant_type calls, "
            "%d frames judged, %d requests, %d exact differ, %d answers rejected, %d returned types judged"
            % (nprog, cut, exc, agg["calls_find"], agg["calls_irrelevant"], agg["frames"], agg["requests"],
               agg["exact_diffs"], agg["rejected"], agg["returned_types"]))


def check(run):
    proofs_ok = run.build_and_audit()
    quick = run.tier == "quick"
    import pipeline
    pipeline.setup()
    run.cov["rule"] = ("every invocation (nested ones included) of _find_types, find_irrelevant_type, _find_candidate_type_args "
                       "and get_irrelevant_parameterized_type on (a) structured strata over a hand-made table: declared "
                       "variance x use-site form x direction x flags, nested instantiations over minimal / full type lists, "
                       "direct calls of the two helper functions, several RNG seeds per query; (b) queries over random "
                       "completed class tables (queries: supertypes of classes, classes, instantiations with/without "
                       "projections and type variables, type variables, the top type; type lists: the table's classes and "
                       "constructors, built-ins, sometimes Array and a type variable; find_subtypes / find_supertypes with "
                       "random include_self, bound, concrete_only; find_irrelevant_type) and during generator + "
                       "TypeOverwriting runs; exact: the set before to_type == model findTypes given the recorded related "
                       "instantiation, available_types == model availTypes, nested calls and candidate list of "
                       "_find_candidate_type_args == model candidateCalls / candidateArgs, get_irrelevant_parameterized_type "
                       "== model irrelevantParam of the recorded replacements; refinement: Lean checkers subtypesOK / "
                       "irrelevantOK (decider isSubD) on every returned list / answer; non-trivial = non-empty expected set "
                       "or non-empty answer")
    variant, seen = detect_variant()
    cur = common.run_driver([{"op": "find.current"}])[0].get("r")
    run.cov["tree_variant"] = variant
    run.cov["lean_current_variant"] = cur
    run.log("tree implements find_irrelevant_type variant %s (witness draws %s); Lean `Variant.current` = %s" % (variant, seen, cur))
    fl.VARIANT["v"] = variant if variant in ("asIs", "repaired") else "asIs"
    if cur != variant and variant == "asIs":
        run.violation({"kind": "broken-proof", "what": "Find.Variant.current = repaired but the tree implements the unchanged "
                       "find_irrelevant_type", "detail": seen}, signature="find.variant:lean-ahead-of-tree", no_input=True)
    elif cur != variant and variant == "repaired":
        run.assumptions.append("the tree implements the repaired find_irrelevant_type; switch Heph.Find.Variant.current to "
                               ".repaired")
    witnesses(run)
    structured(run, ("kotlin", "java") if quick else ("kotlin", "java", "scala", "groovy"), 4 if quick else 12,
               12 if quick else 40)
    synthetic(run, 22 if quick else 320, 40 if quick else 60)
    generator_stream(run, 12 if quick else 96)
    if not proofs_ok and not run.violations:
        run.violation({"kind": "broken-proof", "obligations": run.broken}, signature="proof", no_input=True)


def replay(run, rp):
    rq = rp["request"]
    ans = common.run_driver([rq])[0]
    run.count({"request": rq, "model": ans})
    run.cov["rule"] = "replay of one request (model side; the request carries the exported types and the implementation's answer)"
    run.log("model answer:", canon(ans)[:400])
    r = ans.get("r")
    if rq["op"] in ("find.check", "find.irrelevant"):
        if not (isinstance(r, dict) and r.get("ok")):
            run.violation(rp, signature=rp.get("signature"))
    elif r != rp.get("implementation"):
        run.violation(rp, signature=rp.get("signature"), no_input=rp.get("kind") != "failing-input")
