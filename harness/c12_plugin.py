"""pipeline plugin of C12: the translator OBJECT across the stages, and more overwritten sites.

hephaestus.gen_program creates ONE translator per process and translates with it the generated program, the program
after TypeErasure and the program after TypeOverwriting (both transformations mutate the program — and type objects
the program shares — in place).  check_C12's own translations use a fresh translator per text; this plugin, inside
the worker, at every stage:

 (R)  translates the live program with one translator object per language kept across gen -> erase -> overwrite
      (`st["c12_reused"][L]` = the text if it differs from the fresh translator's text, else None); the harness
      judges these texts with S1-S3 exactly like the fresh ones;
 (X)  after the last stage runs spec["c12_rounds"][stage] EXTRA TypeOverwriting rounds for stage in erase, gen, each on
      a pickle copy of the program of that stage (gen: overwriting without erasure, hephaestus `-t 0`; erase: the
      default order), plus up to "more" further rounds while a site kind the program offers (read off the export:
      declared variable type, return type, explicit constructor type argument) was not chosen yet, all within
      "budget_s" seconds; each round as gen_program would: translator objects translate the copy, TypeOverwriting mutates it (its own
      random choice of the site: nothing is steered, the round only has its own random seed), the SAME objects
      translate it again; every text is judged in the worker by c12_scan.judge_pure against the export of the
      mutated copy (on a difference a fresh translator's text is judged as well, to tell the translator's history
      from the program).  The pipeline's random state is restored afterwards (the main overwrite stage is the one a
      run without this plugin performs).
Reported per round: the overwritten site (kind, name, old -> new type text), whether reused and fresh texts differ,
declarations compared per language, differences (leg, signature, first differing declaration)."""
import pickle

import pipeline
import export_ast
import c12_scan as cs
from trans_models import LANGS


def install(state, spec):
    state["tr"] = {}
    state["spec"] = spec
    r = spec.get("c12_rounds") or {}
    state["rounds"] = {"gen": int(r.get("gen", 0)), "erase": int(r.get("erase", 0))}
    state["more"] = int(r.get("more", 0))          # further rounds while an available site kind was not hit yet
    state["budget"] = float(r.get("budget_s", 20))
    state["only_round"] = spec.get("c12_only_round")
    state["extra"] = []
    state["blobs"] = {}
    state["prev_export"] = None


def available_kinds(e):
    """site kinds TypeOverwriting can choose in this program, read off the export: a declared variable / return
    type (declarations exist), a constructor type argument (a `new` of a parameterized type whose type arguments
    are explicit)"""
    kinds = set()

    def W(n):
        if isinstance(n, list):
            for x in n:
                W(x)
        elif isinstance(n, dict):
            k = n.get("n")
            if k == "var":
                kinds.add("var_type")
            elif k == "func" and n.get("body") is not None:
                kinds.add("ret_type")
            elif k == "new" and not n["canInfer"] and e["tt"][n["t"]]["k"] == "p":
                kinds.add("new_type_argument")
            for v in n.values():
                if isinstance(v, (dict, list)):
                    W(v)
    W(e["decls"])
    return kinds


def stage(state, name, program, st):
    from src import utils
    spec = state["spec"]
    langs = list(spec.get("translate") or LANGS)
    reused = {}
    for L in langs:
        tr = state["tr"].get(L)
        if tr is None:
            tr = state["tr"][L] = pipeline.new_translator(L, spec.get("package", "src.pkg"))
        try:
            t = utils.translate_program(tr, program)
        except Exception as ex:  # noqa: BLE001
            reused[L] = {"error": type(ex).__name__ + ": " + str(ex)[:200]}
            continue
        reused[L] = None if t == (st.get("texts") or {}).get(L) else t
    st["c12_reused"] = reused
    e = st.get("export")
    if e is not None and state["prev_export"] is not None and name == "overwrite":
        st["c12_site"] = cs.changed_sites(state["prev_export"], e)[:3]
    state["prev_export"] = e
    if name in ("gen", "erase") and (state["rounds"].get(name) or state["more"]) and e is not None:
        try:
            state["blobs"][name] = (pickle.dumps(program), available_kinds(e))
        except Exception as ex:  # noqa: BLE001
            state["extra"].append({"round": [name, -1], "error": "pickle: " + type(ex).__name__})
    last = (spec.get("stages") or ["gen"])[-1]
    if name == last:
        import time
        deadline = time.time() + state["budget"]
        for base in ("erase", "gen"):
            if base in state["blobs"]:
                extra_rounds(state, base, langs, deadline)


def extra_rounds(state, base, langs, deadline):
    import time
    from src import utils
    from src.transformations.type_overwriting import TypeOverwriting
    spec = state["spec"]
    blob, avail = state["blobs"][base]
    hit = set()
    saved = utils.random.r.getstate()
    try:
        k = -1
        while True:
            k += 1
            if k >= state["rounds"][base] + (state["more"] if avail - hit else 0):
                break
            if state["only_round"] is not None and [base, k] != list(state["only_round"]):
                continue
            if time.time() > deadline:
                state["extra"].append({"round": [base, k], "skipped": "round budget"})
                break
            rec = {"round": [base, k], "t0": time.time()}
            state["extra"].append(rec)
            try:
                cp = pickle.loads(blob)
                trs = {L: pipeline.new_translator(L, spec.get("package", "src.pkg")) for L in langs}
                for L in langs:
                    utils.translate_program(trs[L], cp)
                e1 = export_ast.export_program(cp)
                utils.random.r.seed((spec["seed"] * 1000003 + 7919 * (k + 1) + (0 if base == "erase" else 104729)) & 0x7fffffff)
                to = TypeOverwriting(cp, spec["lang"], None, dict(spec.get("overwrite_options", {})))
                to.transform()
                p2 = to.result()
                rec["is_transformed"] = bool(to.is_transformed)
                if not to.is_transformed:
                    continue
                e2 = export_ast.export_program(p2)
                rec["site"] = cs.changed_sites(e1, e2)[:3]
                hit.update(x[0] for x in rec["site"])
                rec["error_injected"] = str(to.error_injected)[:200]
                rec["langs"] = {}
                for L in langs:
                    # the text gen_program would write: same translator object before and after the mutation
                    t_re = utils.translate_program(trs[L], p2)
                    j = cs.judge_pure(L, t_re, e2)
                    lr = {"n": j["n"], "diffs": []}
                    for leg, sig, d in j["diffs"]:
                        lr["diffs"].append({"mode": "reused", "leg": leg, "signature": sig, "first_difference": d})
                    if j["diffs"]:
                        # is it the translator's history or the program?  judge a fresh translator's text too
                        t_fr = utils.translate_program(pipeline.new_translator(L, spec.get("package", "src.pkg")), p2)
                        lr["reused_differs"] = t_re != t_fr
                        if t_re != t_fr:
                            for leg, sig, d in cs.judge_pure(L, t_fr, e2)["diffs"]:
                                lr["diffs"].append({"mode": "fresh", "leg": leg, "signature": sig, "first_difference": d})
                    rec["langs"][L] = lr
            except pipeline.Cutoff:
                raise
            except Exception as ex:  # noqa: BLE001
                rec["error"] = type(ex).__name__ + ": " + str(ex)[:200]
            finally:
                rec["seconds"] = round(time.time() - rec.pop("t0"), 3)
    finally:
        utils.random.r.setstate(saved)


def collect(state):
    return {"extra": state["extra"]}
