"""C12: the specification-side oracle and the text scanners (independent of the Lean model and of
the translators: only the export of the IR and the emitted text are read).

 * `inventory(export)`     the declarations / annotations the program carries, in Kotlin print order, from the
                           export alone: [tag, name, attrs] with tag in class tparam field super func param
                           retannot var varannot targs new; attrs = the modifiers the target languages express.
 * `literals(export)`      the literals and operators of the program, in print order.
 * `tokenize(text)`        identifiers, numbers, string / char literals, punctuation (with positions).
 * `balance(tokens)`       () [] {} properly nested outside string / char literals -> None | error dict.
 * `scan(lang, text)`      regex/token level recount of the declarations in the REAL text: list of
                           [tag, name, attrs] in text order; which tags a language's scanner recognises is
                           `SCANNED[lang]` (evidence: `scanned_tags`).
"""
import re

# ------------------------------------------------------------------ IR side
def inventory(e):
    out = []

    def tps(ixs):
        for i in ixs:
            t = e["tt"][i]
            out.append(["tparam", tname(e, i), {}])

    def L(xs, **kw):
        for x in xs:
            N(x, **kw)

    def N(n, lam=False):
        if n is None:
            return
        k = n["n"]
        if k == "block":
            L(n["body"])
        elif k == "super":
            out.append(["super", None, {}])
            if n["args"] is not None:
                L(n["args"])
        elif k == "class":
            out.append(["class", n["name"], {"ctype": n["ctype"], "final": n["isFinal"]}])
            tps(n["tparams"]); L(n["fields"]); L(n["supers"]); L(n["funcs"])
        elif k == "var":
            out.append(["var", n["name"], {"final": n["isFinal"]}])
            if n["varType"] is not None:
                out.append(["varannot", n["name"], {}])
            N(n["expr"])
        elif k == "arg":
            N(n["expr"])
        elif k == "field":
            out.append(["field", n["name"], {"final": n["isFinal"], "open": n["canOverride"], "override": n["override"]}])
        elif k == "param":
            out.append(["param", n["name"], {"vararg": n["vararg"], "lambda": lam}])
            N(n["default"])
        elif k == "func":
            out.append(["func", n["name"], {"final": n["isFinal"], "override": n["override"],
                                            "abstract": n["body"] is None, "ftype": n["ftype"]}])
            tps(n["tparams"]); L(n["params"])
            if n["retType"] is not None:
                out.append(["retannot", n["name"], {}])
            N(n["body"])
        elif k == "lambda":
            L(n["params"], lam=True); N(n["body"])
        elif k == "funcref":
            N(n["receiver"])
        elif k == "array":
            if n["len"] != 0:
                L(n["exprs"])
        elif k == "binop":
            N(n["l"]); N(n["r"])
        elif k == "cond":
            N(n["c"]); N(n["t"]); N(n["f"])
        elif k == "is":
            N(n["e"])
        elif k == "new":
            out.append(["new", None, {"explicit": not n["canInfer"]}])
            L(n["args"])
        elif k == "fieldaccess":
            N(n["e"])
        elif k == "call":
            N(n["receiver"])
            if not n["canInfer"] and n["targs"]:
                out.append(["targs", n["func"], {}])
            L(n["args"])
        elif k == "assign":
            N(n["receiver"]); N(n["expr"])
        elif k in ("bottom", "int", "real", "bool", "char", "string", "variable"):
            pass
        else:
            raise ValueError("unknown node " + k)
    L(e["decls"])
    return out


def tname(e, i):
    t = e["tt"][i]
    if isinstance(t, dict):
        return t.get("name") or t.get("nm") or str(t)
    if isinstance(t, list):
        for x in t:
            if isinstance(x, str) and not x.startswith("<class"):
                return x
    return str(t)


def literals(e, skip_defaults=False):
    """[kind, text] of every literal and operator in print order (kind: int real bool char string op);
    `skip_defaults`: without the default values of parameters (Java has no default arguments: its
    translator drops them)"""
    out = []

    def N(n):
        if n is None:
            return
        if skip_defaults and isinstance(n, dict) and n.get("n") == "param":
            return
        if isinstance(n, list):
            for x in n:
                N(x)
            return
        k = n["n"]
        if k in ("int", "real", "bool", "char", "string"):
            out.append([k, n["lit"]])
        elif k == "binop":
            N(n["l"]); out.append(["op", n["op"]]); N(n["r"])
        elif k == "is":
            N(n["e"]); out.append(["op", "!is" if n["isNot"] else "is"])
        elif k == "array":
            if n["len"] != 0:
                N(n["exprs"])
        elif k == "call":
            N(n["receiver"]); N(n["args"])
        elif k == "assign":
            N(n["receiver"]); N(n["expr"])
        elif k == "class":
            N(n["fields"]); N(n["supers"]); N(n["funcs"])
        elif k == "func":
            N(n["params"]); N(n["body"])
        elif k == "lambda":
            N(n["params"]); N(n["body"])
        else:
            for key in ("body", "args", "expr", "default", "receiver", "e", "c", "t", "f"):
                v = n.get(key)
                if isinstance(v, (dict, list)):
                    N(v)
    N(e["decls"])
    return out


# ------------------------------------------------------------------ tokens
TOK = re.compile(r"""
    (?P<str>"(?:[^"\\\n]|\\.)*")
  | (?P<chr>'(?:[^'\\\n]|\\.)')
  | (?P<num>\d+(?:\.\d+)?[fFL]?)
  | (?P<id>`[^`\n]*`|[A-Za-z_$][A-Za-z_0-9$]*)
  | (?P<op>->|=>|::|===|!==|==|!=|&&|\|\||[(){}\[\]<>,:;=.?+\-*/!@%&|^~\\#])
  | (?P<nl>\n)
  | (?P<ws>[ \t\r]+)
  | (?P<bad>.)
""", re.X | re.S)


def tokenize(text):
    """list of (kind, text, pos, spaced_before); whitespace dropped, newlines kept as ('nl', …)"""
    out = []
    spaced = True
    for m in TOK.finditer(text):
        k = m.lastgroup
        if k == "ws":
            spaced = True
            continue
        out.append((k, m.group(), m.start(), spaced))
        spaced = (k == "nl")
    return out


PAIRS = {")": "(", "]": "[", "}": "{"}


def balance(toks):
    st = []
    for k, s, pos, _ in toks:
        if k == "bad":
            return {"error": "unexpected character", "pos": pos, "char": s}
        if k != "op":
            continue
        if s in "([{":
            st.append((s, pos))
        elif s in PAIRS:
            if not st or st[-1][0] != PAIRS[s]:
                return {"error": "unmatched " + s, "pos": pos}
            st.pop()
    if st:
        return {"error": "unclosed " + st[-1][0], "pos": st[-1][1]}
    return None


def text_literals(toks):
    """string and char literal contents in text order"""
    return [["string", s[1:-1]] for k, s, _, _ in toks if k == "str"], [["char", s[1:-1]] for k, s, _, _ in toks if k == "chr"]


# ------------------------------------------------------------------ scanners
SCANNED = {
    "kotlin": ["class", "tparam", "field", "func", "param", "retannot", "var", "varannot", "targs"],
    "scala": ["class", "tparam", "field", "func", "param", "retannot", "var", "varannot"],
    "java": ["class", "field"],
    "groovy": ["class", "field"],
}
LAMBDA_PARAMS = {"kotlin": True, "scala": False}


class _S:
    def __init__(self, text):
        self.toks = [t for t in tokenize(text) if t[0] != "nl" or True]
        self.ev = []          # (pos, [tag, name, attrs])

    def t(self, i):
        return self.toks[i] if 0 <= i < len(self.toks) else ("eof", "", -1, True)

    def nx(self, i):
        """index of the next non-newline token after i"""
        i += 1
        while self.t(i)[0] == "nl":
            i += 1
        return i

    def close(self, i, op, cl):
        """index of the token closing the bracket opened at i (angle brackets: only unspaced `<`)"""
        d = 0
        j = i
        while j < len(self.toks):
            k, s, _, sp = self.toks[j]
            if k == "op":
                if s == op:
                    d += 1
                elif s == cl:
                    d -= 1
                    if d == 0:
                        return j
            j += 1
        return -1

    def top_items(self, i, j, angle=("<", ">")):
        """token index ranges of the comma-separated items between brackets at i and j (top level only)"""
        items, start, d = [], i + 1, 0
        for k in range(i + 1, j):
            kind, s, _, sp = self.toks[k]
            if kind != "op":
                continue
            if s in "([{" or (s == angle[0] and not sp):
                d += 1
            elif s in ")]}" or (s == angle[1] and d > 0 and not sp):
                d -= 1
            elif s == "," and d == 0:
                items.append((start, k))
                start = k + 1
        if start < j:
            items.append((start, j))
        return items

    def add(self, pos, tag, name, **attrs):
        self.ev.append((pos, [tag, name.strip("`") if name else name, attrs]))

    def events(self):
        return [e for _, e in sorted(self.ev, key=lambda x: x[0])]


def _mods_before(S, i, allowed):
    mods = []
    j = i - 1
    while S.t(j)[0] == "id" and S.t(j)[1] in allowed:
        mods.append(S.t(j)[1])
        j -= 1
    return mods


def scan_kotlin(text):
    S = _S(text)
    T = S.toks
    classes = set()
    skip_until = -1
    for i, (k, s, pos, sp) in enumerate(T):
        if k == "id" and s in ("class", "interface") and i > skip_until:
            mods = _mods_before(S, i, ("open", "abstract", "fun"))
            j = S.nx(i)
            name = S.t(j)[1]
            classes.add(name)
            kind = "interface" if s == "interface" else ("abstract" if "abstract" in mods else "class")
            S.add(pos, "class", name, kind=kind, open="open" in mods, fun="fun" in mods)
            j = S.nx(j)
            if S.t(j)[1] == "<" and not S.t(j)[3]:
                c = S.close(j, "<", ">")
                for a, b in S.top_items(j, c):
                    ids = [x for x in range(a, b) if T[x][0] == "id"]
                    names = [T[x] for x in ids if T[x][1] not in ("in", "out")]
                    if names:
                        S.add(names[0][2], "tparam", names[0][1])
                j = S.nx(c)
            if S.t(j)[1] == "(" and not S.t(j)[3]:
                c = S.close(j, "(", ")")
                for a, b in S.top_items(j, c):
                    ws = [T[x][1] for x in range(a, b) if T[x][0] == "id"]
                    m = []
                    while ws and ws[0] in ("open", "override"):
                        m.append(ws.pop(0))
                    if len(ws) >= 2 and ws[0] in ("val", "var"):
                        S.add(T[a][2], "field", ws[1], final=ws[0] == "val", open="open" in m, override="override" in m)
                    else:
                        S.add(T[a][2], "field?", " ".join(ws[:3]))
                skip_until = c
    for i, (k, s, pos, sp) in enumerate(T):
        if k == "id" and s == "fun" and S.t(S.nx(i))[1] not in ("interface",):
            j = S.nx(i)
            if S.t(j)[1] == "(":
                fname, anon = None, True
            else:
                anon = False
                if S.t(j)[1] == "<":
                    c = S.close(j, "<", ">")
                    for a, b in S.top_items(j, c):
                        names = [T[x] for x in range(a, b) if T[x][0] == "id" and T[x][1] not in ("in", "out")]
                        if names:
                            S.add(names[0][2], "tparam", names[0][1])
                    j = S.nx(c)
                fname = S.t(j)[1]
                mods = _mods_before(S, i, ("open", "override", "abstract"))
                S.add(pos, "func", fname, open="open" in mods, override="override" in mods, abstract="abstract" in mods)
                j = S.nx(j)
            if S.t(j)[1] != "(":
                S.add(pos, "func?", fname or "")
                continue
            c = S.close(j, "(", ")")
            for a, b in S.top_items(j, c):
                ws = [T[x] for x in range(a, b) if T[x][0] == "id"]
                va = bool(ws) and ws[0][1] == "vararg"
                if va:
                    ws = ws[1:]
                if ws:
                    S.add(ws[0][2], "param", ws[0][1], vararg=va, **{"lambda": anon})
            if not anon and S.t(c + 1)[1] == ":":
                S.add(S.t(c + 1)[2], "retannot", fname)
        elif k == "id" and s in ("val", "var") and i > -1:
            # class-header fields were recorded above: skip those positions
            j = S.nx(i)
            S.add(pos, "var", S.t(j)[1], final=s == "val")
            if S.t(j + 1)[1] == ":":
                S.add(S.t(j + 1)[2], "varannot", S.t(j)[1])
        elif k == "op" and s == "{" and S.t(i + 1)[0] != "nl":
            # a lambda `{a: A, b: B -> body}`: parameters up to the first top-level `->`
            d, j, arrow = 0, i + 1, -1
            while j < len(T):
                kk, ss, _, spp = T[j]
                if kk == "op":
                    if ss in "([{" or (ss == "<" and not spp):
                        d += 1
                    elif ss in ")]}" or (ss == ">" and d > 0 and not spp):
                        if d == 0:
                            break
                        d -= 1
                    elif ss == "->" and d == 0:
                        arrow = j
                        break
                j += 1
            if arrow > 0:
                for a, b in S.top_items(i, arrow):
                    ws = [T[x] for x in range(a, b) if T[x][0] == "id"]
                    if ws:
                        S.add(ws[0][2], "param", ws[0][1], vararg=False, **{"lambda": True})
        elif k == "op" and s == "<" and not sp and S.t(i - 1)[0] == "id":
            nm = S.t(i - 1)[1]
            c = S.close(i, "<", ">")
            if c > 0 and S.t(c + 1)[1] == "(" and nm[:1].islower() and nm not in ("arrayOf", "emptyArray") \
                    and S.t(i - 2)[1] != "fun":
                S.add(S.t(i - 1)[2], "targs", nm)
    # drop `var`s that are class-header fields
    fpos = {p for p, e in S.ev if e[0] == "field"}
    hdr = []
    ev = []
    for p, e in sorted(S.ev, key=lambda x: x[0]):
        ev.append((p, e))
    # a header field `open val x: T` is also seen by the val/var rule: remove the var (+ varannot) events
    # that lie inside a class header (between a field position and the header's end)
    return _drop_header_vars(S, ev)


def _drop_header_vars(S, ev):
    spans = []
    T = S.toks
    for i, (k, s, pos, sp) in enumerate(T):
        if k == "id" and s in ("class", "interface", "trait"):
            j = S.nx(S.nx(i))
            if S.t(j)[1] in ("<", "[") and not S.t(j)[3]:
                j = S.nx(S.close(j, S.t(j)[1], ">" if S.t(j)[1] == "<" else "]"))
            if S.t(j)[1] == "(" and not S.t(j)[3]:
                c = S.close(j, "(", ")")
                spans.append((S.t(j)[2], S.t(c)[2]))
    out = []
    for p, e in ev:
        if e[0] in ("var", "varannot") and any(a <= p <= b for a, b in spans):
            continue
        out.append(e)
    return out


def scan_scala(text):
    S = _S(text)
    T = S.toks
    for i, (k, s, pos, sp) in enumerate(T):
        if k == "id" and s in ("class", "trait"):
            mods = _mods_before(S, i, ("open", "abstract", "final", "sealed"))
            j = S.nx(i)
            name = S.t(j)[1]
            kind = "interface" if s == "trait" else ("abstract" if "abstract" in mods else "class")
            S.add(pos, "class", name, kind=kind, open="open" in mods)
            j = S.nx(j)
            if S.t(j)[1] == "[" and not S.t(j)[3]:
                c = S.close(j, "[", "]")
                for a, b in S.top_items(j, c, angle=("[", "]")):
                    names = [T[x] for x in range(a, b) if T[x][0] == "id"]
                    if names:
                        S.add(names[0][2], "tparam", names[0][1])
                j = S.nx(c)
            if S.t(j)[1] == "(" and not S.t(j)[3]:
                c = S.close(j, "(", ")")
                for a, b in S.top_items(j, c, angle=("[", "]")):
                    ws = [T[x][1] for x in range(a, b) if T[x][0] == "id"]
                    m = []
                    while ws and ws[0] in ("final", "override"):
                        m.append(ws.pop(0))
                    if len(ws) >= 2 and ws[0] in ("val", "var"):
                        S.add(T[a][2], "field", ws[1], final=ws[0] == "val", open="final" not in m,
                              override="override" in m)
                    else:
                        S.add(T[a][2], "field?", " ".join(ws[:3]))
        elif k == "id" and s == "def":
            mods = _mods_before(S, i, ("final", "override"))
            j = S.nx(i)
            fname = S.t(j)[1]
            S.add(pos, "func", fname, final="final" in mods, override="override" in mods)
            j = S.nx(j)
            if S.t(j)[1] == "[" and not S.t(j)[3]:
                c = S.close(j, "[", "]")
                for a, b in S.top_items(j, c, angle=("[", "]")):
                    names = [T[x] for x in range(a, b) if T[x][0] == "id"]
                    if names:
                        S.add(names[0][2], "tparam", names[0][1])
                j = S.nx(c)
            if S.t(j)[1] != "(":
                S.add(pos, "func?", fname)
                continue
            c = S.close(j, "(", ")")
            for a, b in S.top_items(j, c, angle=("[", "]")):
                ws = [T[x] for x in range(a, b) if T[x][0] == "id"]
                if ws:
                    S.add(ws[0][2], "param", ws[0][1], **{"lambda": False})
            if S.t(c + 1)[1] == ":":
                S.add(S.t(c + 1)[2], "retannot", fname)
        elif k == "id" and s in ("val", "var"):
            j = S.nx(i)
            S.add(pos, "var", S.t(j)[1], final=s == "val")
            if S.t(j + 1)[1] == ":":
                S.add(S.t(j + 1)[2], "varannot", S.t(j)[1])
    ev = sorted(S.ev, key=lambda x: x[0])
    return _drop_header_vars(S, ev)


SYNTH_CLASS = re.compile(r"^(Main|Function\d+)$")


def scan_javalike(text):
    """Java / Groovy: class declarations (kind, final, name) and the `public [final] T name` field lines"""
    S = _S(text)
    T = S.toks
    depth = 0
    cls_depth = []
    for i, (k, s, pos, sp) in enumerate(T):
        if k == "op" and s == "{":
            depth += 1
        elif k == "op" and s == "}":
            depth -= 1
            if cls_depth and depth < cls_depth[-1][0]:
                cls_depth.pop()
        elif k == "id" and s in ("class", "interface") and S.t(i - 1)[1] != ".":
            mods = _mods_before(S, i, ("final", "abstract", "public", "static"))
            name = S.t(S.nx(i))[1]
            kind = "interface" if s == "interface" else ("abstract" if "abstract" in mods else "class")
            S.add(pos, "class", name, kind=kind, final="final" in mods, synthetic=bool(SYNTH_CLASS.match(name)))
            cls_depth.append((depth + 1, name))
        elif k == "id" and s == "public" and cls_depth and depth == cls_depth[-1][0] \
                and not SYNTH_CLASS.match(cls_depth[-1][1]):
            # a member line: field iff it ends (`;` or newline) before any `(`
            j = i + 1
            fin = False
            seq = []
            while S.t(j)[0] not in ("nl", "eof") and S.t(j)[1] not in (";", "(", "="):
                seq.append(S.t(j))
                j += 1
            if S.t(j)[1] != "(":
                ids = [x for x in seq if x[0] == "id"]
                if ids:
                    S.add(pos, "field", ids[-1][1], final=any(x[1] == "final" for x in ids))
    return S.events()


def scan(lang, text):
    if lang == "kotlin":
        return scan_kotlin(text)
    if lang == "scala":
        return scan_scala(text)
    return scan_javalike(text)


# ------------------------------------------------------------------ expected events per language
def expected(lang, inv):
    """projection of the IR inventory to what `scan(lang, ·)` reports, with the modifiers of the language"""
    out = []
    for tag, name, a in inv:
        if tag not in SCANNED[lang]:
            continue
        if lang == "kotlin":
            if tag == "class":
                out.append([tag, name, {"kind": ("class", "interface", "abstract")[a["ctype"]],
                                        "open": (not a["final"]) and a["ctype"] != 1, "fun": False}])
            elif tag == "field":
                out.append([tag, name, {"final": a["final"], "open": a["open"], "override": a["override"]}])
            elif tag == "func":
                out.append([tag, name, {"open": not a["final"], "override": a["override"], "abstract": a["abstract"]}])
            elif tag == "param":
                out.append([tag, name, {"vararg": a["vararg"], "lambda": a["lambda"]}])
            elif tag == "var":
                out.append([tag, name, {"final": a["final"]}])
            else:
                out.append([tag, name, {}])
        elif lang == "scala":
            if tag == "class":
                out.append([tag, name, {"kind": ("class", "interface", "abstract")[a["ctype"]],
                                        "open": (not a["final"]) or a["ctype"] == 1}])
            elif tag == "field":
                out.append([tag, name, {"final": a["final"], "open": a["open"], "override": a["override"]}])
            elif tag == "func":
                out.append([tag, name, None])       # modifiers depend on the enclosing class: names only
            elif tag == "param":
                if a["lambda"]:
                    continue
                out.append([tag, name, {"lambda": False}])
            elif tag == "var":
                out.append([tag, name, {"final": a["final"]}])
            else:
                out.append([tag, name, {}])
        else:
            if tag == "class":
                out.append([tag, name, {"kind": ("class", "interface", "abstract")[a["ctype"]]}])
            elif tag == "field":
                out.append([tag, name, {"final": a["final"]}])
    return out


def compare(lang, exp, got):
    """first difference between expected and scanned events (None if equal).  Synthetic declarations the
    target language needs are skipped and counted: Kotlin `var y = {…}` / Scala `val _y = …` (lambda
    statement in a Unit function), Java/Groovy `Main` and `FunctionN`."""
    synth = 0
    ordered = lang in ("kotlin", "scala")
    if not ordered:
        g2 = []
        for e in got:
            if e[0] == "class" and e[2].get("synthetic"):
                synth += 1
                continue
            a = dict(e[2]); a.pop("synthetic", None)
            if e[0] == "class":
                a.pop("final", None)
            g2.append([e[0], e[1], a])
        key = lambda e: (e[0], e[1] or "", repr(sorted((e[2] or {}).items())))
        x, y = sorted(exp, key=key), sorted(g2, key=key)
        if x == y:
            return None, synth
        for k in range(max(len(x), len(y))):
            if k >= len(x) or k >= len(y) or x[k] != y[k]:
                return {"index": k, "expected": x[k] if k < len(x) else None, "scanned": y[k] if k < len(y) else None,
                        "n_expected": len(x), "n_scanned": len(y)}, synth
    i = j = 0
    while i < len(exp) or j < len(got):
        e = exp[i] if i < len(exp) else None
        g = got[j] if j < len(got) else None
        if g is not None and e is not None and g[0] == e[0] and g[1] == e[1] and (e[2] is None or g[2] == e[2]):
            i += 1; j += 1
            continue
        if g is not None and g[0] == "var" and ((lang == "kotlin" and g[1] == "y" and not g[2].get("final")) or
                                                (lang == "scala" and g[1] == "_y" and g[2].get("final"))):
            synth += 1
            j += 1
            continue
        return {"index": i, "expected": e, "scanned": g, "before": exp[max(0, i - 2):i],
                "n_expected": len(exp), "n_scanned": len(got)}, synth
    return None, synth
