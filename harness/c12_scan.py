"""C12: the specification-side oracle and the text scanners (independent of the Lean model and of
the translators: only the export of the IR and the emitted text are read).

 * `inventory(export)`     the declarations / annotations the program carries, in Kotlin print order, from the
                           export alone: [tag, name, attrs] with tag in class tparam field super func param
                           retannot var varannot targs new; attrs = the modifiers the target languages express.
 * `literals(export)`      the literals and operators of the program, in print order.
 * `tokenize(text)`        identifiers, numbers, string / char literals, punctuation (with positions).
 * `balance(tokens)`       () [] {} properly nested outside string / char literals -> None | error dict.
 * `scan(lang, text)`      regex/token level recount of the declarations in the REAL text: list of
                           [tag, name, attrs] in text order; which tags a language's scanner recognises is
                           `SCANNED[lang]` (evidence: `scanned_tags`).
"""
import re

# ------------------------------------------------------------------ IR side
def inventory(e, skip_defaults=False):
    """[tag, name, attrs] in Kotlin print order.  attrs carry, besides the modifiers, the indices (into e["tt"]) of
    the types the program carries at that declaration: var {t: declared, inf: inferred, global}, varannot {t},
    field {t}, param {t, vararg}, func {ret, inf, nested, nparams}, retannot {t}, tparam {bound}, super {t},
    new {t, explicit}, targs {ts}.  `skip_defaults`: without the default values of parameters (Java)."""
    out = []

    def tps(ixs):
        for i in ixs:
            t = e["tt"][i]
            out.append(["tparam", tname(e, i), {"bound": t.get("bound") if isinstance(t, dict) else None,
                                                 "var": t.get("var", 0) if isinstance(t, dict) else 0}])

    def L(xs, **kw):
        for x in xs:
            N(x, **kw)

    def N(n, lam=False, top=False, member=False, nf=False):
        if n is None:
            return
        k = n["n"]
        if k == "block":
            L(n["body"])
        elif k == "super":
            out.append(["super", None, {"t": n["t"]}])
            if n["args"] is not None:
                L(n["args"])
        elif k == "class":
            out.append(["class", n["name"], {"ctype": n["ctype"], "final": n["isFinal"]}])
            tps(n["tparams"]); L(n["fields"]); L(n["supers"]); L(n["funcs"], member=True)
        elif k == "var":
            out.append(["var", n["name"], {"final": n["isFinal"], "t": n["varType"], "inf": n.get("inferred"),
                                           "global": top}])
            if n["varType"] is not None:
                out.append(["varannot", n["name"], {"t": n["varType"]}])
            N(n["expr"])
        elif k == "arg":
            N(n["expr"])
        elif k == "field":
            out.append(["field", n["name"], {"final": n["isFinal"], "open": n["canOverride"], "override": n["override"],
                                             "t": n["t"]}])
        elif k == "param":
            out.append(["param", n["name"], {"vararg": n["vararg"], "lambda": lam, "t": n["t"],
                                             "default": n["default"] is not None, "nestedfunc": nf}])
            if not skip_defaults:
                N(n["default"])
        elif k == "func":
            out.append(["func", n["name"], {"final": n["isFinal"], "override": n["override"],
                                            "abstract": n["body"] is None, "ftype": n["ftype"],
                                            "ret": n["retType"], "inf": n.get("inferred"),
                                            "nested": not (top or member), "nparams": len(n["params"]),
                                            "ptypes": [[q["t"], q["vararg"]] for q in n["params"]],
                                            "block": bool(n["body"]) and n["body"]["n"] == "block"}])
            tps(n["tparams"]); L(n["params"], nf=not (top or member))
            if n["retType"] is not None:
                out.append(["retannot", n["name"], {"t": n["retType"]}])
            N(n["body"])
        elif k == "lambda":
            L(n["params"], lam=True); N(n["body"])
        elif k == "funcref":
            N(n["receiver"])
        elif k == "array":
            if n["len"] != 0:
                L(n["exprs"])
        elif k == "binop":
            N(n["l"]); N(n["r"])
        elif k == "cond":
            N(n["c"]); N(n["t"]); N(n["f"])
        elif k == "is":
            N(n["e"])
        elif k == "new":
            out.append(["new", None, {"explicit": not n["canInfer"], "t": n["t"]}])
            L(n["args"])
        elif k == "fieldaccess":
            N(n["e"])
        elif k == "call":
            N(n["receiver"])
            if not n["canInfer"] and n["targs"]:
                out.append(["targs", n["func"], {"ts": list(n["targs"])}])
            L(n["args"])
        elif k == "assign":
            N(n["receiver"]); N(n["expr"])
        elif k in ("bottom", "int", "real", "bool", "char", "string", "variable"):
            pass
        else:
            raise ValueError("unknown node " + k)
    L(e["decls"], top=True)
    return out


def tname(e, i):
    t = e["tt"][i]
    if isinstance(t, dict):
        return t.get("name") or t.get("nm") or str(t)
    if isinstance(t, list):
        for x in t:
            if isinstance(x, str) and not x.startswith("<class"):
                return x
    return str(t)


def literals(e, skip_defaults=False):
    """[kind, text] of every literal and operator in print order (kind: int real bool char string op);
    `skip_defaults`: without the default values of parameters (Java has no default arguments: its
    translator drops them)"""
    out = []

    def N(n):
        if n is None:
            return
        if skip_defaults and isinstance(n, dict) and n.get("n") == "param":
            return
        if isinstance(n, list):
            for x in n:
                N(x)
            return
        k = n["n"]
        if k in ("int", "real", "bool", "char", "string"):
            out.append([k, n["lit"]])
        elif k == "binop":
            N(n["l"]); out.append(["op", n["op"]]); N(n["r"])
        elif k == "is":
            N(n["e"]); out.append(["op", "!is" if n["isNot"] else "is"])
        elif k == "array":
            if n["len"] != 0:
                N(n["exprs"])
        elif k == "call":
            N(n["receiver"]); N(n["args"])
        elif k == "assign":
            N(n["receiver"]); N(n["expr"])
        elif k == "class":
            N(n["fields"]); N(n["supers"]); N(n["funcs"])
        elif k == "func":
            N(n["params"]); N(n["body"])
        elif k == "lambda":
            N(n["params"]); N(n["body"])
        else:
            for key in ("body", "args", "expr", "default", "receiver", "e", "c", "t", "f"):
                v = n.get(key)
                if isinstance(v, (dict, list)):
                    N(v)
    N(e["decls"])
    return out


# ------------------------------------------------------------------ tokens
TOK = re.compile(r"""
    (?P<str>"(?:[^"\\\n]|\\.)*")
  | (?P<chr>'(?:[^'\\\n]|\\.)')
  | (?P<num>\d+(?:\.\d+)?[fFL]?)
  | (?P<id>`[^`\n]*`|[A-Za-z_$][A-Za-z_0-9$]*)
  | (?P<op>->|=>|::|===|!==|==|!=|&&|\|\||[(){}\[\]<>,:;=.?+\-*/!@%&|^~\\#])
  | (?P<nl>\n)
  | (?P<ws>[ \t\r]+)
  | (?P<bad>.)
""", re.X | re.S)


def tokenize(text):
    """list of (kind, text, pos, spaced_before); whitespace dropped, newlines kept as ('nl', …)"""
    out = []
    spaced = True
    for m in TOK.finditer(text):
        k = m.lastgroup
        if k == "ws":
            spaced = True
            continue
        out.append((k, m.group(), m.start(), spaced))
        spaced = (k == "nl")
    return out


PAIRS = {")": "(", "]": "[", "}": "{"}


def balance(toks):
    st = []
    for k, s, pos, _ in toks:
        if k == "bad":
            return {"error": "unexpected character", "pos": pos, "char": s}
        if k != "op":
            continue
        if s in "([{":
            st.append((s, pos))
        elif s in PAIRS:
            if not st or st[-1][0] != PAIRS[s]:
                return {"error": "unmatched " + s, "pos": pos}
            st.pop()
    if st:
        return {"error": "unclosed " + st[-1][0], "pos": st[-1][1]}
    return None


def text_literals(toks):
    """string and char literal contents in text order"""
    return [["string", s[1:-1]] for k, s, _, _ in toks if k == "str"], [["char", s[1:-1]] for k, s, _, _ in toks if k == "chr"]


# ------------------------------------------------------------------ scanners
SCANNED = {
    "kotlin": ["class", "tparam", "field", "super", "func", "param", "retannot", "var", "varannot", "targs", "new"],
    "scala": ["class", "tparam", "field", "super", "func", "param", "retannot", "var", "varannot", "targs", "new"],
    "java": ["class", "tparam", "super", "field", "func", "param", "var", "new"],
    "groovy": ["class", "tparam", "super", "field", "func", "param", "var", "new"],
}
LAMBDA_PARAMS = {"kotlin": True, "scala": False}


class _S:
    def __init__(self, text):
        self.toks = [t for t in tokenize(text) if t[0] != "nl" or True]
        self.ev = []          # (pos, [tag, name, attrs])

    def t(self, i):
        return self.toks[i] if 0 <= i < len(self.toks) else ("eof", "", -1, True)

    def nx(self, i):
        """index of the next non-newline token after i"""
        i += 1
        while self.t(i)[0] == "nl":
            i += 1
        return i

    def close(self, i, op, cl):
        """index of the token closing the bracket opened at i (angle brackets: only unspaced `<`)"""
        d = 0
        j = i
        while j < len(self.toks):
            k, s, _, sp = self.toks[j]
            if k == "op":
                if s == op:
                    d += 1
                elif s == cl:
                    d -= 1
                    if d == 0:
                        return j
            j += 1
        return -1

    def top_items(self, i, j, angle=("<", ">")):
        """token index ranges of the comma-separated items between brackets at i and j (top level only)"""
        items, start, d = [], i + 1, 0
        for k in range(i + 1, j):
            kind, s, _, sp = self.toks[k]
            if kind != "op":
                continue
            if s in "([{" or (s == angle[0] and not sp):
                d += 1
            elif s in ")]}" or (s == angle[1] and d > 0 and not sp):
                d -= 1
            elif s == "," and d == 0:
                items.append((start, k))
                start = k + 1
        if start < j:
            items.append((start, j))
        return items

    def add(self, pos, tag, name, **attrs):
        self.ev.append((pos, [tag, name.strip("`") if name else name, attrs]))

    def events(self):
        return [e for _, e in sorted(self.ev, key=lambda x: x[0])]


def _mods_before(S, i, allowed):
    mods = []
    j = i - 1
    while S.t(j)[0] == "id" and S.t(j)[1] in allowed:
        mods.append(S.t(j)[1])
        j -= 1
    return mods


def scan_kotlin(text):
    S = _S(text)
    T = S.toks
    classes = set()
    skip_until = -1
    for i, (k, s, pos, sp) in enumerate(T):
        if k == "id" and s in ("class", "interface") and i > skip_until:
            mods = _mods_before(S, i, ("open", "abstract", "fun"))
            j = S.nx(i)
            name = S.t(j)[1]
            classes.add(name)
            kind = "interface" if s == "interface" else ("abstract" if "abstract" in mods else "class")
            S.add(pos, "class", name, kind=kind, open="open" in mods, fun="fun" in mods)
            j = S.nx(j)
            if S.t(j)[1] == "<" and not S.t(j)[3]:
                c = S.close(j, "<", ">")
                for a, b in S.top_items(j, c):
                    ids = [x for x in range(a, b) if T[x][0] == "id"]
                    names = [T[x] for x in ids if T[x][1] not in ("in", "out")]
                    if names:
                        S.add(names[0][2], "tparam", names[0][1])
                j = S.nx(c)
            if S.t(j)[1] == "(" and not S.t(j)[3]:
                c = S.close(j, "(", ")")
                for a, b in S.top_items(j, c):
                    ws = [T[x][1] for x in range(a, b) if T[x][0] == "id"]
                    m = []
                    while ws and ws[0] in ("open", "override"):
                        m.append(ws.pop(0))
                    if len(ws) >= 2 and ws[0] in ("val", "var"):
                        S.add(T[a][2], "field", ws[1], final=ws[0] == "val", open="open" in m, override="override" in m)
                    else:
                        S.add(T[a][2], "field?", " ".join(ws[:3]))
                skip_until = c
    for i, (k, s, pos, sp) in enumerate(T):
        if k == "id" and s == "fun" and S.t(S.nx(i))[1] not in ("interface",):
            j = S.nx(i)
            if S.t(j)[1] == "(":
                fname, anon = None, True
            else:
                anon = False
                if S.t(j)[1] == "<":
                    c = S.close(j, "<", ">")
                    for a, b in S.top_items(j, c):
                        names = [T[x] for x in range(a, b) if T[x][0] == "id" and T[x][1] not in ("in", "out")]
                        if names:
                            S.add(names[0][2], "tparam", names[0][1])
                    j = S.nx(c)
                fname = S.t(j)[1]
                mods = _mods_before(S, i, ("open", "override", "abstract"))
                S.add(pos, "func", fname, open="open" in mods, override="override" in mods, abstract="abstract" in mods)
                j = S.nx(j)
            if S.t(j)[1] != "(":
                S.add(pos, "func?", fname or "")
                continue
            c = S.close(j, "(", ")")
            for a, b in S.top_items(j, c):
                ws = [T[x] for x in range(a, b) if T[x][0] == "id"]
                va = bool(ws) and ws[0][1] == "vararg"
                if va:
                    ws = ws[1:]
                if ws:
                    S.add(ws[0][2], "param", ws[0][1], vararg=va, **{"lambda": anon})
            if not anon and S.t(c + 1)[1] == ":":
                S.add(S.t(c + 1)[2], "retannot", fname)
        elif k == "id" and s in ("val", "var") and i > -1:
            # class-header fields were recorded above: skip those positions
            j = S.nx(i)
            S.add(pos, "var", S.t(j)[1], final=s == "val")
            if S.t(j + 1)[1] == ":":
                S.add(S.t(j + 1)[2], "varannot", S.t(j)[1])
        elif k == "op" and s == "{" and S.t(i + 1)[0] != "nl":
            # a lambda `{a: A, b: B -> body}`: parameters up to the first top-level `->`
            d, j, arrow = 0, i + 1, -1
            while j < len(T):
                kk, ss, _, spp = T[j]
                if kk == "op":
                    if ss in "([{" or (ss == "<" and not spp):
                        d += 1
                    elif ss in ")]}" or (ss == ">" and d > 0 and not spp):
                        if d == 0:
                            break
                        d -= 1
                    elif ss == "->" and d == 0:
                        arrow = j
                        break
                j += 1
            if arrow > 0:
                for a, b in S.top_items(i, arrow):
                    ws = [T[x] for x in range(a, b) if T[x][0] == "id"]
                    if ws:
                        S.add(ws[0][2], "param", ws[0][1], vararg=False, **{"lambda": True})
        elif k == "op" and s == "<" and not sp and S.t(i - 1)[0] == "id":
            nm = S.t(i - 1)[1]
            c = S.close(i, "<", ">")
            if c > 0 and S.t(c + 1)[1] == "(" and nm[:1].islower() and nm not in ("arrayOf", "emptyArray") \
                    and S.t(i - 2)[1] != "fun":
                S.add(S.t(i - 1)[2], "targs", nm)
    # drop `var`s that are class-header fields
    fpos = {p for p, e in S.ev if e[0] == "field"}
    hdr = []
    ev = []
    for p, e in sorted(S.ev, key=lambda x: x[0]):
        ev.append((p, e))
    # a header field `open val x: T` is also seen by the val/var rule: remove the var (+ varannot) events
    # that lie inside a class header (between a field position and the header's end)
    return _drop_header_vars(S, _typed(S, ev, "kotlin"))


def _drop_header_vars(S, ev):
    spans = []
    T = S.toks
    for i, (k, s, pos, sp) in enumerate(T):
        if k == "id" and s in ("class", "interface", "trait"):
            j = S.nx(S.nx(i))
            if S.t(j)[1] in ("<", "[") and not S.t(j)[3]:
                j = S.nx(S.close(j, S.t(j)[1], ">" if S.t(j)[1] == "<" else "]"))
            if S.t(j)[1] == "(" and not S.t(j)[3]:
                c = S.close(j, "(", ")")
                spans.append((S.t(j)[2], S.t(c)[2]))
    out = []
    for p, e in ev:
        if e[0] in ("var", "varannot") and any(a <= p <= b for a, b in spans):
            continue
        out.append(e)
    return out


def scan_scala(text):
    S = _S(text)
    T = S.toks
    for i, (k, s, pos, sp) in enumerate(T):
        if k == "id" and s in ("class", "trait"):
            mods = _mods_before(S, i, ("open", "abstract", "final", "sealed"))
            j = S.nx(i)
            name = S.t(j)[1]
            kind = "interface" if s == "trait" else ("abstract" if "abstract" in mods else "class")
            S.add(pos, "class", name, kind=kind, open="open" in mods)
            j = S.nx(j)
            if S.t(j)[1] == "[" and not S.t(j)[3]:
                c = S.close(j, "[", "]")
                for a, b in S.top_items(j, c, angle=("[", "]")):
                    names = [T[x] for x in range(a, b) if T[x][0] == "id"]
                    if names:
                        S.add(names[0][2], "tparam", names[0][1])
                j = S.nx(c)
            if S.t(j)[1] == "(" and not S.t(j)[3]:
                c = S.close(j, "(", ")")
                for a, b in S.top_items(j, c, angle=("[", "]")):
                    ws = [T[x][1] for x in range(a, b) if T[x][0] == "id"]
                    m = []
                    while ws and ws[0] in ("final", "override"):
                        m.append(ws.pop(0))
                    if len(ws) >= 2 and ws[0] in ("val", "var"):
                        S.add(T[a][2], "field", ws[1], final=ws[0] == "val", open="final" not in m,
                              override="override" in m)
                    else:
                        S.add(T[a][2], "field?", " ".join(ws[:3]))
        elif k == "id" and s == "def":
            mods = _mods_before(S, i, ("final", "override"))
            j = S.nx(i)
            fname = S.t(j)[1]
            S.add(pos, "func", fname, final="final" in mods, override="override" in mods)
            j = S.nx(j)
            if S.t(j)[1] == "[" and not S.t(j)[3]:
                c = S.close(j, "[", "]")
                for a, b in S.top_items(j, c, angle=("[", "]")):
                    names = [T[x] for x in range(a, b) if T[x][0] == "id"]
                    if names:
                        S.add(names[0][2], "tparam", names[0][1])
                j = S.nx(c)
            if S.t(j)[1] != "(":
                S.add(pos, "func?", fname)
                continue
            c = S.close(j, "(", ")")
            for a, b in S.top_items(j, c, angle=("[", "]")):
                ws = [T[x] for x in range(a, b) if T[x][0] == "id"]
                if ws:
                    S.add(ws[0][2], "param", ws[0][1], **{"lambda": False})
            if S.t(c + 1)[1] == ":":
                S.add(S.t(c + 1)[2], "retannot", fname)
        elif k == "id" and s in ("val", "var"):
            j = S.nx(i)
            S.add(pos, "var", S.t(j)[1], final=s == "val")
            if S.t(j + 1)[1] == ":":
                S.add(S.t(j + 1)[2], "varannot", S.t(j)[1])
    ev = sorted(S.ev, key=lambda x: x[0])
    return _drop_header_vars(S, _typed(S, ev, "scala"))


SYNTH_CLASS = re.compile(r"^(Main|Function\d+)$")


def scan_javalike(text):
    """Java / Groovy: class declarations (kind, final, name) and the `public [final] T name` field lines"""
    S = _S(text)
    T = S.toks
    depth = 0
    cls_depth = []
    for i, (k, s, pos, sp) in enumerate(T):
        if k == "op" and s == "{":
            depth += 1
        elif k == "op" and s == "}":
            depth -= 1
            if cls_depth and depth < cls_depth[-1][0]:
                cls_depth.pop()
        elif k == "id" and s in ("class", "interface") and S.t(i - 1)[1] != ".":
            mods = _mods_before(S, i, ("final", "abstract", "public", "static"))
            name = S.t(S.nx(i))[1]
            kind = "interface" if s == "interface" else ("abstract" if "abstract" in mods else "class")
            S.add(pos, "class", name, kind=kind, final="final" in mods, synthetic=bool(SYNTH_CLASS.match(name)))
            cls_depth.append((depth + 1, name))
        elif k == "id" and s == "public" and cls_depth and depth == cls_depth[-1][0] \
                and not SYNTH_CLASS.match(cls_depth[-1][1]):
            # a member line: field iff it ends (`;` or newline) before any `(`
            j = i + 1
            fin = False
            seq = []
            while S.t(j)[0] not in ("nl", "eof") and S.t(j)[1] not in (";", "(", "="):
                seq.append(S.t(j))
                j += 1
            if S.t(j)[1] != "(":
                ids = [x for x in seq if x[0] == "id"]
                if ids:
                    S.add(pos, "field", ids[-1][1], final=any(x[1] == "final" for x in ids))
    return S.events()


def scan(lang, text):
    if lang == "kotlin":
        return scan_kotlin(text)
    if lang == "scala":
        return scan_scala(text)
    return scan_javalike_full(lang, text)


# ------------------------------------------------------------------ expected events per language
def expected(lang, inv, e=None):
    """projection of the IR inventory to what `scan(lang, ·)` reports, with the modifiers of the language and
    (when the export `e` is given) the NAMES of the types the program carries, rendered by `type_text`"""
    if lang in ("java", "groovy"):
        return expected_javalike(lang, e, inv)
    out = []
    typed = e is not None

    def ty(i):
        return canon_type(type_text(lang, e, i)) if typed else None

    def elem(t, vararg):
        ent = e["tt"][t]
        return ent["args"][0] if vararg and ent["k"] == "p" else t

    def add(tag, name, attrs, **types):
        if typed:
            attrs = dict(attrs, **types)
        out.append([tag, name, attrs])

    for tag, name, a in inv:
        if tag not in SCANNED[lang]:
            continue
        if tag == "class":
            if lang == "kotlin":
                out.append([tag, name, {"kind": ("class", "interface", "abstract")[a["ctype"]],
                                        "open": (not a["final"]) and a["ctype"] != 1, "fun": False}])
            else:
                out.append([tag, name, {"kind": ("class", "interface", "abstract")[a["ctype"]],
                                        "open": (not a["final"]) or a["ctype"] == 1}])
        elif tag == "field":
            add(tag, name, {"final": a["final"], "open": a["open"], "override": a["override"]},
                type=ty(a["t"]) if typed else None)
        elif tag == "func":
            if lang == "kotlin":
                out.append([tag, name, {"open": not a["final"], "override": a["override"], "abstract": a["abstract"]}])
            else:
                out.append([tag, name, None])       # modifiers depend on the enclosing class: names only
        elif tag == "param":
            if lang == "scala":
                if a["lambda"]:
                    continue
                add(tag, name, {"lambda": False}, type=ty(elem(a["t"], a["vararg"])) if typed else None)
            else:
                add(tag, name, {"vararg": a["vararg"], "lambda": a["lambda"]},
                    type=ty(elem(a["t"], a["vararg"])) if typed else None)
        elif tag == "var":
            out.append([tag, name, {"final": a["final"]}])
        elif tag in ("varannot", "retannot"):
            add(tag, name, {}, type=ty(a["t"]) if typed else None)
        elif tag == "tparam":
            if typed:
                b = "Any" if a.get("bound") is None else ty(a["bound"])
                add(tag, name, {}, bound=b, variance=a.get("var", 0))
            else:
                out.append([tag, name, {}])
        elif tag == "targs":
            if typed:
                xs = [type_text(lang, e, t) for t in a["ts"]]
                o, c = ("<", ">") if lang == "kotlin" else ("[", "]")
                add(tag, name, {}, type=None if None in xs else canon_type(o + ", ".join(xs) + c))
            else:
                out.append([tag, name, {}])
        elif tag == "super":
            if typed:
                add(tag, name, {}, type=ty(a["t"]))
        elif tag == "new":
            if typed:
                ent = e["tt"][a["t"]]
                if lang == "scala" and ent["k"] == "b" and "scala_types.AnyType" in ent.get("cls", ""):
                    continue        # ScalaTranslator.visit_new: `1.asInstanceOf[Any]`
                add(tag, name, {}, type=canon_type(ent.get("name", "?")) if not a["explicit"] else ty(a["t"]))
        else:
            out.append([tag, name, {}])
    return out


def compare(lang, exp, got):
    """first difference between expected and scanned events (None if equal).  Synthetic declarations the
    target language needs are skipped and counted: Kotlin `var y = {…}` / Scala `val _y = …` (lambda
    statement in a Unit function), Java/Groovy `Main` and `FunctionN`."""
    synth = 0
    ordered = lang in ("kotlin", "scala")
    if not ordered and any(e[0] not in ("class", "field") for e in exp + got):
        d, synth, _ = compare_unordered(exp, got)
        return d, synth
    if not ordered:
        g2 = []
        for e in got:
            if e[0] == "class" and e[2].get("synthetic"):
                synth += 1
                continue
            a = dict(e[2]); a.pop("synthetic", None)
            if e[0] == "class":
                a.pop("final", None)
            g2.append([e[0], e[1], a])
        key = lambda e: (e[0], e[1] or "", repr(sorted((e[2] or {}).items())))
        x, y = sorted(exp, key=key), sorted(g2, key=key)
        if x == y:
            return None, synth
        for k in range(max(len(x), len(y))):
            if k >= len(x) or k >= len(y) or x[k] != y[k]:
                return {"index": k, "expected": x[k] if k < len(x) else None, "scanned": y[k] if k < len(y) else None,
                        "n_expected": len(x), "n_scanned": len(y)}, synth
    i = j = 0
    while i < len(exp) or j < len(got):
        e = exp[i] if i < len(exp) else None
        g = got[j] if j < len(got) else None
        if g is not None and e is not None and g[0] == e[0] and g[1] == e[1] and _attrs_match(e[2], g[2]):
            i += 1; j += 1
            continue
        if g is not None and g[0] == "var" and ((lang == "kotlin" and g[1] == "y" and not g[2].get("final")) or
                                                (lang == "scala" and g[1] == "_y" and g[2].get("final"))):
            synth += 1
            j += 1
            continue
        return {"index": i, "expected": e, "scanned": g, "before": exp[max(0, i - 2):i],
                "n_expected": len(exp), "n_scanned": len(got)}, synth
    return None, synth


# ====================================================================== type names (specification side)
# The text a language's translator is to print for a type, written down from the language's naming rules and
# computed from the export alone (never from a translator object):
#   wildcard (as a whole type) -> its bound, recursively;  non-parameterized -> the type's own name (a built-in's
#   name is the one its language gives it, primitives included: `int`, `Int`, …; a class, type parameter or type
#   constructor: its name);  parameterized -> Name<args> (Scala Name[args]) with use-site variance
#   `? extends` / `? super` / `?` (Java, Groovy), `out` / `in` / `*` (Kotlin), `? <:` / `? >:` / `?` (Scala);
#   arrays of the translator's OWN language: `T[]` (Java: boxed element; Groovy), Kotlin `IntArray` … for the
#   specialised arrays;  Java boxes every type argument (`int` -> `Integer`, `void` -> `Void`).
# `None` = not rendered exactly (counted as `type_text_inexact`, not compared).
BOXED = {"boolean": "Boolean", "byte": "Byte", "char": "Character", "short": "Short", "int": "Integer",
         "long": "Long", "float": "Float", "double": "Double", "void": "Void"}
_ARRAY_CLS = {"java": ("src.ir.java_types.ArrayType",), "groovy": ("src.ir.groovy_types.ArrayType",),
              "kotlin": ("src.ir.kotlin_types.SpecializedArrayType",),
              "scala": ()}
_WILD = {"java": ("?", "? extends ", "? super "), "groovy": ("?", "? extends ", "? super "),
         "kotlin": ("*", "out ", "in "), "scala": ("?", "? <: ", "? >: ")}


def type_text(lang, e, i, box=False, boxed_void=False):
    """text of type e["tt"][i] as `lang` writes it, or None"""
    if i is None:
        return None
    t = e["tt"][i]
    k = t["k"]
    if k == "w":
        j, seen = i, 0
        while j is not None and e["tt"][j]["k"] == "w":
            j = e["tt"][j]["bound"]
            seen += 1
            if seen > 50:
                return None
        if j is None:
            return None
        return type_text(lang, e, j, box, boxed_void)
    if k in ("b", "s", "v", "c"):
        nm = t["name"]
        if lang == "java":
            if boxed_void and "java_types.VoidType" in t.get("cls", ""):
                return "Void"
            if box:
                return BOXED.get(nm, nm)
        return nm
    if k == "p":
        con = e["tt"][t["con"]]
        cls = con.get("cls", "")
        if any(c in cls for c in _ARRAY_CLS[lang]):
            if lang == "java":
                x = type_text(lang, e, t["args"][0], True, False)
                return None if x is None else x + "[]"
            if lang == "groovy":
                x = type_text(lang, e, t["args"][0])
                return None if x is None else x + "[]"
            if lang == "kotlin":
                x = type_text(lang, e, t["args"][0])
                return None if x is None else x + "Array"
        args = []
        for a in t["args"]:
            ta = e["tt"][a]
            if ta["k"] == "w":
                inv, cov, con_ = _WILD[lang]
                if ta["var"] == 0 or ta["bound"] is None:
                    if ta["var"] != 0:
                        return None
                    args.append(inv)
                    continue
                x = type_text(lang, e, ta["bound"], lang == "java", lang == "java")
                if x is None:
                    return None
                args.append((cov if ta["var"] == 1 else con_) + x)
            else:
                x = type_text(lang, e, a, lang == "java", lang == "java")
                if x is None:
                    return None
                args.append(x)
        o, c = ("[", "]") if lang == "scala" else ("<", ">")
        return "%s%s%s%s" % (t["name"], o, ", ".join(args), c)
    return None


def canon_type(s):
    """token-level canonical form of a type text (spacing-insensitive)"""
    if s is None:
        return None
    return " ".join(x[1] for x in tokenize(s) if x[0] != "nl")


# ====================================================================== Java / Groovy: the full declaration vocabulary
JKW = {"return", "new", "final", "static", "public", "abstract", "class", "interface", "extends", "implements",
       "instanceof", "else", "package", "as", "super", "this", "in", "if", "true", "false", "null", "import"}
SYNTH_VAR = re.compile(r"^x_\d+$")


def _canon(S, a, b):
    return " ".join(S.toks[x][1] for x in range(a, b) if S.toks[x][0] != "nl")


def _type_fwd(S, i, angle=("<", ">")):
    """a type starting at token i: id [<…>] ([ ])* -> (index after it, canonical text) | None"""
    if S.t(i)[0] != "id" or S.t(i)[1] in JKW:
        return None
    j = i + 1
    if S.t(j)[1] == angle[0] and not S.t(j)[3]:
        c = S.close(j, angle[0], angle[1])
        if c < 0:
            return None
        j = c + 1
    if angle[0] == "<":
        while S.t(j)[1] == "[" and S.t(j + 1)[1] == "]":
            j += 2
    return j, _canon(S, i, j)


def _type_back(S, j):
    """index of the first token of the type whose last token is j | None"""
    k = j
    while S.t(k)[1] == "]" and S.t(k - 1)[1] == "[":
        k -= 2
    if S.t(k)[1] == ">" and not S.t(k)[3]:
        d, m = 0, k
        while m >= 0:
            if S.toks[m][0] == "op":
                if S.toks[m][1] == ">":
                    d += 1
                elif S.toks[m][1] == "<":
                    d -= 1
                    if d == 0:
                        break
            m -= 1
        if m < 0:
            return None
        k = m - 1
    if S.t(k)[0] == "id" and S.t(k)[1] not in JKW:
        return k
    return None


def _open_back(S, j, op, cl):
    d, m = 0, j
    while m >= 0:
        if S.toks[m][0] == "op":
            if S.toks[m][1] == cl:
                d += 1
            elif S.toks[m][1] == op:
                d -= 1
                if d == 0:
                    return m
        m -= 1
    return -1


def _param_item(S, a, b, done, lam, emit=True):
    """one item `TYPE[...] NAME [= default]` (or `NAME`) of a parameter list, tokens [a, b)"""
    T = S.toks
    d, cut = 0, b
    for x in range(a, b):
        if T[x][0] == "op":
            if T[x][1] in "([{" or (T[x][1] == "<" and not T[x][3]):
                d += 1
            elif T[x][1] in ")]}" or (T[x][1] == ">" and d > 0 and not T[x][3]):
                d -= 1
            elif T[x][1] == "=" and d == 0:
                cut = x
                break
    idx = [x for x in range(a, cut) if T[x][0] != "nl"]
    if not idx or T[idx[-1]][0] != "id":
        return
    ni = idx[-1]
    ty = idx[:-1]
    va = len(ty) >= 3 and all(T[x][1] == "." for x in ty[-3:])
    if va:
        ty = ty[:-3]
    done.add(ni)
    if emit:
        S.add(T[ni][2], "param", T[ni][1], vararg=va, type=" ".join(T[x][1] for x in ty), **{"lambda": lam})


def scan_javalike_full(lang, text):
    """Java / Groovy: classes (kind), type parameters (bound), super clauses (type), fields (final, type),
    methods (return type), parameters of methods / lambdas / closures (type, vararg), variables incl. the
    `FunctionN<…> f = (a, b) -> …` / `def f = { … -> … }` form of nested functions (final, type | `def`),
    constructor calls (`new` + the printed class type with its type arguments or `<>`)"""
    S = _S(text)
    T = S.toks
    done = set()
    depth, cls, skip_to = 0, [], -1
    for i, (k, s, pos, sp) in enumerate(T):
        if i < skip_to:
            continue
        if k == "op" and s == "{":
            depth += 1
            if lang == "groovy" and S.t(i + 1)[0] != "nl":
                d, j, arrow = 0, i + 1, -1
                while j < len(T):
                    kk, ss, _, spp = T[j]
                    if kk == "op":
                        if ss in "([{" or (ss == "<" and not spp):
                            d += 1
                        elif ss in ")]}" or (ss == ">" and d > 0 and not spp):
                            if d == 0:
                                break
                            d -= 1
                        elif ss == "->" and d == 0:
                            arrow = j
                            break
                    j += 1
                if arrow > 0:
                    for a, b in S.top_items(i, arrow):
                        _param_item(S, a, b, done, True)
            continue
        if k == "op" and s == "}":
            depth -= 1
            if cls and depth < cls[-1][0]:
                cls.pop()
            continue
        if k == "op" and s == ")" and S.t(i + 1)[1] == "->" and lang == "java":
            m = _open_back(S, i, "(", ")")
            if m >= 0:
                for a, b in S.top_items(m, i):
                    _param_item(S, a, b, done, True)
            continue
        if k != "id":
            continue
        if s in ("class", "interface") and S.t(i - 1)[1] != ".":
            mods = _mods_before(S, i, ("final", "abstract", "public", "static"))
            j = S.nx(i)
            name = S.t(j)[1]
            synth = bool(SYNTH_CLASS.match(name))
            kind = "interface" if s == "interface" else ("abstract" if "abstract" in mods else "class")
            S.add(pos, "class", name, kind=kind, final="final" in mods, synthetic=synth)
            j += 1
            if synth and name != "Main":
                while j < len(T) and T[j][1] != "{":
                    j += 1
                c = S.close(j, "{", "}")
                skip_to = c + 1 if c > 0 else len(T)
                continue
            if S.t(j)[1] == "<" and not S.t(j)[3]:
                c = S.close(j, "<", ">")
                for a, b in S.top_items(j, c):
                    ids = [x for x in range(a, b) if T[x][0] != "nl"]
                    if not ids:
                        continue
                    bound = ""
                    if len(ids) > 1 and T[ids[1]][1] == "extends":
                        bound = " ".join(T[x][1] for x in ids[2:])
                    S.add(T[ids[0]][2], "tparam", T[ids[0]][1], bound=bound)
                j = c + 1
            while S.t(j)[1] in ("extends", "implements"):
                j += 1
                while True:
                    r = _type_fwd(S, j)
                    if r is None:
                        break
                    S.add(T[j][2], "super", None, type=r[1])
                    j = r[0]
                    if S.t(j)[1] == ",":
                        j += 1
                        continue
                    break
            cls.append((depth + 1, name, synth))
            continue
        if s == "new":
            r = _type_fwd(S, i + 1)
            if r is not None and S.t(r[0])[1] == "(":
                synth = r[1] in ("Long", "Double") and [S.t(i - 3)[1], S.t(i - 2)[1], S.t(i - 1)[1]] == ["(", "Number", ")"]
                S.add(pos, "new", None, type=r[1], synthetic=synth)
            continue
        if s in JKW or i in done:
            continue
        nxt = S.t(i + 1)
        # constructor `public Name(params)`: synthetic
        if cls and s == cls[-1][1] and nxt[1] == "(" and S.t(i - 1)[1] == "public" and depth == cls[-1][0]:
            c = S.close(i + 1, "(", ")")
            for a, b in S.top_items(i + 1, c):
                _param_item(S, a, b, done, False, emit=False)
            S.add(pos, "constructor", s, synthetic=True)
            continue
        if nxt[1] not in ("=", "(", ";") and nxt[0] not in ("nl", "eof"):
            continue
        j = i - 1
        mainp = False
        if S.t(j)[1] == "." and S.t(j - 1)[1] == "Main":
            j -= 2
            mainp = True
        if S.t(j)[0] == "nl":
            continue
        ts = _type_back(S, j)
        if ts is None or S.t(ts - 1)[1] in ("instanceof", "new", ".", "as", "extends", "super", "?", "<", ","):
            continue
        typ = _canon(S, ts, j + 1)
        mods = _mods_before(S, ts, ("final", "static", "public", "abstract"))
        if nxt[1] == "=":
            S.add(pos, "var", s, final="final" in mods, type=typ, synthetic=bool(SYNTH_VAR.match(s)))
        elif nxt[1] == "(":
            if mainp:
                continue
            b4 = ts - 1
            if S.t(b4)[1] == ">" and not S.t(b4)[3]:
                m = _open_back(S, b4, "<", ">")
                if m >= 0 and (S.t(m - 1)[0] in ("nl", "eof") or S.t(m - 1)[1] in JKW):
                    for a, b in S.top_items(m, b4):
                        ids = [x for x in range(a, b) if T[x][0] != "nl"]
                        if not ids:
                            continue
                        bound = ""
                        if len(ids) > 1 and T[ids[1]][1] == "extends":
                            bound = " ".join(T[x][1] for x in ids[2:])
                        S.add(T[ids[0]][2], "tparam", T[ids[0]][1], bound=bound)
                    mods = _mods_before(S, m, ("final", "static", "public", "abstract"))
            S.add(pos, "func", s, ret=typ, abstract="abstract" in mods)
            c = S.close(i + 1, "(", ")")
            if c > 0:
                for a, b in S.top_items(i + 1, c):
                    _param_item(S, a, b, done, False)
        else:
            if "public" in mods and cls and depth == cls[-1][0] and not mainp:
                S.add(pos, "field", s, final="final" in mods, type=typ)
    return S.events()


def _ct(s):
    return None if s is None else canon_type(s)


def expected_javalike(lang, e, inv, stats=None):
    """what `scan_javalike_full` is to report for a program with inventory `inv` (Java: computed with
    skip_defaults): the declarations with the NAMES of the types the program carries.  A `None` type = any type
    text is accepted there (Java / Groovy print a type the program does not carry: the recorded findings)."""
    out = []
    tt = lambda i, **kw: type_text(lang, e, i, **kw)   # noqa: E731

    def st(key):
        if stats is not None:
            stats[key] = stats.get(key, 0) + 1

    def elem(t, vararg):
        ent = e["tt"][t]
        return ent["args"][0] if vararg and ent["k"] == "p" else t

    for tag, name, a in inv:
        if tag == "class":
            out.append([tag, name, {"kind": ("class", "interface", "abstract")[a["ctype"]]}])
        elif tag == "tparam":
            b = ""
            if a["bound"] is not None:
                b = tt(a["bound"])
                if b is not None and lang == "java":
                    b = BOXED.get(b, b)
                b = _ct(b)
            out.append([tag, name, {"bound": b}])
        elif tag == "super":
            out.append([tag, None, {"type": _ct(tt(a["t"]))}])
        elif tag == "field":
            out.append([tag, name, {"final": a["final"], "type": _ct(tt(a["t"]))}])
        elif tag == "param":
            if lang == "java" and a["nestedfunc"]:
                out.append([tag, name, {"vararg": False, "type": "", "lambda": True}])
                # printed as the lambda `(a, b) -> …` of a FunctionN variable: names only
            else:
                out.append([tag, name, {"vararg": a["vararg"], "type": _ct(tt(elem(a["t"], a["vararg"]))),
                                        "lambda": a["lambda"] or (lang == "groovy" and a["nestedfunc"])}])
        elif tag == "func":
            carried = a["ret"] is not None
            st("ret_carried" if carried else "ret_not_carried")
            if not a["nested"]:
                out.append([tag, name, {"ret": _ct(tt(a["ret"])) if carried else None, "abstract": a["abstract"]}])
            elif lang == "java":
                ty = None
                if carried:
                    parts = []
                    for t, va in a["ptypes"]:
                        x = tt(elem(t, va))
                        parts.append(None if x is None else BOXED.get(x + ("[]" if va else ""), x + ("[]" if va else "")))
                    r = tt(a["ret"], boxed_void=True)
                    parts.append(None if r is None else BOXED.get(r, r))
                    if None not in parts:
                        ty = _ct("Function%d<%s>" % (a["nparams"], ", ".join(parts)))
                out.append(["var", name, {"final": False, "type": ty}])
            else:
                ty = "def"
                if carried:
                    ent = e["tt"][a["ret"]]
                    if not (ent["k"] == "b" and "groovy_types.VoidType" in ent.get("cls", "")):
                        r = tt(a["ret"])
                        if r is not None and ent["k"] == "b" and ent.get("prim"):
                            r = BOXED.get(r, r)
                        ty = None if r is None else _ct("Closure<%s>" % r)
                out.append(["var", name, {"final": False, "type": ty}])
        elif tag == "var":
            carried = a["t"] is not None
            st("var_carried" if carried else "var_not_carried")
            if carried:
                ty = _ct(tt(a["t"]))
            elif lang == "groovy" and not a["global"]:
                ty = "def"
            else:
                ty = None
            out.append([tag, name, {"final": a["final"], "type": ty}])
        elif tag == "new":
            ent = e["tt"][a["t"]]
            if not a["explicit"]:
                ty = _ct(ent.get("name", "?") + "<>")
            else:
                ty = _ct(tt(a["t"]))
            out.append([tag, None, {"type": ty}])
    return out


WILD_KEYS = ("type", "ret", "bound")


def _attrs_match(ea, ga):
    if ea is None:
        return True
    for k, v in ea.items():
        if v is None and k in WILD_KEYS:
            continue
        if ga.get(k) != v:
            return False
    return True


def compare_unordered(exp, got):
    """multiset comparison by (tag, name); an expected attribute `None` (type / ret / bound) accepts any text.
    -> (first difference | None, number of synthetic declarations skipped, number of wildcard matches)"""
    synth = wild = 0
    bg = {}
    for g in got:
        if g[2].get("synthetic"):
            synth += 1
            continue
        a = {k: v for k, v in g[2].items() if k != "synthetic"}
        if g[0] == "class":
            a.pop("final", None)
        bg.setdefault((g[0], g[1]), []).append(a)
    be = {}
    for x in exp:
        be.setdefault((x[0], x[1]), []).append(x[2])
    for key in sorted(set(be) | set(bg), key=lambda k: (k[0], k[1] or "")):
        es, gs = list(be.get(key, [])), list(bg.get(key, []))
        # exact expectations first, wildcards last
        es.sort(key=lambda a: sum(1 for k in WILD_KEYS if k in a and a[k] is None))
        for ea in es:
            hit = next((x for x in gs if _attrs_match(ea, x)), None)
            if hit is None:
                return ({"declaration": [key[0], key[1]], "expected": ea, "scanned_candidates": gs[:4],
                         "n_expected": len(be.get(key, [])), "n_scanned": len(bg.get(key, []))}, synth, wild)
            if any(ea.get(k, 0) is None for k in WILD_KEYS):
                wild += 1
            gs.remove(hit)
        if gs:
            return ({"declaration": [key[0], key[1]], "expected": None, "scanned": gs[0],
                     "n_expected": len(be.get(key, [])), "n_scanned": len(bg.get(key, []))}, synth, wild)
    return None, synth, wild


# ====================================================================== Kotlin / Scala: the printed type names
KT_NOT_NEW = re.compile(r"^(TODO|(Byte|Short|Int|Long|Float|Double|Char|Boolean)Array)$")


def _typed(S, ev, lang):
    """adds to the events of scan_kotlin / scan_scala the TEXT of the printed types (`type` of field / param /
    varannot / retannot, `bound` + `variance` of tparam, `type` of targs) and the events `super` (type) and `new`
    (class type with its explicit type arguments).  ev: [(pos, event)] -> the same, sorted by position."""
    T = S.toks
    at = {t[2]: i for i, t in enumerate(T)}
    angle = ("<", ">") if lang == "kotlin" else ("[", "]")
    out = list(ev)

    def after_colon(i, limit=8):
        for j in range(i, min(i + limit, len(T))):
            if T[j][1] == ":" and T[j][0] == "op":
                r = _type_fwd(S, S.nx(j), angle)
                return r[1] if r else "?"
            if T[j][0] == "nl":
                break
        return "?"

    for pos, e in out:
        i = at.get(pos)
        if i is None:
            continue
        tag = e[0]
        if tag in ("field", "param", "varannot", "retannot"):
            e[2]["type"] = after_colon(i)
        elif tag == "tparam":
            e[2]["bound"] = after_colon(i, 4)
            pv = S.t(i - 1)[1]
            e[2]["variance"] = {"out": 1, "in": 2, "+": 1, "-": 2}.get(pv, 0) if (
                S.t(i - 1)[0] == "id" or (lang == "scala" and not S.t(i)[3])) else 0
        elif tag == "targs":
            j = i + 1
            c = S.close(j, angle[0], angle[1])
            e[2]["type"] = _canon(S, j, c + 1) if c > 0 else "?"
    # super clauses
    not_new = set()
    for i, (k, s, pos, sp) in enumerate(T):
        if k == "id" and s in ("class", "interface", "trait") and S.t(i - 1)[1] != ".":
            j = S.nx(S.nx(i))
            if S.t(j)[1] == angle[0] and not S.t(j)[3]:
                j = S.close(j, angle[0], angle[1]) + 1
            if S.t(j)[1] == "(" and not S.t(j)[3]:
                j = S.close(j, "(", ")") + 1
            if (lang == "kotlin" and S.t(j)[1] == ":") or (lang == "scala" and S.t(j)[1] == "extends"):
                j += 1
                while True:
                    r = _type_fwd(S, j, angle)
                    if r is None:
                        break
                    not_new.add(j)
                    out.append((T[j][2], ["super", None, {"type": r[1]}]))
                    j = r[0]
                    if S.t(j)[1] == "(" and not S.t(j)[3]:
                        j = S.close(j, "(", ")") + 1
                    if S.t(j)[1] == "," or (S.t(j)[1] == "with" and lang == "scala"):
                        j += 1
                        continue
                    break
    # constructor calls
    for i, (k, s, pos, sp) in enumerate(T):
        if lang == "scala":
            if k == "id" and s == "new":
                r = _type_fwd(S, i + 1, angle)
                if r is not None and S.t(r[0])[1] == "(":
                    out.append((pos, ["new", None, {"type": r[1]}]))
            elif k == "id" and s.startswith("`") and S.t(i + 1)[1] == "[" and not S.t(i + 1)[3] \
                    and S.t(i - 1)[1] != "def":
                c = S.close(i + 1, "[", "]")
                if c > 0 and S.t(c + 1)[1] == "(":
                    out.append((pos, ["targs", s.strip("`"), {"type": _canon(S, i + 1, c + 1)}]))
        elif k == "id" and s[:1].isupper() and i not in not_new and not KT_NOT_NEW.match(s) \
                and S.t(i - 1)[1] not in ("class", "interface", "fun", ".", "is", "as"):
            r = _type_fwd(S, i, angle)
            if r is not None and S.t(r[0])[1] == "(" and not S.t(r[0])[3]:
                out.append((pos, ["new", None, {"type": r[1]}]))
    out.sort(key=lambda x: x[0])
    return out


# ====================================================================== pure judgement (usable inside a worker)
def judge_pure(lang, text, e, legs=("S1", "S3")):
    """S1 (declarations, with type names) and S3 (balance) of one real text against the export `e`;
    -> {"n": declarations compared, "synthetic": n, "diffs": [(leg, signature, detail)]}"""
    out = {"n": 0, "synthetic": 0, "diffs": []}
    if "S3" in legs:
        b = balance(tokenize(text))
        if b is not None:
            out["diffs"].append(("S3 balance", "unbalanced:%s:%s" % (lang, b["error"].split()[0]),
                                 dict(b, around=text[max(0, b["pos"] - 100):b["pos"] + 60])))
    if "S1" in legs:
        inv = inventory(e, skip_defaults=(lang == "java"))
        exp = expected(lang, inv, e)
        got = scan(lang, text)
        d, synth = compare(lang, exp, got)
        out["n"], out["synthetic"] = len(exp), synth
        if d is not None:
            out["diffs"].append(("S1 declarations", "declarations-differ:%s:%s" % (lang, diff_tag(d)), d))
    return out


def diff_tag(d):
    if d.get("declaration"):
        return d["declaration"][0]
    return (d.get("scanned") or d.get("expected") or ["?"])[0]


def changed_sites(e1, e2, lang="kotlin"):
    """the declarations at which two exports of the same program shape carry different types:
    [[kind, name, old type text, new type text]] with kind in var_type / ret_type / new_type_argument /
    call_type_argument / other (types rendered by `type_text(lang, …)`; a structural change -> [["shape", …]])"""
    out = []

    def tx(e, i):
        return None if i is None else (type_text(lang, e, i) or "?")

    def W(a, b):
        if isinstance(a, list) and isinstance(b, list):
            if len(a) != len(b):
                out.append(["shape", None, None, None])
                return
            for x, y in zip(a, b):
                W(x, y)
            return
        if not isinstance(a, dict) or not isinstance(b, dict):
            return
        if a.get("n") != b.get("n"):
            out.append(["shape", a.get("n"), None, None])
            return
        k = a.get("n")
        if k == "var" and tx(e1, a["varType"]) != tx(e2, b["varType"]):
            out.append(["var_type", a["name"], tx(e1, a["varType"]), tx(e2, b["varType"])])
        if k == "func" and tx(e1, a["retType"]) != tx(e2, b["retType"]):
            out.append(["ret_type", a["name"], tx(e1, a["retType"]), tx(e2, b["retType"])])
        if k == "new" and (tx(e1, a["t"]) != tx(e2, b["t"]) or a["canInfer"] != b["canInfer"]):
            out.append(["new_type_argument", e1["tt"][a["t"]].get("name"), tx(e1, a["t"]), tx(e2, b["t"])])
        if k == "call" and ([tx(e1, t) for t in a["targs"]] != [tx(e2, t) for t in b["targs"]]
                            or a["canInfer"] != b["canInfer"]):
            out.append(["call_type_argument", a["func"], ",".join(str(tx(e1, t)) for t in a["targs"]),
                        ",".join(str(tx(e2, t)) for t in b["targs"])])
        for key, v in a.items():
            if isinstance(v, (dict, list)) and key in b:
                W(v, b[key])
    W(e1["decls"], e2["decls"])
    return out
