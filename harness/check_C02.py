"""C02 — Java translations of valid programs compile with javac (partial: javac is validation).

proof side : lean/Heph/Props/C02.lean — theorems about lean/Heph/Model/TransJava.lean (the
             state-threading port of src/translators/java.py): reset/history independence, text
             shape, bracket balance (full node language: javaText_balanced_full), and the batch independence of the javac
             diagnostics analysis (re-export of C14).
tie to code: (a) byte equality of the model's text (driver op trans.java) with
             `utils.translate_program(JavaTranslator(pkg), p)` for programs of the real pipeline
             (`pipeline.run_many`: Generator, then TypeErasure; all 16 switch settings), for the
             'gen' and the 'erase' stage; (a') model text with a translation history == without.
             (a'') the Lean bracket scanner (driver op java.scan) on every REAL text + the Lean deciders of the
             theorem's hypotheses on the exported program: "covered by theorem" vs "outside fragment" is counted;
             an unbalanced real text of a covered program is a failing input.
             (b) javac itself, the external judge: every real translation is written to
             <tmp>/src/<pkg>/Main.java (unique package per program), ONE batch is compiled with the
             tool's own command line (`JavaCompiler(<tmp>/src).get_compiler_cmd()`, run the way
             hephaestus.run_command runs it: joined by blanks through the shell, stderr folded in)
             and analysed with the real `analyze_compiler_output`; a sample is compiled file by
             file (thorough: also in batches of 10/100/200) and the verdicts compared with the
             batch verdicts.
structured  : (c) the hand-built IR family `harness/ir_family.py` (context x slot x probe + declaration shapes, built with
             the real ast / types classes and a real Context; 21 673 members, 13 400 expressible): quick = a slice of 900
             members that contains every probe (all call shapes: callee kind x fixed parameters x vararg element x 0/1/2
             vararg values), every slot, every context and the program-level shapes, thorough = 5 000 (C02_FAMILY_THOROUGH=all
             for the whole family).  Per member: by-value export unchanged by the translation, model text == real text
             (also without package), javac accepts the real text when the member is a valid target program (members that
             are well-formed IR but no Java, e.g. a literal as a statement, are text-compared only).  A text difference
             starts a failing-input search: javac on the differing members and their neighbours in the family.
coverage    : (d) `harness/cov_trans.py` (sys.monitoring, Python 3.12): calls per visit_* method, lines and both outcomes
             of every conditional jump of src/translators/java.py, for the family, the random stream (pipeline plugin) and
             their union; evidence key translator_coverage; the outcomes never taken must be in DEAD (11 outcomes that no
             well-typed program reaches, each with its reason), anything else is logged as COVERAGE-GAP.
failing input: a javac error in an emitted Main.java — replay = (seed, switches, stage) + file +
             javac message, signature = shape of the diagnostic ("java:<stage>:<construct>:<message>").
             A verdict that differs between batch sizes is a failing input of the batching clause.
"""
import os
import re
import shutil
import subprocess
import tempfile
import time
from concurrent.futures import ThreadPoolExecutor

import common
from common import HarnessError
import pipeline
import trans_java
import cov_trans
import c02_family

LEVEL = "proof"
MAX_DEPTH = 6
CAP = 60


# =================================================================== programs
def make_specs(run, n, quick):
    """quick: depths 6/5/4 in turn and a 40 s cap (generation at depth 6 takes up to a minute on a loaded machine);
    thorough: the tool's default depth 6 for three programs of four"""
    sws = pipeline.all_switch_settings()
    seeds = run.rng.sample(range(1, 10 ** 6), n)
    specs = []
    depths = (6, 5, 4) if quick else (6, 6, 5, 6)
    for i, s in enumerate(seeds):
        pkg = "q%05d" % i
        specs.append({"lang": "java", "seed": s, "switches": list(sws[i % 16]), "max_depth": depths[(i // 16 + i) % len(depths)],
                      "stages": ["gen", "erase"], "export": False, "translate": ["java"], "cap": 40 if quick else CAP,
                      "plugins": ["trans_java", "cov_trans"], "cov_module": "src.translators.java",
                      "package": "src." + pkg, "pkg": pkg})
    return specs


def run_budgeted(run, specs, budget_s):
    """`pipeline.run_many` with a wall-clock budget for the whole set (quick tier: the machine is shared, generation
    at depth 6 can take a minute under load): programs not finished when the budget ends are counted, not compared"""
    import multiprocessing as mp
    ctx = mp.get_context("fork")
    workers = min(14, max(1, (os.cpu_count() or 2) - 2))
    pool = ctx.Pool(workers, initializer=pipeline._worker_init, maxtasksperchild=50)
    try:
        pending = [pool.apply_async(pipeline.run_one, (sp,)) for sp in specs]
        deadline = time.time() + budget_s
        results = []
        for a in pending:
            try:
                results.append(a.get(timeout=max(0.05, deadline - time.time())))
            except mp.TimeoutError:
                run.tally("pipeline", "not-finished-within-quick-budget")
        return results
    finally:
        pool.terminate()
        pool.join()


def replay_key(spec, stage):
    return {"lang": "java", "seed": spec["seed"], "switches": list(spec["switches"]), "max_depth": spec["max_depth"],
            "stage": stage, "package": spec["package"]}


# =================================================================== (a) text equality
DECL_RE = re.compile(r"^(?:(?:final |abstract )*(?:class|interface) \w+|  static .*|interface Function\d+.*)", re.M)


def enclosing_decl(text, pos):
    last = None
    for m in DECL_RE.finditer(text):
        if m.start() > pos:
            break
        last = m.group(0)
    return (last or "")[:160]


def first_diff(a, b):
    n = min(len(a), len(b))
    for i in range(n):
        if a[i] != b[i]:
            return i
    return n


FEATURES = [
    ("block-as-Function0-lambda", "((Function0<"), ("instanceof-pattern", " instanceof "), ("is-renaming", "_is"),
    ("diamond", "<>("), ("Main-prefix", "Main."), ("nested-function-interface", "> -> ") , ("apply-call", ".apply("),
    ("x-sugar", " x_"), ("return-null", "return null;"), ("number-box-cast", "(Number) new "), ("long-cast", "(long)"),
    ("short-cast", "(short)"), ("byte-cast", "(byte)"), ("float-cast", "(float)"), ("generic-array", ") new Object["),
    ("vararg", "..."), ("super-call", "super("), ("func-ref", "::"), ("this-func-ref", "this::"), ("Main-func-ref", "Main::"),
    ("wildcard-extends", "? extends "), ("wildcard-super", "? super "), ("bounded-type-param", " extends "),
    ("implements", " implements "), ("abstract-method", "abstract "), ("bottom-cast", ") null"), ("lambda", ") -> "),
    ("conditional", ") ?\n"), ("assignment-field", "this."), ("empty-class", " {}"), ("nested-Function-decl", "Function2<"),
]


def tally_features(run, text):
    for name, needle in FEATURES:
        if needle in text:
            run.tally("model_branch_features(programs containing)", name)


def count_kinds(j, acc):
    if isinstance(j, dict):
        k = j.get("n")
        if k:
            acc[k] = acc.get(k, 0) + 1
        for v in j.values():
            count_kinds(v, acc)
    elif isinstance(j, list):
        for v in j:
            count_kinds(v, acc)


def text_stream(run, st, results):
    """model text == real text for every (program, stage); returns the list of emitted files"""
    reqs, metas = [], []
    for r in results:
        spec = r["spec"]
        st.setdefault("cov_reports", []).append((r.get("plugins") or {}).get("cov_trans"))
        if "cutoff" in r:
            run.tally("pipeline", "cutoff:" + str(r["cutoff"]))
        if "exception" in r:
            run.tally("pipeline", "exception:%s:%s" % (r["exception"]["stage"], r["exception"]["type"]))
        for stage, d in r["stages"].items():
            if "java_export" not in d or "texts" not in d:
                continue
            run.tally("pipeline", "stage:" + stage)
            reqs.append(trans_java.request(d["java_export"], spec["package"]))
            metas.append((spec, stage, d["texts"]["java"], d.get("is_transformed")))
    if not reqs:
        raise HarnessError("the pipeline produced no program")
    t0 = time.time()
    answers = common.run_driver(reqs)
    st["driver_s"] = round(time.time() - t0, 1)
    files = []
    kinds = {}
    for rq, (spec, stage, real, transformed), a in zip(reqs, metas, answers):
        if "error" in a:
            raise HarnessError("driver error on seed %s stage %s: %s" % (spec["seed"], stage, a["error"]))
        model = a["r"]
        count_kinds(rq["decls"], kinds)
        run.cov["traces_validated_against_impl"] += 1
        run.count({"seed": spec["seed"], "switches": spec["switches"], "stage": stage, "chars": len(real)},
                  nontrivial=len(rq["decls"]) > 1)
        run.tally("ops", "trans.java")
        tally_features(run, model)
        files.append({"spec": spec, "stage": stage, "text": real, "pkg": spec["pkg"],
                      "transformed": transformed})
        if trans_java.MODEL["fuel_mark"] in model:
            st["diffs"].append({"kind": "fuel", "replay": replay_key(spec, stage)})
            continue
        if model == real:
            st["equal"] += 1
            continue
        i = first_diff(model, real)
        rec = {"replay": replay_key(spec, stage), "first_diff_at": i, "enclosing_declaration": enclosing_decl(real, i),
               "real": real[max(0, i - 100):i + 100], "model": model[max(0, i - 100):i + 100]}
        if "<<ERROR:unmodelled" in model:
            m = re.search(r"<<ERROR:(unmodelled[^>]*)>>", model)
            run.tally("unmodelled_constructs(programs)", m.group(1) if m else "unmodelled")
            st["unmodelled"].append(rec)
        else:
            st["diffs"].append(rec)
            run.log("TEXT DIFF seed=%s stage=%s at %d in %r\n   real : %r\n   model: %r" % (
                spec["seed"], stage, i, rec["enclosing_declaration"], rec["real"], rec["model"]))
    run.cov["node_kinds_visited"] = dict(sorted(kinds.items()))
    balance_stream(run, st, metas, answers)
    return files, reqs, metas


def balance_stream(run, st, metas, answers):
    """bracket balance (javaText_balanced_full): the Lean scanner `Spec/JavaBalance.scan` (driver op java.scan) runs on
    every REAL emitted text; the hypotheses of the theorem (atomsOKL decls, envOK context, bracket-free package: `hyps`
    of the trans.java answer, computed by the Lean deciders on the exported program) say whether the theorem speaks
    about the program.  unbalanced + hypotheses hold = failing input; unbalanced + hypotheses do not hold = counted.
    A mutant of every text (one closing brace dropped / one parenthesis added) must be rejected by the scanner."""
    reals = [m[2] for m in metas]
    mutants = []
    for t in reals:
        i = t.rfind("}")
        mutants.append(t[:i] + t[i + 1:] if i >= 0 else t + "(")
    ans = common.run_driver([{"op": "java.scan", "text": t} for t in reals + mutants])
    b = st.setdefault("balance", {"texts_scanned": 0, "balanced": 0, "covered_by_theorem": 0, "outside_fragment": 0,
                                  "outside_fragment_unbalanced": 0, "covered_and_unbalanced": 0,
                                  "model_text_balanced": 0, "scanner_mutants_rejected": 0, "scanner_mutants": 0,
                                  "hypothesis_failing_part": {}})
    n = len(reals)
    for k, ((spec, stage, real, _), a) in enumerate(zip(metas, answers)):
        sc = ans[k]
        if "error" in sc or "error" in ans[n + k]:
            raise HarnessError("driver error (java.scan): %s" % (sc.get("error") or ans[n + k].get("error")))
        if "hyps" not in a:
            raise HarnessError("driver answer without `hyps` (stale hephdrv?)")
        run.tally("ops", "java.scan")
        b["texts_scanned"] += 1
        b["scanner_mutants"] += 1
        b["scanner_mutants_rejected"] += 0 if ans[n + k]["r"] else 1
        b["model_text_balanced"] += 1 if a.get("balanced") else 0
        ok, hyps = bool(sc["r"]), bool(a["hyps"])
        b["balanced"] += 1 if ok else 0
        if hyps:
            b["covered_by_theorem"] += 1
        else:
            b["outside_fragment"] += 1
            for part, v in sorted(a.get("hyps_parts", {}).items()):
                if not v:
                    b["hypothesis_failing_part"][part] = b["hypothesis_failing_part"].get(part, 0) + 1
        if not ok:
            if hyps:
                b["covered_and_unbalanced"] += 1
                st.setdefault("unbalanced", []).append({"replay": replay_key(spec, stage), "stage": stage, "text": real})
            else:
                b["outside_fragment_unbalanced"] += 1
        if hyps and not a.get("balanced"):
            # the theorem says this cannot happen for the MODEL's text: the driver and the proved model disagree
            st["diffs"].append({"kind": "theorem-contradicted-by-driver", "replay": replay_key(spec, stage)})
    if b["scanner_mutants_rejected"] != b["scanner_mutants"]:
        raise HarnessError("the bracket scanner accepted a text with a dropped closing brace")
    run.cov["bracket_balance"] = b


def history_stream(run, st, reqs, metas, k):
    """C11 part for Java, model side: the text after translating other programs on the same
    translator state equals the text of a fresh translator (hypothesis-free consequence of
    `java_program_resets`, checked through the driver's `history`)"""
    if len(reqs) < 3:
        return
    idx = sorted(run.rng.sample(range(len(reqs)), min(k, len(reqs))))
    rqs = []
    for i in idx:
        others = [j for j in range(len(reqs)) if j != i]
        hs = run.rng.sample(others, 2)
        hist = [({kk: reqs[h][kk] for kk in ("lang", "tt", "decls", "context", "ctxvals")}, reqs[h]["package"]) for h in hs]
        exp = {kk: reqs[i][kk] for kk in ("lang", "tt", "decls", "context", "ctxvals")}
        rqs.append(trans_java.request(exp, reqs[i]["package"], history=hist))
    ans = common.run_driver(rqs)
    for i, a in zip(idx, ans):
        if "error" in a:
            raise HarnessError("driver error (history): " + a["error"])
        run.tally("ops", "trans.java+history")
        run.cov["traces_validated_against_impl"] += 1
        if a["r"] != metas[i][2] and not any(d.get("replay") == replay_key(metas[i][0], metas[i][1]) for d in st["diffs"] + st["unmodelled"]):
            st["diffs"].append({"kind": "history", "replay": replay_key(metas[i][0], metas[i][1])})
        if not a.get("reset", False):
            st["diffs"].append({"kind": "state-not-reset", "replay": replay_key(metas[i][0], metas[i][1])})


def real_history(run, st, nprog):
    """C11 part for Java, code side: one JavaTranslator object used for several programs gives
    the text of a fresh translator, and its attributes afterwards equal the post-construction ones"""
    from src import utils
    from src.translators.java import JavaTranslator
    progs = []
    for i in range(nprog):
        seed = run.rng.randrange(10 ** 6)
        try:
            progs.append((seed, pipeline.generate("java", seed, (i % 2, 0, (i // 2) % 2, 0), 4 if run.tier == "quick" else 5)))
        except Exception as e:     # a generator failure is C18's business
            run.tally("pipeline", "exception:history-gen:" + type(e).__name__)
    if len(progs) < 2:
        return
    fresh = [utils.translate_program(JavaTranslator("src.h%d" % i, {}), p) for i, (_, p) in enumerate(progs)]
    snap0 = {k: repr(v) for k, v in JavaTranslator("src.h", {}).__dict__.items() if k not in ("program", "package")}
    for order in (list(range(len(progs))), list(reversed(range(len(progs))))):
        for i in order:
            tr = JavaTranslator("src.h%d" % i, {})
            for j in order:
                if j != i:
                    tr.package = "src.h%d" % j
                    utils.translate_program(tr, progs[j][1])
            tr.package = "src.h%d" % i
            t = utils.translate_program(tr, progs[i][1])
            run.tally("ops", "real-translator-reuse")
            snap = {k: repr(v) for k, v in tr.__dict__.items() if k not in ("program", "package")}
            if t != fresh[i] or snap != snap0:
                st["diffs"].append({"kind": "real-translator-history", "seeds": [s for s, _ in progs], "target": progs[i][0],
                                    "state_differs": sorted(k for k in snap if snap[k] != snap0.get(k))})


# =================================================================== (b) javac
def tool_run_command(args, timeout=1500):
    """what hephaestus.run_command does on POSIX: arguments joined by blanks and run through the
    shell (which expands `*/*.java`), stderr folded into stdout, bytes decoded as UTF-8"""
    env = os.environ.copy()
    env["JAVA_OPTS"] = "-Xmx8g"
    p = subprocess.Popen(" ".join(args), stdout=subprocess.PIPE, stderr=subprocess.STDOUT, shell=True, env=env)
    try:
        out, _ = p.communicate(timeout=timeout)
    except subprocess.TimeoutExpired:
        p.kill()
        raise HarnessError("javac timed out")
    return out.decode("utf-8") if out else ""


def compile_batch(files):
    """files: list of file records; one javac invocation with the tool's command line, analysed
    with the real analyze_compiler_output.  Returns {pkg: None | [messages]}, crash message, raw output"""
    from src.compilers.java import JavaCompiler
    tmp = tempfile.mkdtemp(prefix="c02_", dir="/tmp")
    try:
        paths = {}
        for f in files:
            d = os.path.join(tmp, "src", f["pkg"])
            os.makedirs(d)
            path = os.path.join(d, "Main.java")
            with open(path, "w", encoding="utf-8") as fh:
                fh.write(f["text"])
            paths[path] = f["pkg"]
        comp = JavaCompiler(os.path.join(tmp, "src"))
        out = tool_run_command(comp.get_compiler_cmd())
        failed, _ = comp.analyze_compiler_output(out)
        verdict = {f["pkg"]: None for f in files}
        stray = []
        for path, msgs in (failed or {}).items():
            if path in paths:
                verdict[paths[path]] = list(msgs)
            else:
                stray.append(path)
        return verdict, comp.crash_msg, out.replace(tmp, "<tmp>"), stray
    finally:
        shutil.rmtree(tmp, ignore_errors=True)


def diag_block(output, pkg):
    """the lines javac printed for the first error of <tmp>/src/<pkg>/Main.java (header + quoted source + caret …)"""
    lines = output.split("\n")
    key = "<tmp>/src/%s/Main.java:" % pkg
    for i, l in enumerate(lines):
        if l.startswith(key) and " error: " in l:
            blk = [l]
            for m in lines[i + 1:i + 12]:
                if m.startswith("<tmp>/") or re.match(r"^\d+ errors?$", m):
                    break
                blk.append(m)
            return blk
    return []


def source_statement(text, lineno):
    """the statement around a source line: back to the previous line ending in ';' '{' or '}'"""
    ls = text.split("\n")
    i = max(0, min(len(ls) - 1, lineno - 1))
    a = i
    while a > 0 and not ls[a - 1].rstrip().endswith((";", "{", "}")):
        a -= 1
    b = i
    while b < len(ls) - 1 and not ls[b].rstrip().endswith((";", "{", "}")):
        b += 1
    return "\n".join(ls[a:b + 1])


def signature(stage, text, msgs, block):
    """stable shape of a rejection: stage, construct (from the offending statement), message class"""
    first = msgs[0] if msgs else ""
    m = re.match(r"(\d+): error: (.*)", first)
    lineno = int(m.group(1)) if m else 1
    msg = (m.group(2) if m else first).strip()
    head = msg.split(":")[0].split(";")[0].strip().lower()
    head = re.sub(r"\b(class|method|variable|constructor|interface)\s+\S+", r"\1", head)
    head = re.sub(r"[^a-z]+", "-", head).strip("-")[:48] or "error"
    stmt = source_statement(text, lineno)
    line = text.split("\n")[lineno - 1] if 0 < lineno <= len(text.split("\n")) else ""
    detail = " ".join(block[1:])
    if "<>(" in stmt and ") ?\n" in stmt and stmt.count("<>(") >= 2:
        construct = "diamond-in-conditional-branches"
    elif "<>(" in line:
        construct = "diamond"
    elif "((Function0<" in line or "((Function0<" in stmt and "instanceof" in stmt:
        construct = "block-lambda-in-conditional"
    elif ") ?\n" in stmt or " : " in line:
        construct = "conditional"
    elif "::" in line:
        construct = "function-reference"
    elif ") -> " in line:
        construct = "lambda"
    elif "? extends" in detail or "? super" in detail or "capture" in detail.lower():
        construct = "wildcard"
    else:
        construct = "other"
    return "java:%s:%s:%s" % (stage, construct, head)


def javac_start(run, ex, files, quick):
    """submit one stage's files (one source tree) as the reference batch and, concurrently, a random sample file by file"""
    byf = {f["pkg"]: f for f in files}
    nalone = 2 if quick else 12
    sample = run.rng.sample(sorted(byf), min(len(byf), nalone))
    return {"files": files, "byf": byf, "t0": time.time(), "nalone": nalone, "batch": ex.submit(compile_batch, files),
            "alone": {p: ex.submit(compile_batch, [byf[p]]) for p in sample}}


def javac_finish(run, st, job, quick):
    """judge the reference batch; compare with the files compiled alone (every rejected file too) and, thorough,
    with batches of other sizes"""
    files, byf, t0, nalone = job["files"], job["byf"], job["t0"], job["nalone"]
    verdict, crash, out, stray = job["batch"].result()
    st["javac_batch_s"] = round(time.time() - t0, 1)
    alone = {p: fu.result() for p, fu in job["alone"].items()}
    alone_s = round(time.time() - t0, 1)
    run.cov.setdefault("javac_batches", []).append(
        {"stage": files[0]["stage"], "files": len(files), "seconds": st["javac_batch_s"], "crash": bool(crash),
         "output_terminated": out == "" or out.endswith("\n")})
    if stray:
        raise HarnessError("javac reported files that were not emitted: %r" % stray[:3])
    for pkg, msgs in verdict.items():
        f = byf[pkg]
        run.tally("javac_verdicts", "%s:%s" % (f["stage"], "rejected" if msgs else "accepted"))
        run.cov["traces_validated_against_impl"] += 1
        if msgs:
            blk = diag_block(out, pkg)
            sig = signature(f["stage"], f["text"], msgs, blk)
            run.tally("javac_rejection_signatures", sig)
            st["rejections"].append({"signature": sig, "file": f, "messages": msgs, "diagnostic": blk})
    if crash:
        st["rejections"].append({"signature": "java:compiler-crash", "file": None, "messages": [str(crash)[:500]], "diagnostic": []})
    # --- batching must not change a verdict
    rejected = [p for p, m in verdict.items() if m and p not in alone][:nalone]
    if rejected:
        with ThreadPoolExecutor(max_workers=6) as ex:
            for p, res in zip(rejected, ex.map(compile_batch, [[byf[p]] for p in rejected])):
                alone[p] = res
        alone_s = round(time.time() - t0, 1)

    def compare(label, batches, outs, seconds):
        nfiles = 0
        for b, (v2, crash2, out2, _) in zip(batches, outs):
            for f in b:
                nfiles += 1
                a, c = bool(verdict[f["pkg"]]), bool(v2[f["pkg"]])
                run.tally("batch_vs_" + label, "same" if a == c else "DIFFERENT")
                if a != c or bool(crash2) != bool(crash) and not crash:
                    st["batch_diffs"].append({"file": f, "batch": label, "verdict_one_batch": verdict[f["pkg"]],
                                              "verdict_" + label: v2[f["pkg"]], "batch_of": len(b)})
                elif a and [m.split(":", 1)[1] for m in verdict[f["pkg"]]] != [m.split(":", 1)[1] for m in v2[f["pkg"]]]:
                    run.tally("batch_vs_" + label, "same-verdict-different-messages")
        bc = run.cov.setdefault("batch_comparisons", {}).setdefault(label, {"batches": 0, "files": 0, "seconds": 0.0})
        bc["batches"] += len(batches)
        bc["files"] += nfiles
        bc["seconds"] = round(bc["seconds"] + seconds, 1)

    compare("alone", [[byf[p]] for p in alone], list(alone.values()), alone_s)
    if not quick:
        order = list(files)
        run.rng.shuffle(order)
        for k in (10, 100, 200):
            part = order[:min(len(order), 40 if k == 10 else 200)]      # 4 batches of 10, 2 of 100, 1 of 200
            batches = [part[i:i + k] for i in range(0, len(part), k)]
            t1 = time.time()
            with ThreadPoolExecutor(max_workers=6) as ex:
                outs = list(ex.map(compile_batch, batches))
            compare("size-%d" % k, batches, outs, time.time() - t1)


# =================================================================== verdict
def file_replay(f):
    if "family_index" in f:
        return {"family_index": f["family_index"], "family_member": f["name"], "stage": "family", "lang": "java",
                "program_export": f.get("export"), "file": "src/%s/Main.java" % f["pkg"]}
    return dict(replay_key(f["spec"], f["stage"]), file="src/%s/Main.java" % f["pkg"])


# never-taken outcomes of conditional jumps of java.py that no well-typed program (and no member of the family) reaches:
# (function suffix, substring of the tested expression, outcome or None, reason)
DEAD = [
    ("get_type_name", "t.is_wildcard()", "true", "a wildcard occurs only as a type argument: printed by type_arg2str, which passes its bound"),
    ("_get_functional_interfaces", 'res != ""', "false", "_function_interfaces always holds 0..3"),
    ("visit_block", "isinstance(children[-1], ast.VariableDeclaration)", "true", "assert: a declaration has a void type hint, taken by the branch before"),
    ("visit_block", "isinstance(children[-1], ast.FunctionReference)", "true", "get_type_hint of a FunctionReference is its signature, a function type: is_lambda is taken first"),
    ("visit_block", "sig", None, "same: the get_function_reference_type branch is behind is_lambda"),
    ("construct_constructor", "isinstance(supercls.class_type, tp.Builtin)", "true", "a builtin superclass raises KeyError in get_superclasses_interfaces first"),
    ("visit_param_decl", "isinstance(node.param_type, tp.ParameterizedType)", "false", "the type of a vararg parameter is Array<T>"),
    ("visit_lambda", "node.body", "false", "a lambda without body exists only while the generator builds it"),
    ("visit_lambda", "body_res", "false", "same"),
    ("visit_array_expr", "isinstance(node.array_type, tp.ParameterizedType)", "false", "an array type is Array<T>"),
    ("visit_is", "for c in children[1:]", "iterate", "Is.children() is [lexpr]"),
]


def coverage_evidence(run, st, fam_cov, quick):
    """which visit_* methods / branches of java.py the explored programs executed (family, random stream, union)"""
    rnd = cov_trans.merge(st.get("cov_reports", []))
    both = cov_trans.merge([fam_cov, rnd])
    if both is None:
        return
    ev = {"union": cov_trans.summary(both, DEAD)}
    for name, rep in (("family", fam_cov), ("random_stream", rnd)):
        if rep:
            s = cov_trans.summary(rep, DEAD)
            ev[name] = {k: s[k] for k in ("conditional_branches", "both_outcomes_taken", "outcomes_total", "outcomes_taken",
                                          "functions_never_called", "never_taken_unexplained")}
            ev[name]["lines_never_executed"] = len(s["lines_never_executed"])
    run.cov["translator_coverage"] = ev
    u = ev["union"]
    run.log("java.py coverage: %d of %d branch outcomes taken (family %s, random stream %s); %d never taken: %d explained dead, %d unexplained" % (
        u["outcomes_taken"], u["outcomes_total"], ev.get("family", {}).get("outcomes_taken"), ev.get("random_stream", {}).get("outcomes_taken"),
        u["outcomes_total"] - u["outcomes_taken"], len(u["never_taken_explained_dead"]), len(u["never_taken_unexplained"])))
    for n in u["never_taken_unexplained"][:12]:
        run.log("   COVERAGE-GAP %s  [%s] never %s (other outcome %d times)" % (n["where"], n["test"][:100], n["never"], n["other_outcome_hits"]))
    return u


def verdict(run, st, proofs_ok):
    best = {}
    for r in st["rejections"]:
        sig = r["signature"]
        size = len(r["file"]["text"]) if r["file"] else 0
        if sig not in best or size < best[sig][0]:
            best[sig] = (size, r)
    for sig, (_, r) in sorted(best.items()):
        rec = {"kind": "failing-input", "what": "javac rejects an emitted Main.java", "javac_messages": r["messages"][:5],
               "diagnostic": r["diagnostic"], "count_in_this_run": sum(1 for x in st["rejections"] if x["signature"] == sig)}
        if r["file"]:
            rec.update(file_replay(r["file"]))
            rec["emitted_file"] = r["file"]["text"]
        run.log("javac rejection %s x%d: %s" % (sig, rec["count_in_this_run"], " | ".join(r["diagnostic"][:4])[:300]))
        run.violation(rec, signature=sig)
    for u in st.get("unbalanced", [])[:3]:
        run.violation(dict(u["replay"], kind="failing-input", emitted_file=u["text"],
                           what="brackets of the emitted Main.java are not balanced although the hypotheses of "
                                "javaText_balanced_full hold for the exported program"),
                      signature="java:%s:unbalanced-brackets" % u["stage"])
    for d in st["batch_diffs"][:3]:
        rec = dict(file_replay(d["file"]), kind="failing-input", what="batching changed a verdict",
                   **{k: v for k, v in d.items() if k != "file"})
        rec["emitted_file"] = d["file"]["text"]
        run.violation(rec, signature="java:batch-changes-verdict:%s" % d["batch"])
    if st["diffs"]:
        d = st["diffs"][0]
        run.violation({"kind": "broken-correspondence", "correspondence": "JavaTranslator vs Model/TransJava (text equality)",
                       "first": d, "differing": len(st["diffs"]), "broken_obligations": run.broken,
                       "note": "javac, the specification-side judge, was run on the REAL text of every explored program; "
                               "its rejections (if any) are reported as failing inputs of their own"},
                      signature="java:model-differs:%s" % d.get("kind", "text"), no_input=True)
    elif not proofs_ok:
        run.violation({"kind": "broken-proof", "obligations": run.broken,
                       "note": "model and translator agree on every explored program and javac accepted them (see evidence)"},
                      signature="proof", no_input=True)


ASSUMPTIONS = [
    "javac acceptance is OBSERVED on the explored programs (javac 17, the tool's own command line), it is not a theorem; no Lean model of Java's static semantics exists",
    "the Lean model reads the program through harness/export_ast.py and harness/trans_java.py (context values in header form); both are trusted translators",
    "_children_res is modelled by return values: a variable/function declaration is visited at the global namespace only as a top-level declaration (holds for every explored program; the real translator's behaviour otherwise is a misaligned pop)",
    "_function_interfaces is a Python set of ints < 8, iterated in ascending order (max_params = 2 in the generator configuration)",
    "get_decl_from_inheritance: the set of supertypes is searched in closure order; Python iterates a hash-ordered set (on the explored programs exactly one supertype declares the attribute); its fallback over find_subtypes of a PARAMETERIZED receiver draws from the RNG and is answered 'unmodelled' by the model (never reached on the explored programs)",
    "tu.get_function_reference_type (reached only when a void function body ends in a function reference whose signature is not a function type) is not modelled: marked text, counted under unmodelled_constructs",
    "Python exceptions inside the translator (None type names, KeyError) are rendered as marked text by the model; a program on which the real translator raises is counted under pipeline exceptions, not compared",
    "javac's default should-stop policy (see C14) is irrelevant here: the expected verdict of every file is 'accepted'",
]


def check(run):
    quick = run.tier == "quick"
    proofs_ok = run.build_and_audit()
    if not os.path.exists(common.DRV):
        raise HarnessError("driver not built: " + common.DRV)
    pipeline.setup()
    run.assumptions += ASSUMPTIONS
    run.cov["rule"] = (
        "case = (seed, 4 generator switches, max_depth, stage gen|erase) of the real pipeline for Java (max_depth <= %d, cap <= %ds); compared: "
        "(a) model text == JavaTranslator text byte for byte; (a'') the Lean bracket scanner on the real text says balanced whenever the "
        "Lean deciders of javaText_balanced_full's hypotheses hold for the exported program (see bracket_balance); (b) javac verdict of the emitted file in one batch (tool's command "
        "line + real analyze_compiler_output) == accepted, and == its verdict when compiled alone / in batches of other sizes. "
        "non-trivial = program with more than one top-level declaration; distinct by (seed, switches, stage)" % (MAX_DEPTH, CAP))
    run.cov["exhaustive"] = False
    # thorough: 400 programs (25 per switch setting) fit the 30-minute budget on the shared machine (measured under load:
    # 600 programs = 18-20 min of pipeline, javac about 1 s per file); C02_PROGRAMS=2400 runs the calibration set of the
    # design (pipeline alone about 75 min)
    n = 60 if quick else int(os.environ.get("C02_PROGRAMS", "400"))
    st = {"diffs": [], "unmodelled": [], "equal": 0, "rejections": [], "batch_diffs": []}
    specs = make_specs(run, n, quick)
    # ---- structured stream first: the hand-built family (its javac batches run while the pipeline generates)
    fam_pool = ThreadPoolExecutor(max_workers=3 if quick else 6)
    fam_recs, fam_cov, fam_futs = c02_family.run_family(run, st, quick, compile_batch, fam_pool)
    t0 = time.time()
    chunk = 320
    files, reqs_all, metas_all = [], [], []
    for a in range(0, len(specs), chunk):
        results = run_budgeted(run, specs[a:a + chunk], 55) if quick else pipeline.run_many(specs[a:a + chunk])
        fs, reqs, metas = text_stream(run, st, results)
        files += fs
        if a == 0:
            history_stream(run, st, reqs, metas, 6 if quick else 40)
        del results, reqs, metas
        run.log("programs %d/%d: %d texts compared, %d equal, %d differ, %d unmodelled (%.0fs)" % (
            min(a + chunk, n), n, len(files), st["equal"], len(st["diffs"]), len(st["unmodelled"]), time.time() - t0))
    run.cov["texts_compared"] = len(files)
    run.cov["texts_equal"] = st["equal"]
    run.cov["texts_unmodelled"] = len(st["unmodelled"])
    run.cov["unmodelled_samples"] = st["unmodelled"][:3]
    # javac: the original and the erased translation of a program carry the same package (as in hephaestus, where the
    # mutated program replaces the original under its package), so the two stages are compiled in separate source trees;
    # batches of at most 400 files per invocation for the reference verdicts (hephaestus' own batches are smaller)
    groups = []
    for stage in ("gen", "erase"):
        fs = [f for f in files if f["stage"] == stage]
        groups += [(fs[a:a + 400], quick or a > 0) for a in range(0, len(fs), 400)]
    t1 = time.time()
    with ThreadPoolExecutor(max_workers=8 if quick else 6) as ex:
        if quick:       # the two stages side by side; the in-process re-use stream runs while javac works
            jobs = [(javac_start(run, ex, fs, q), q) for fs, q in groups if fs]
            real_history(run, st, 3)
            run.log("real translator re-use stream done (%.0fs)" % (time.time() - t1))
            for job, q in jobs:
                javac_finish(run, st, job, q)
        else:           # all reference batches and single files are submitted at once (6 JVMs at a time)
            jobs = [(javac_start(run, ex, fs, q), q) for fs, q in groups if fs]
            real_history(run, st, 6)
            for job, q in jobs:
                javac_finish(run, st, job, q)
    run.log("javac: %d files judged in batches, %d compiled alone as well (%.0fs)" % (
        len(files), run.cov.get("batch_comparisons", {}).get("alone", {}).get("files", 0), time.time() - t1))
    c02_family.finish_javac(run, st, fam_futs, diag_block, signature)
    fam_pool.shutdown()
    u = coverage_evidence(run, st, fam_cov, quick)
    if st.get("family_diff_members") or (quick and u and u["never_taken_unexplained"]):
        # a text difference inside the family, or a branch that the quick slice leaves unexplained: failing-input search
        # over the neighbours of the differing members
        c02_family.search_neighbours(run, st, compile_batch, {r["i"] for r in fam_recs if "skip" not in r}, diag_block, signature)
    run.cov["javac_rejections"] = len(st["rejections"])
    run.cov["batch_verdict_changes"] = len(st["batch_diffs"])
    run.cov["correspondence_differs"] = len(st["diffs"])
    verdict(run, st, proofs_ok)


def replay(run, rp):
    """re-run one recorded case: regenerate the program, compare model and real text, compile the file alone"""
    src = rp.get("first", {}).get("replay") if rp.get("kind") == "broken-correspondence" else rp
    fi = rp.get("family_index", (rp.get("first") or {}).get("family_index"))
    if fi is not None:
        run.build_and_audit()
        pipeline.setup()
        st = {"diffs": [], "unmodelled": [], "equal": 0, "rejections": [], "batch_diffs": []}
        recs, _ = c02_family._translate_members([fi], "r", with_cov=False)
        r = recs[0]
        if "skip" in r:
            raise HarnessError("family member %s is not expressible" % fi)
        a = common.run_driver([trans_java.request(r["java_export"], "src." + r["pkg"])])[0]
        run.cov["rule"] = "replay of one family member"
        run.count({"family": fi}, nontrivial=True)
        run.log("family member %d %s: text equal %s" % (fi, r["name"], a.get("r") == r.get("real")))
        if a.get("r") != r.get("real"):
            st["diffs"].append({"kind": "family-text", "family_index": fi, "name": r["name"]})
        if "real" in r:
            f = {"pkg": r["pkg"], "text": r["real"], "stage": "family", "family_index": fi, "name": r["name"]}
            v, crash, out, _ = compile_batch([f])
            if v[f["pkg"]]:
                blk = diag_block(out, f["pkg"])
                st["rejections"].append({"signature": signature("family", f["text"], v[f["pkg"]], blk), "file": f,
                                         "messages": v[f["pkg"]], "diagnostic": blk})
            run.log("javac: %s" % ("rejected " + str(v[f["pkg"]][:2]) if v[f["pkg"]] else "accepted"))
        verdict(run, st, True)
        return
    if not src or "seed" not in src or "switches" not in src:
        raise HarnessError("replay file names no program")
    run.build_and_audit()
    pipeline.setup()
    stage = src.get("stage", "gen")
    pkg = src.get("package", "src.replay")
    spec = {"lang": "java", "seed": src["seed"], "switches": src["switches"], "max_depth": src.get("max_depth", MAX_DEPTH),
            "stages": ["gen", "erase"] if stage == "erase" else ["gen"], "export": False, "translate": ["java"], "cap": 300,
            "plugins": ["trans_java"], "package": pkg, "pkg": pkg.split(".")[-1]}
    r = pipeline.run_one(spec)
    if stage not in r["stages"]:
        raise HarnessError("stage %s not reached on replay: %s" % (stage, r.get("exception") or r.get("cutoff")))
    st = {"diffs": [], "unmodelled": [], "equal": 0, "rejections": [], "batch_diffs": []}
    r["stages"] = {stage: r["stages"][stage]}
    files, _, _ = text_stream(run, st, [r])
    run.cov["rule"] = "replay of one recorded program"
    with ThreadPoolExecutor(max_workers=2) as ex:
        javac_finish(run, st, javac_start(run, ex, files, True), True)
    run.log("text equal: %s; javac rejections: %d" % (st["equal"] == len(files), len(st["rejections"])))
    verdict(run, st, True)
