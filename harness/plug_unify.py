"""pipeline plugin: record every call of `type_utils.unify_types` (recursive ones included: the
function calls itself through the module global) as a driver request with the implementation's
answer, and judge every non-empty result with the independent judge of unify_lib."""
import json

CAP = 4000


def install(state, spec):
    import src.ir.type_utils as tu
    import unify_lib
    state["orig"] = tu.unify_types
    state["seen"] = set()
    state["records"] = []
    state["judged"] = {"exact": 0, "open": 0, "empty": 0, "none": 0, "bad": 0}
    state["bad"] = []
    state["calls"] = 0
    variant = spec.get("unify_variant")
    orig = state["orig"]

    def wrapped(t1, t2, factory, same_type=True):
        state["calls"] += 1
        if len(state["records"]) >= CAP:
            return orig(t1, t2, factory, same_type=same_type)
        box = {}

        def call():
            box["r"] = orig(t1, t2, factory, same_type=same_type)
            return box["r"]
        rq, impl, res = unify_lib.to_request(t1, t2, factory, same_type, variant=variant, call=call)
        key = json.dumps(rq, sort_keys=True, separators=(",", ":"))
        if key not in state["seen"]:
            state["seen"].add(key)
            state["records"].append([rq, impl, bool(res)])
            if res is not None:
                verdict, how = unify_lib.judge(t1, t2, factory, same_type, res)
                state["judged"][how] += 1
                if verdict is not None and len(state["bad"]) < 20:
                    state["bad"].append({"signature": verdict[0], "what": verdict[1], "request": rq,
                                         "implementation": impl})
        if impl is not True:
            # re-raise the implementation's exception unchanged
            return orig(t1, t2, factory, same_type=same_type)
        return res
    tu.unify_types = wrapped


def collect(state):
    return {"records": state.get("records", []), "judged": state.get("judged", {}), "bad": state.get("bad", []),
            "calls": state.get("calls", 0)}


def uninstall(state):
    import src.ir.type_utils as tu
    if "orig" in state:
        tu.unify_types = state["orig"]
