"""Finding 14 (C11): `ClassDeclaration.get_abstract_functions` writes the bound of a type
parameter OBJECT OF THE PROGRAM.

Signature: get_abstract_functions:writes-bound-of-program-type-parameter

src/ir/ast.py, get_abstract_functions:

    new_p = deepcopy(p)
    new_p.param_type = types.substitute_type(new_p.get_type(), type_var_map)
    if new_p.param_type.is_type_var() and new_p.param_type.bound is not None:
        new_p.param_type.bound = _instantiate_type_param_rec(new_p.param_type.bound, type_var_map)

`substitute_type(X, m)` returns `m[X]` itself (types._get_type_substitution ends in `return t`),
and `m` is `tu.get_superclass_type_var_map(super_cls, parent)`, whose values are the type
arguments of the child's SuperClassInstantiation -- objects of the program (here the child's own
type parameter Y).  The assignment to `.bound` therefore changes the program by value.  The same
holds for the return type a few lines below (`ret_type = substitute_type(deepcopy(f.get_type()),
type_var_map)`: the deepcopy is applied to the *key*, the result is still the map's value object).

Constructed class table (the one of the design document; the only adjustment is that C is
declared `abstract`, so that the table is a well-formed Kotlin program -- C does not implement f;
the mutation is the same with a regular C):

    abstract class P<X> { abstract fun f(a: X): Unit }      variant "param" (default)
    abstract class P<X> { abstract fun g(): X }             variant "ret"
    class Lst<T>
    abstract class C<X, W : Lst<X>, Y : W> : P<Y>()

C.get_abstract_functions([P, Lst, C]) builds the map {P.X -> C.Y}; f's parameter type X is
replaced by the object C.Y, C.Y has a bound (W), so C.Y.bound is overwritten with
`_instantiate_type_param_rec(W, {X -> Y})`.  C's own X equals P's X by value (same name, variance,
no bound), hence the parent's map is applied inside the child's own bound: W : Lst<X> becomes
W : Lst<Y : W : Lst<X>>.  Before: Y : W : Lst<X>; after: Y : W : Lst<Y : W : Lst<X>>.

Routes (`reproduce(via=...)`): "direct" (C.get_abstract_functions(class_decls)), "is_sam"
(tu.is_sam(program.context, cls_decl=C); check_decl calls get_abstract_functions before any of
its conditions is evaluated, so there is no short-circuit), "kotlin" (the real KotlinTranslator;
visit_class_decl calls tu.is_sam for every class).

`src` is imported from PYTHONPATH (nothing here names /repo), so the same module runs against a
patched tree: PYTHONPATH=<this dir>:<tree>.
"""
import json
import sys

SIGNATURE = "get_abstract_functions:writes-bound-of-program-type-parameter"
ROUTES = ("direct", "is_sam", "kotlin")
VARIANTS = ("param", "ret")


def _mods():
    """import order matters: random seed, argv (src.args parses it), ast before context"""
    import random
    random.seed(0)
    sys.argv = [sys.argv[0]]
    from src.ir import ast, types as tp, kotlin_types as kt, type_utils as tu, context as ctx
    return ast, tp, kt, tu, ctx


def build(variant="param"):
    """returns (program, {"P": decl, "Lst": decl, "C": decl}) for the table of the docstring"""
    assert variant in VARIANTS, variant
    ast, tp, kt, tu, ctx = _mods()
    CD, FD = ast.ClassDeclaration, ast.FunctionDeclaration

    # abstract class P<X> { abstract fun f(a: X): Unit }   /   { abstract fun g(): X }
    px = tp.TypeParameter("X")
    if variant == "param":
        fun = FD("f", [ast.ParameterDeclaration("a", px)], kt.Unit, None, FD.CLASS_METHOD,
                 is_final=False)
    else:
        fun = FD("g", [], px, None, FD.CLASS_METHOD, is_final=False)
    p_decl = CD("P", [], CD.ABSTRACT, fields=[], functions=[fun], is_final=False,
                type_parameters=[px])

    # class Lst<T>
    lst_decl = CD("Lst", [], CD.REGULAR, fields=[], functions=[], is_final=True,
                  type_parameters=[tp.TypeParameter("T")])

    # abstract class C<X, W : Lst<X>, Y : W> : P<Y>()
    cx = tp.TypeParameter("X")
    cw = tp.TypeParameter("W", bound=tp.ParameterizedType(lst_decl.get_type(), [cx]))
    cy = tp.TypeParameter("Y", bound=cw)
    sup = ast.SuperClassInstantiation(tp.ParameterizedType(p_decl.get_type(), [cy]), [])
    c_decl = CD("C", [sup], CD.ABSTRACT, fields=[], functions=[], is_final=False,
                type_parameters=[cx, cw, cy])

    program = ast.Program(ctx.Context(), "kotlin")
    for d in (p_decl, lst_decl, c_decl):
        program.add_declaration(d)      # context.add_class(('global',), d.name, d) + members
    return program, {"P": p_decl, "Lst": lst_decl, "C": c_decl}


def _describe(c_decl):
    """Y as the class declares it and as the super-instantiation P<Y> carries it"""
    from export import short
    y_decl = c_decl.type_parameters[2]
    y_sup = c_decl.superclasses[0].class_type.type_args[0]
    return {"C.type_parameters[2]": short(y_decl), "P<Y>.type_args[0]": short(y_sup),
            "str(Y.bound)": str(y_decl.bound), "str(Y.bound.bound)": str(y_decl.bound.bound)}


def reproduce(via="direct", variant="param"):
    assert via in ROUTES, via
    ast, tp, kt, tu, ctx = _mods()
    import export_ast
    program, classes = build(variant)
    c_decl = classes["C"]
    before = export_ast.export_program(program)
    d0 = _describe(c_decl)
    result = None
    if via == "direct":
        class_decls = list(program.context.get_classes(("global",), glob=True).values())
        result = sorted(f.name for f in c_decl.get_abstract_functions(class_decls))
    elif via == "is_sam":
        result = tu.is_sam(program.context, cls_decl=c_decl)
    else:
        from src.translators.kotlin import KotlinTranslator
        from src import utils
        result = utils.translate_program(KotlinTranslator("src.pkg", {}), program)
    after = export_ast.export_program(program)
    d1 = _describe(c_decl)
    changed = json.dumps(before, sort_keys=True) != json.dumps(after, sort_keys=True)
    if changed:
        parts = ["%s: '%s' -> '%s'" % (k, d0[k], d1[k]) for k in d0 if d0[k] != d1[k]]
        detail = ("route %s, variant %s: the bound of C's type parameter Y (a program object) was "
                  "rewritten; " % (via, variant)) + "; ".join(parts)
        if not parts:
            detail += "(export differs, Y renders the same)"
    else:
        detail = ("route %s, variant %s: program unchanged by value; Y stays '%s'"
                  % (via, variant, d0["C.type_parameters[2]"]))
    return {"before": before, "after": after, "changed": changed, "detail": detail,
            "signature": SIGNATURE, "via": via, "variant": variant, "result": result}


if __name__ == "__main__":
    import src
    print("src from", list(src.__path__)[0])
    bad = 0
    for variant in VARIANTS:
        for via in ROUTES:
            r = reproduce(via, variant)
            print("changed=%s  %s" % (r["changed"], r["detail"]))
            bad += bool(r["changed"])
    print("routes with a by-value change: %d of %d" % (bad, len(VARIANTS) * len(ROUTES)))
