"""C15 — the driver reports a fault exactly on an oracle mismatch and counts correctly.

proof side : lean/Heph/Props/C15.lean (theorems about lean/Heph/Model/Oracle.lean)
tie to code: `hephaestus.py` is imported in process with a patched `sys.argv`; `run_command`
             is replaced by a scripted compiler whose javac-style output goes through the real
             `JavaCompiler.analyze_compiler_output`; `check_oracle`, `update_stats`,
             `save_stats`, `stop_condition`, `get_batches`, `run` (and `check_oracle_mul`,
             `run_parallel` as validation) run on real directories.  Compared with the model:
             return value / exception, STATS, stats.json, faults.json, the directory tree.
judge      : `judge_check` / `judge_totals` below state the decision table of the property
             in plain Python and judge the real code directly, independently of the model.

The model has two variants (`Variant.asIs` = unchanged tree, `Variant.repaired` = after
fixes/C15-*.diff).  The theorems are claimed for CLAIMED; where the real code differs from
that variant the judge decides whether the property itself fails on that input.
"""
import contextlib
import glob
import io
import json
import os
import re
import shutil
import subprocess
import sys
import tempfile
from collections import OrderedDict

import common

LEVEL = "proof"
CLAIMED = "repaired"
SNBC = "SHOULD NOT BE COMPILED: "
# what the scripted compiler appends when it crashes in a directly scripted batch
CRASH_LINES = "java.lang.AssertionError: boom\n\tat com.sun.tools.javac.Main.compile(Main.java:1)\n"
# what the file-driven scripted compiler prints on a crash (= Heph.Oracle.crashText)
CRASH_TEXT = "java.lang.NullPointerException\n\tat com.sun.tools.javac.Main\n"
WORDS = ["incompatible types", "cannot find symbol", "bad operand", "x", "';' expected", "a: b",
         "String cannot be converted to Integer", "unreachable  statement ", "T#1 is not within bounds"]
KIND_ORDER = {"batch": 0, "saved": 1, "tmp": 2}


def sort_fs(fs):
    return sorted(([k, n] for k, n in fs), key=lambda p: (KIND_ORDER[p[0]], p[1]))


# =============================================================== the real code, in process
class Real:
    """`hephaestus` imported with a patched argv; one fresh session directory per case"""

    def __init__(self):
        shm = "/dev/shm" if os.path.isdir("/dev/shm") and os.access("/dev/shm", os.W_OK) else None
        self.base = tempfile.mkdtemp(prefix="c15_", dir=shm)
        if not re.fullmatch(r"[a-zA-Z0-9/_]+", self.base):
            raise common.HarnessError("scratch path not usable for the javac regex: " + self.base)
        self.bugs = os.path.join(self.base, "bugs")
        argv = sys.argv
        sys.argv = ["hephaestus.py", "--language", "java", "--bugs", self.bugs, "--name", "s0",
                    "--iterations", "4", "--batch", "4", "-t", "0", "-F", os.path.join(self.base, "log")]
        try:
            import hephaestus as H
        finally:
            sys.argv = argv
        if not os.path.abspath(H.__file__).startswith(os.path.abspath(common.REPO)):
            raise common.HarnessError("hephaestus imported from %s, expected %s" % (H.__file__, common.REPO))
        self.H = H
        self.k = 0
        self.orig_tempfile = H.tempfile
        self.orig_gen = H.gen_program
        self.orig_run_command = H.run_command

    def close(self):
        self.H.tempfile = self.orig_tempfile
        self.H.gen_program = self.orig_gen
        self.H.run_command = self.orig_run_command
        shutil.rmtree(self.base, ignore_errors=True)

    # ---- sessions --------------------------------------------------------------------
    def new_session(self):
        H = self.H
        self.k += 1
        name = "s%d" % self.k
        a = H.cli_args
        a.name, a.bugs, a.test_directory = name, self.bugs, os.path.join(self.bugs, name)
        a.seconds, a.stop_cond, a.debug, a.rerun, a.workers, a.dry_run = None, "iterations", False, False, None, False
        H.STATS["Info"]["name"] = name
        H.STATS["totals"] = {"passed": 0, "failed": 0}
        H.STATS["time"] = 0
        H.STATS["compilation_time"] = 0
        H.STATS["faults"] = {}
        H.STOP_COND = False
        self.td = a.test_directory
        self.batches = {}
        self.staged_content = {}

    def bpath(self, n):
        p = self.batches.get(n)
        if p is None:
            p = self.batches[n] = os.path.join(self.base, "bt", "s%d_b%d" % (self.k, n))
        return p

    def fpath(self, n, fid):
        return os.path.join(self.bpath(n), "src", "p%d" % fid, "Main.java")

    def mk(self, path):
        kind, n = path
        if kind == "tmp":
            d = os.path.join(self.td, "tmp", str(n))
            os.makedirs(d, exist_ok=True)
            with open(os.path.join(d, "Main.java"), "w") as f:
                f.write("staged %d in session %d\n" % (n, self.k))
            os.makedirs(os.path.join(d, "sub"), exist_ok=True)
            with open(os.path.join(d, "sub", "Main.java.bin"), "w") as f:
                f.write("bin %d\n" % n)
            self.staged_content[n] = tree(d)
        elif kind == "saved":
            d = os.path.join(self.td, str(n))
            os.makedirs(d, exist_ok=True)
            with open(os.path.join(d, "old"), "w") as f:
                f.write("already there\n")
        elif kind == "batch":
            os.makedirs(os.path.join(self.bpath(n), "src"), exist_ok=True)

    def listing(self):
        fs = []
        for n, p in self.batches.items():
            if os.path.isdir(p):
                fs.append(["batch", n])
        if os.path.isdir(self.td):
            for e in os.listdir(self.td):
                if e.isdigit() and os.path.isdir(os.path.join(self.td, e)):
                    fs.append(["saved", int(e)])
            t = os.path.join(self.td, "tmp")
            if os.path.isdir(t):
                for e in os.listdir(t):
                    if e.isdigit():
                        fs.append(["tmp", int(e)])
        return sort_fs(fs)

    # ---- one batch -------------------------------------------------------------------
    def make_batch(self, b):
        """oracles and compiler output of the batch spec `b` (dir, progs, outcome)"""
        H, n = self.H, b["dir"]
        oracles = OrderedDict()
        have_dir = os.path.isdir(self.bpath(n))
        for p in b["progs"]:
            if p["failed"]:
                oracles[p["pid"]] = H.ProgramRes(True, {"transformations": [], "error": p["err"],
                                                        "program": None, "time": p.get("time", 0)})
                continue
            programs = OrderedDict()
            for fid, exp in p["files"]:
                path = self.fpath(n, fid)
                programs[path] = exp
                if have_dir:
                    os.makedirs(os.path.dirname(path), exist_ok=True)
                    with open(path, "w") as f:
                        f.write("class Main {}\n")
            oracles[p["pid"]] = H.ProgramRes(False, {"transformations": [], "error": p["err"],
                                                     "programs": programs, "time": p.get("time", 0)})
        out = compiler_text(b["outcome"], lambda fid: self.fpath(n, fid))
        return oracles, out

    def canon_msg(self, m, n):
        return m.replace(self.bpath(n), "$D") if isinstance(m, str) else m

    def call_check(self, b, pool=False):
        """check_oracle (or check_oracle_mul) on the batch spec; returns the observation"""
        H, n = self.H, b["dir"]
        oracles, out = self.make_batch(b)
        H.run_command = lambda args, get_stdout=True: (False, out)
        obs = {"status": "ok", "swallowed": None}
        buf = io.StringIO()
        try:
            with contextlib.redirect_stdout(buf):
                res, _ = (H.check_oracle_mul if pool else H.check_oracle)(self.bpath(n), oracles)
        except Exception as e:  # the exception class is the observation
            obs["status"] = type(e).__name__
            obs["culprit"] = culprit_pid(getattr(e, "filename", None), self.td)
            res = None
        if pool and "Internal error while checking the oracle" in buf.getvalue():
            txt = buf.getvalue()
            obs["swallowed"] = ("FileExistsError" if "File exists" in txt else
                                "FileNotFoundError" if "No such file" in txt else
                                "TypeError" if "concatenate" in txt else "Exception")
            m = re.search(r"'([^']+)'", txt)
            obs["culprit"] = culprit_pid(m.group(1) if m else None, self.td)
        obs["res"] = res
        if res is not None:
            obs["reported"] = [[pid, self.canon_msg(st["error"], n)] for pid, st in res.items()]
        obs["fs"] = self.listing()
        obs["saved_content"] = {p[1]: tree(os.path.join(self.td, str(p[1]))) for p in obs["fs"] if p[0] == "saved"}
        obs["staged_content"] = dict(self.staged_content)
        return obs

    def saved_files(self):
        """(STATS view, JSON files view) of the statistics"""
        H = self.H
        mem = {"passed": H.STATS["totals"]["passed"], "failed": H.STATS["totals"]["failed"],
               "time": H.STATS["time"], "faults": [[str(k), v["error"]] for k, v in H.STATS["faults"].items()]}
        sj, fj = os.path.join(self.td, "stats.json"), os.path.join(self.td, "faults.json")
        disk = None
        if os.path.exists(sj) and os.path.exists(fj):
            s = json.load(open(sj))
            f = json.load(open(fj), object_pairs_hook=OrderedDict)
            disk = {"passed": s["totals"]["passed"], "failed": s["totals"]["failed"], "time": s["time"],
                    "faults": [[k, v["error"]] for k, v in f.items()], "has_faults_key": "faults" in s}
        return mem, disk


def tree(d):
    out = {}
    for root, _, files in os.walk(d):
        for f in files:
            p = os.path.join(root, f)
            out[os.path.relpath(p, d)] = open(p).read()
    return out


def culprit_pid(filename, td):
    """the program a FileExistsError / FileNotFoundError of shutil points at"""
    if not isinstance(filename, str):
        return None
    rel = os.path.relpath(filename, td)
    parts = rel.split(os.sep)
    if parts[0] == "tmp" and len(parts) > 1 and parts[1].isdigit():
        return int(parts[1])
    if parts[0].isdigit():
        return int(parts[0])
    return None


def compiler_text(outcome, path_of):
    """javac-style output for the scripted verdicts (directly scripted batches)"""
    out = ""
    for fid, msgs in outcome["failed"]:
        for m in msgs:
            out += "%s:%s\n    code\n    ^\n" % (path_of(fid), m)
    if outcome["crash"]:
        out += CRASH_LINES
    return out


def model_batch(b, variant=None):
    """the driver's view of a batch spec: the crash flag becomes the crash message"""
    o = b["outcome"]
    crash = compiler_text(o, lambda fid: "$D/src/p%d/Main.java" % fid) if o["crash"] else None
    r = {"dir": b["dir"], "progs": b["progs"], "outcome": {"failed": o["failed"], "crash": crash}}
    for k in ("fs", "stage", "time"):
        if k in b:
            r[k] = b[k]
    if variant:
        r["variant"] = variant
    return r


# =============================================================== the decision table (judge)
def prog_row(p, rejected, crash):
    if p["failed"]:
        r, cr, ia = "toolfailed", False, False
    else:
        cr = any(e and f in rejected for f, e in p["files"])
        ia = any((not e) and f not in rejected for f, e in p["files"])
        r = "both-mismatches" if cr and ia else "correct-rejected" if cr else "incorrect-accepted" if ia else "conforming"
    faulty = bool(p["failed"] or crash or cr or ia)
    return r + ("-in-crashed-batch" if crash else ""), faulty, cr, ia


def contains_block(msg, block):
    ls, bs = msg.split("\n"), block.split("\n")
    return any(ls[i:i + len(bs)] == bs for i in range(len(ls) - len(bs) + 1))


def message_ok(p, rejected, crash_text, cr, ia, msg):
    """does a reported fault carry the corresponding message?"""
    if p["failed"]:
        return msg == p["err"]
    if crash_text is not None:
        return msg == crash_text
    if not isinstance(msg, str):
        return False
    parts = []
    for f, e in p["files"]:
        if e and f in rejected:
            parts.append("\n".join(rejected[f]))
        if (not e) and f not in rejected:
            parts.append(SNBC + p["err"])
    if len(parts) == 1:
        return msg == parts[0]
    return all(contains_block(msg, x) for x in parts)


def in_judged_domain(b, fs=None):
    """hypotheses of the property: programs as gen_program produces them (one file expected
    to compile, at most one expected to be rejected, then with an injected-error text),
    distinct pids, every live program staged, nothing saved yet, batch directory present"""
    pids = [p["pid"] for p in b["progs"]]
    if len(set(pids)) != len(pids):
        return False
    for p in b["progs"]:
        if p["failed"]:
            if not isinstance(p["err"], str):
                return False
            continue
        exps = [e for _, e in p["files"]]
        if exps not in ([True], [True, False]):
            return False
        if exps == [True, False] and not isinstance(p["err"], str):
            return False
    if fs is not None:
        fsl = [list(x) for x in fs]
        if ["batch", b["dir"]] not in fsl:
            return False
        for p in b["progs"]:
            if ["saved", p["pid"]] in fsl:
                return False
            if not p["failed"] and ["tmp", p["pid"]] not in fsl:
                return False
    return True


def judge_check(b, obs):
    """the decision table, stated outright, against what the real code did on batch `b`.
    Returns [(signature, detail)]."""
    o = b["outcome"]
    crash = bool(o["crash"])
    crash_text = model_batch(b)["outcome"]["crash"]
    rejected = {f: ms for f, ms in o["failed"]}
    rows = {p["pid"]: prog_row(p, rejected, crash) for p in b["progs"]}
    fnd = []
    status = obs["swallowed"] or obs["status"]
    if status != "ok":
        row = rows.get(obs.get("culprit"), ("?",))[0]
        return [("check_oracle:%s:%s" % (row, status), {"exception": status, "program": obs.get("culprit")})]
    rep = OrderedDict((pid, m) for pid, m in obs["reported"])
    fs = obs["fs"]
    for p in b["progs"]:
        pid = p["pid"]
        row, faulty, cr, ia = rows[pid]
        if faulty and pid not in rep:
            fnd.append(("check_oracle:%s:not-reported" % row, {"program": pid}))
        elif pid in rep and not faulty:
            fnd.append(("check_oracle:%s:reported-but-not-faulty" % row, {"program": pid}))
        elif faulty and not message_ok(p, rejected, crash_text, cr, ia, rep[pid]):
            fnd.append(("check_oracle:%s:wrong-message" % row, {"program": pid, "message": rep[pid]}))
        saved = ["saved", pid] in fs
        compiler_fault = faulty and not p["failed"]
        if compiler_fault and not saved:
            fnd.append(("check_oracle:%s:test-case-not-saved" % row, {"program": pid}))
        elif saved and not compiler_fault:
            fnd.append(("check_oracle:%s:saved-without-compiler-fault" % row, {"program": pid}))
        elif saved and obs["saved_content"].get(pid) != obs["staged_content"].get(pid):
            fnd.append(("check_oracle:%s:saved-copy-differs" % row, {"program": pid}))
        if not faulty and ["tmp", pid] in fs:
            fnd.append(("check_oracle:%s:staging-copy-left-behind" % row, {"program": pid}))
    for pid in rep:
        if pid not in rows:
            fnd.append(("check_oracle:reported-unknown-program", {"program": pid}))
    if ["batch", b["dir"]] in fs:
        fnd.append(("check_oracle:batch-directory-left-behind", {}))
    return fnd


def judge_totals(sizes, reported_pids, mem, disk, at_least_one_update):
    """passed + failed = programs processed; the faults file lists exactly the reported programs"""
    fnd = []
    want_keys = []
    for pid in reported_pids:
        if str(pid) not in want_keys:
            want_keys.append(str(pid))
    for name, view in (("STATS", mem), ("files", disk)):
        if view is None:
            if name == "files" and at_least_one_update:
                fnd.append(("save_stats:files-missing", {}))
            continue
        if view["passed"] + view["failed"] != sum(sizes):
            fnd.append(("update_stats:passed+failed!=processed", {"view": name, "passed": view["passed"],
                                                                  "failed": view["failed"], "processed": sum(sizes)}))
        if [k for k, _ in view["faults"]] != want_keys:
            fnd.append(("update_stats:faults-keys!=reported", {"view": name, "keys": [k for k, _ in view["faults"]],
                                                               "reported": want_keys}))
        if len(set(want_keys)) == len(reported_pids) and view["failed"] != len(want_keys):
            fnd.append(("update_stats:failed!=number-of-faults", {"view": name}))
    if disk is not None and mem is not None:
        if {k: disk[k] for k in mem} != mem:
            fnd.append(("save_stats:files-differ-from-STATS", {"files": disk, "STATS": mem}))
        if disk.get("has_faults_key"):
            fnd.append(("save_stats:stats.json-contains-faults", {}))
    return fnd


# =============================================================== input generation
class Gen:
    def __init__(self, rng):
        self.rng = rng
        self.fid = 0

    def new_fid(self):
        self.fid += 1
        return self.fid

    def msgs(self):
        r = self.rng
        return ["%d: error: %s" % (r.randint(1, 120), r.choice(WORDS)) for _ in range(r.choice([1, 1, 1, 2, 3]))]

    def prog(self, pid, kind):
        """kind: ('tool', staged) | ('c', rejected) | ('ci', correct rejected, incorrect accepted)
        | ('x', [(expected, rejected)...], err or None)  -- free shape (adversarial)"""
        r = self.rng
        rejected = []
        if kind[0] == "tool":
            p = {"pid": pid, "failed": True, "files": [], "err": "tool: %s" % r.choice(WORDS), "time": 0}
            return p, rejected, kind[1]
        if kind[0] == "c":
            shape, err = [(True, kind[1])], None
        elif kind[0] == "ci":
            shape, err = [(True, kind[1]), (False, not kind[2])], "%s expected but %s found in node %s" % (
                r.choice("ABC"), r.choice("DEF"), r.choice("xyz"))
        else:
            shape, err = kind[1], kind[2]
        files = []
        for exp, rej in shape:
            f = self.new_fid()
            files.append([f, exp])
            if rej:
                rejected.append([f, self.msgs()])
        p = {"pid": pid, "failed": False, "files": files, "err": err, "time": r.randint(0, 5)}
        return p, rejected, True

    KINDS = [("tool", False), ("tool", True), ("c", False), ("c", True),
             ("ci", False, False), ("ci", True, False), ("ci", False, True), ("ci", True, True)]

    def rand_kind(self):
        r = self.rng
        x = r.random()
        if x < 0.15:
            return ("tool", r.random() < 0.5)
        if x < 0.35:
            return ("c", r.random() < 0.3)
        return ("ci", r.random() < 0.25, r.random() < 0.3)

    def batch(self, dirn, pids, kinds, crash, noise=True):
        r = self.rng
        progs, failed, fs = [], [], [["batch", dirn]]
        for pid, k in zip(pids, kinds):
            p, rej, staged = self.prog(pid, k)
            progs.append(p)
            failed += rej
            if staged:
                fs.append(["tmp", pid])
        if noise and r.random() < 0.2:
            failed.append([self.new_fid(), self.msgs()])  # an error in a file no oracle mentions
        if noise:
            r.shuffle(failed)
        return {"dir": dirn, "progs": progs, "outcome": {"failed": failed, "crash": bool(crash)}, "fs": fs}

    def rand_pids(self, n, taken=()):
        r = self.rng
        pool = set(taken)
        out = []
        while len(out) < n:
            pid = r.choice([r.randint(0, 30), r.randint(0, 30), r.randint(0, 10 ** 6)])
            if pid not in pool:
                pool.add(pid)
                out.append(pid)
        return out


def history_spec(gen, rng, nrounds, maxsize, defect_rows=True, dup_pids=False):
    """a history of batches as `_run` would produce them (fresh pids, staging of each batch)"""
    rounds, taken = [], []
    for i in range(nrounds):
        n = rng.randint(0, maxsize)
        pids = gen.rand_pids(n, () if dup_pids else taken)
        taken += pids
        kinds = [gen.rand_kind() for _ in range(n)]
        crash = rng.random() < 0.15
        if not defect_rows:
            kinds = [("ci", True, False) if k == ("ci", True, True) else k for k in kinds]
            if crash:
                kinds = [("ci", False, False) if k[0] == "tool" else k for k in kinds]
        b = gen.batch(100 + i, pids, kinds, crash)
        b["stage"] = b.pop("fs")
        b["time"] = sum(p["time"] for p in b["progs"])
        rounds.append(b)
    return {"rounds": rounds, "fs": []}


def run_spec(gen, rng, n, batch, defect_rows=True):
    """a scripted session for `run()`: program number pid is progs[pid-1]"""
    progs = []
    for pid in range(1, n + 1):
        k = gen.rand_kind()
        crash = rng.random() < 0.06
        if not defect_rows and k == ("ci", True, True):
            k = ("ci", False, True)
        p, rej, staged = gen.prog(0, k)
        if not defect_rows and k[0] == "tool":
            crash = False
        progs.append({"prog": p, "staged": staged, "rejected": rej, "crash": crash})
    if not defect_rows:
        # no tool-failed program in a batch that crashes
        for i in range(0, n, batch):
            chunk = progs[i:i + batch]
            if any(c["crash"] for c in chunk) and any(c["prog"]["failed"] for c in chunk):
                for c in chunk:
                    c["crash"] = False
    return {"batch": batch, "progs": progs}


# =============================================================== real sessions through run()
class TempShim:
    """stands in for the module `tempfile` inside hephaestus: records the batch directories"""

    def __init__(self, base):
        self.base, self.dirs = base, []
        os.makedirs(base, exist_ok=True)

    def mkdtemp(self, *a, **kw):
        d = tempfile.mkdtemp(prefix="tmp", dir=self.base)
        self.dirs.append(d)
        return d


def file_compiler(args, get_stdout=True):
    """scripted compiler driven by the content of the source files (works in pool workers)"""
    if len(args) < 3:
        return True, "javac 17.0.0\n"
    out, crash = "", False
    for path in sorted(glob.glob(args[-1])):
        for line in open(path).read().splitlines():
            if line.startswith("ERR "):
                out += "%s:%s\n    code\n    ^\n" % (path, line[4:])
            elif line == "CRASH":
                crash = True
    return False, (CRASH_TEXT if crash else out)


SCRIPT = {}


def scripted_gen(pid, dirname, packages):
    """stands in for gen_program: writes what the script says for program `pid`"""
    import hephaestus as H
    sp = SCRIPT[pid]
    p = sp["prog"]
    td = H.cli_args.test_directory

    def write(path, rej, crash):
        os.makedirs(os.path.dirname(path), exist_ok=True)
        with open(path, "w") as f:
            for m in rej:
                f.write("ERR %s\n" % m)
            if crash:
                f.write("CRASH\n")
    if sp["staged"]:
        d = os.path.join(td, "tmp", str(pid))
        os.makedirs(d, exist_ok=True)
        with open(os.path.join(d, "Main.java"), "w") as f:
            f.write("staged %d\n" % pid)
    rej = {f: ms for f, ms in sp["rejected"]}
    if p["failed"]:
        if sp["crash"] or rej:
            # a generator that failed after writing a file into the batch
            write(os.path.join(dirname, "x%d" % pid, "Main.java"), [m for ms in rej.values() for m in ms], sp["crash"])
        return H.ProgramRes(True, {"transformations": [], "error": p["err"], "program": None, "time": p["time"]})
    programs = OrderedDict()
    for i, (fid, exp) in enumerate(p["files"]):
        path = os.path.join(dirname, "f%d" % fid, "Main.java")
        write(path, rej.get(fid, []), sp["crash"] and i == 0)
        programs[path] = exp
    return H.ProgramRes(False, {"transformations": [], "error": p["err"], "programs": programs, "time": p["time"]})


def real_run(real, spec, mode):
    """H.run() / H.run_parallel() with the scripted generator and compiler"""
    H = real.H
    real.new_session()
    a = H.cli_args
    a.iterations, a.batch = len(spec["progs"]), spec["batch"]
    a.workers = 2 if mode == "pool" else None
    SCRIPT.clear()
    for i, sp in enumerate(spec["progs"]):
        SCRIPT[i + 1] = sp
    shim = TempShim(os.path.join(real.base, "td", "s%d" % real.k))
    H.tempfile, H.gen_program, H.run_command = shim, scripted_gen, file_compiler
    exc_log = os.path.join(real.base, "exc_s%d.log" % real.k)
    orig_check = H.check_oracle

    def logged_check(dirname, oracles):
        # check_oracle_mul swallows exceptions inside a pool worker: leave a trace for the judge
        try:
            return orig_check(dirname, oracles)
        except Exception as e:
            with open(exc_log, "a") as f:
                f.write(json.dumps([type(e).__name__, getattr(e, "filename", None)]) + "\n")
            raise
    H.check_oracle = logged_check
    status, culprit = "ok", None
    buf = io.StringIO()
    try:
        with contextlib.redirect_stdout(buf):
            (H.run_parallel if mode == "pool" else H.run)()
    except Exception as e:
        status = type(e).__name__
        culprit = culprit_pid(getattr(e, "filename", None), real.td)
    finally:
        H.tempfile = real.orig_tempfile
        H.check_oracle = orig_check
    swallowed = []
    if os.path.exists(exc_log):
        for line in open(exc_log):
            name, fn = json.loads(line)
            swallowed.append([name, culprit_pid(fn, real.td)])
    for i, d in enumerate(shim.dirs):
        real.batches[1 + i * spec["batch"]] = d
    mem, disk = real.saved_files()
    view = disk if disk is not None else mem
    ans = {"status": status, "passed": view["passed"], "failed": view["failed"], "time": view["time"],
           "faults": view["faults"], "fs": real.listing()}
    extra = {"mem": mem, "disk": disk, "culprit": culprit, "swallowed": swallowed, "tmp_root_exists": os.path.exists(os.path.join(real.td, "tmp")),
             "batch_dirs_left": [d for d in shim.dirs if os.path.exists(d)]}
    return ans, extra


def judge_run(spec, ans, extra, mode):
    """end-of-session statement, independent of the model: programs 1..N processed in chunks of
    `batch`; faulty per the decision table; counters; nothing left behind but saved test cases"""
    n, bsz = len(spec["progs"]), spec["batch"]
    fnd = []
    rows, faulty_pids, compiler_faults = {}, [], []
    for i in range(0, n, bsz):
        chunk = spec["progs"][i:i + bsz]
        crash = any(c["crash"] for c in chunk)
        for j, c in enumerate(chunk):
            pid = i + j + 1
            rejected = {f: ms for f, ms in c["rejected"]}
            row, faulty, _, _ = prog_row(c["prog"], rejected, crash)
            rows[pid] = row
            if faulty:
                faulty_pids.append(pid)
                if not c["prog"]["failed"]:
                    compiler_faults.append(pid)
    if ans["status"] != "ok":
        row = rows.get(extra["culprit"], "?")
        return [("check_oracle:%s:%s" % (row, ans["status"]), {"exception": ans["status"], "program": extra["culprit"],
                                                               "mode": mode})]
    if mode == "pool" and extra["swallowed"]:
        # check_oracle_mul turned an exception into "nothing to report": name the root cause only
        return [("check_oracle:%s:%s" % (rows.get(pid, "?"), name), {"exception": name, "program": pid, "mode": mode,
                                                                    "note": "swallowed by check_oracle_mul"})
                for name, pid in extra["swallowed"]]
    keys = [int(k) for k, _ in ans["faults"]]
    if mode == "pool":
        keys = sorted(keys)
    for pid in faulty_pids:
        if pid not in keys:
            fnd.append(("check_oracle:%s:not-reported" % rows[pid], {"program": pid, "mode": mode}))
    for pid in keys:
        if pid not in faulty_pids:
            fnd.append(("check_oracle:%s:reported-but-not-faulty" % rows.get(pid, "?"), {"program": pid, "mode": mode}))
    if not fnd and keys != faulty_pids:
        fnd.append(("update_stats:faults-order", {"keys": keys, "faulty": faulty_pids}))
    if ans["passed"] + ans["failed"] != n:
        fnd.append(("update_stats:passed+failed!=processed", {"passed": ans["passed"], "failed": ans["failed"], "n": n}))
    if not fnd and ans["failed"] != len(faulty_pids):
        fnd.append(("update_stats:failed!=number-of-faults", {}))
    saved = [p[1] for p in ans["fs"] if p[0] == "saved"]
    for pid in compiler_faults:
        if pid not in saved and not any(s.endswith(":not-reported") for s, _ in fnd):
            fnd.append(("check_oracle:%s:test-case-not-saved" % rows[pid], {"program": pid}))
    for pid in saved:
        if pid not in compiler_faults:
            fnd.append(("check_oracle:%s:saved-without-compiler-fault" % rows.get(pid, "?"), {"program": pid}))
    if extra["tmp_root_exists"] or any(p[0] == "tmp" for p in ans["fs"]):
        fnd.append(("run:staging-directory-left-behind", {}))
    if extra["batch_dirs_left"]:
        fnd.append(("check_oracle:batch-directory-left-behind", {"n": len(extra["batch_dirs_left"])}))
    if extra["disk"] is not None and {k: extra["disk"][k] for k in extra["mem"]} != extra["mem"]:
        fnd.append(("save_stats:files-differ-from-STATS", {}))
    return fnd


# =============================================================== real histories (direct calls)
def real_history(real, spec, mode):
    """check_oracle + update_stats per round on a fresh session; judged round by round"""
    H = real.H
    real.new_session()
    for p in spec["fs"]:
        real.mk(p)
    status, findings, sizes, reported, updates, culprit_row = "ok", [], [], [], 0, None
    for b in spec["rounds"]:
        for p in b["stage"]:
            real.mk(p)
        before = real.listing()
        obs = real.call_check(b, pool=(mode == "pool"))
        if in_judged_domain(b, before):
            findings += judge_check(b, obs)
        if obs["status"] != "ok":
            status = obs["status"]
            break
        with contextlib.redirect_stdout(io.StringIO()):
            H.update_stats((obs["res"], 0.25), len(b["progs"]), b["time"])
        updates += 1
        sizes.append(len(b["progs"]))
        reported += [pid for pid, _ in obs["reported"]]
    mem, disk = real.saved_files()
    findings += judge_totals(sizes, reported, mem, disk, updates > 0)
    view = disk if disk is not None else mem
    canon = {}
    for b in spec["rounds"]:
        canon[real.bpath(b["dir"])] = "$D"
    faults = []
    for k, m in view["faults"]:
        for path in canon:
            if isinstance(m, str):
                m = m.replace(path, "$D")
        faults.append([k, m])
    ans = {"status": status, "passed": view["passed"], "failed": view["failed"], "time": view["time"],
           "faults": faults, "fs": real.listing()}
    return ans, findings


def model_history(spec, variant, mode):
    return {"op": "oracle.session", "variant": variant, "mode": mode, "fs": spec["fs"],
            "rounds": [model_batch(b) for b in spec["rounds"]]}


# =============================================================== bookkeeping of findings
class Findings:
    """first (smallest) witness per signature; emitted once at the end"""

    def __init__(self):
        self.by_sig = OrderedDict()
        self.model_differs = OrderedDict()

    def add(self, sig, replay, size):
        cur = self.by_sig.get(sig)
        if cur is None or size < cur[1]:
            self.by_sig[sig] = (replay, size)

    def differs(self, sig, replay, size):
        cur = self.model_differs.get(sig)
        if cur is None or size < cur[1]:
            self.model_differs[sig] = (replay, size)

    def emit(self, run):
        for sig, (rp, _) in self.by_sig.items():
            run.violation(rp, signature=sig)
        for sig, (rp, _) in self.model_differs.items():
            run.violation(rp, signature=sig, no_input=True)


def size_of(spec):
    if "rounds" in spec:
        return sum(len(b["progs"]) + 1 for b in spec["rounds"]) + 1000
    if "batch" in spec and "progs" in spec and "dir" not in spec:
        return len(spec["progs"]) + 2000
    return len(spec["progs"])


TREE = {"variant": None}
VARIANT_NAMES = {(False, False): "asis", (True, True): "repaired", (True, False): "both-only", (False, True): "crash-only"}


def detect_tree_variant(real, gen):
    """which of the two repairs does the tree under test contain?  Decided on the two rows of
    the design round; the exact correspondence is then demanded of that model variant, while
    the judge and the theorems speak about CLAIMED."""
    b1 = gen.batch(1, [5], [("ci", True, True)], False, noise=False)
    a1, _ = real_check_answer(real, b1)
    b2 = gen.batch(2, [6, 7], [("ci", False, False), ("tool", False)], True, noise=False)
    a2, _ = real_check_answer(real, b2)
    both_fix = a1["status"] == "ok"
    crash_fix = a2["status"] == "ok" and 7 in [pid for pid, _ in a2["reported"]]
    TREE["variant"] = VARIANT_NAMES[(both_fix, crash_fix)]
    return TREE["variant"]


def compare_case(fx, stream, spec, real_ans, model_ans, findings, extra=None):
    """the judge's findings on the real behaviour + exact correspondence with the model
    variant that describes the tree under test"""
    tree = model_ans[TREE["variant"]]
    claimed = model_ans[CLAIMED]
    sz = size_of(spec)
    for sig, detail in findings:
        fx.add(sig, {"kind": "failing-input", "stream": stream, "spec": spec, "judge": detail,
                     "implementation": real_ans, "model_claimed": claimed, "claimed_variant": CLAIMED,
                     "tree_variant": TREE["variant"]}, sz)
    if real_ans != tree and not findings:
        fx.differs("%s:model-differs" % stream,
                   {"kind": "broken-correspondence", "stream": stream, "spec": spec, "implementation": real_ans,
                    "model": tree, "tree_variant": TREE["variant"], "claimed_variant": CLAIMED,
                    "note": "the real code differs from the model variant detected for this tree and the "
                            "decision table finds nothing wrong with what the real code did"}, sz)
    return real_ans == tree, real_ans == claimed


def driver_both(requests):
    """each request once per variant needed (the tree's and the claimed one)"""
    vs = sorted({TREE["variant"], CLAIMED})
    rq2 = []
    for r in requests:
        for v in vs:
            x = dict(r)
            x["variant"] = v
            rq2.append(x)
    ans = common.run_driver(rq2)
    out = []
    for i in range(0, len(ans), len(vs)):
        d = {}
        for v, a in zip(vs, ans[i:i + len(vs)]):
            if "error" in a:
                raise common.HarnessError("driver error: %s on %s" % (a["error"], common.canon(rq2[i])[:300]))
            d[v] = a["r"]
        out.append(d)
    return out


def real_check_answer(real, spec, pool=False):
    real.new_session()
    for p in spec["fs"]:
        real.mk(p)
    obs = real.call_check(spec, pool=pool)
    ans = {"status": obs["status"], "fs": obs["fs"]}
    if obs["status"] == "ok":
        ans["reported"] = obs["reported"]
    return ans, obs


# =============================================================== streams
def corpus_checks(gen):
    """the rows witnessed in the design round first, then one batch per ordinary row"""
    out = []
    out.append(gen.batch(1, [5], [("ci", True, True)], False, noise=False))                    # defect 2
    out.append(gen.batch(2, [6, 7], [("ci", False, False), ("tool", False)], True, noise=False))  # defect 3
    out.append(gen.batch(3, [1, 2, 3, 4], [("ci", False, False), ("ci", True, False), ("ci", False, True),
                                           ("tool", True)], False, noise=False))
    out.append(gen.batch(4, [8, 9], [("c", True), ("c", False)], True, noise=False))
    out.append(gen.batch(5, [], [], False, noise=False))
    out.append(gen.batch(6, [], [], True, noise=False))
    return out


def exhaustive_checks(gen, maxn):
    import itertools
    out = []
    for n in range(0, maxn + 1):
        for kinds in itertools.product(Gen.KINDS, repeat=n):
            for crash in (False, True):
                out.append(gen.batch(10 + n, list(range(1, n + 1)), list(kinds), crash, noise=False))
    return out


def random_checks(gen, rng, count, maxsize):
    out = []
    for _ in range(count):
        n = rng.randint(0, maxsize)
        out.append(gen.batch(rng.randint(0, 50), gen.rand_pids(n), [gen.rand_kind() for _ in range(n)],
                             rng.random() < 0.2))
    return out


def adversarial_checks(gen, rng, count):
    """outside the hypotheses of the property (correspondence only): free file shapes (several
    files expected to compile, rejected-expected first, no injected-error text), staging copy
    missing, test-case directory already there, batch directory missing"""
    out = []
    for _ in range(count):
        n = rng.randint(1, 5)
        kinds = []
        for _ in range(n):
            if rng.random() < 0.5:
                nf = rng.randint(0, 3)
                shape = [(rng.random() < 0.6, rng.random() < 0.45) for _ in range(nf)]
                err = None if rng.random() < 0.3 else "inj %d" % rng.randint(0, 9)
                kinds.append(("x", shape, err))
            else:
                kinds.append(gen.rand_kind())
        b = gen.batch(rng.randint(0, 9), gen.rand_pids(n), kinds, rng.random() < 0.25)
        x = rng.random()
        if x < 0.3 and len(b["fs"]) > 1:
            b["fs"].pop(rng.randrange(1, len(b["fs"])))          # a staging copy is missing
        elif x < 0.5:
            b["fs"].append(["saved", rng.choice(b["progs"])["pid"]])  # test case directory exists already
        elif x < 0.6:
            b["fs"].pop(0)                                         # batch directory missing
        elif x < 0.7:
            b["fs"].append(["tmp", 10 ** 6 + 7])                   # an unrelated staging copy
        out.append(b)
    return out


def stream_checks(run, real, fx, label, specs, pool=False):
    stream = "oracle.check" + ("(pool)" if pool else "")
    models = driver_both([dict(model_batch(s), op="oracle.check") for s in specs])
    eq_claimed = eq_other = judged = 0
    for spec, m in zip(specs, models):
        ans, obs = real_check_answer(real, spec, pool=pool)
        if pool:
            # check_oracle_mul swallows the exception and answers ({}, 0): the model of the
            # pool-mode round is compared in the history streams; here only the judge runs
            m = {k: (v if v["status"] == "ok" else {"status": "ok", "reported": [], "fs": v["fs"]}) for k, v in m.items()}
        dom = in_judged_domain(spec, spec["fs"])
        fnd = judge_check(spec, obs) if dom else []
        judged += dom
        a, b = compare_case(fx, stream, spec, ans, m, fnd)
        eq_claimed += a
        eq_other += b
        run.count({"stream": stream, "spec": spec, "answer": ans}, nontrivial=len(spec["progs"]) > 0)
        run.cov["traces_validated_against_impl"] += 1
        run.tally("ops", stream)
        run.tally("status", ans["status"])
        rejected = {f: ms for f, ms in spec["outcome"]["failed"]}
        for p in spec["progs"]:
            run.tally("rows", prog_row(p, rejected, spec["outcome"]["crash"])[0])
    run.log("stream %s/%s: %d batches, judged by the decision table %d, equal to the tree's model (%s) %d, to the claimed model (%s) %d"
            % (stream, label, len(specs), judged, TREE["variant"], eq_claimed, CLAIMED, eq_other))


def stream_histories(run, real, fx, label, specs, mode):
    stream = "oracle.session(%s)" % mode
    models = driver_both([model_history(s, None, mode) for s in specs])
    eq_claimed = eq_other = 0
    for spec, m in zip(specs, models):
        ans, fnd = real_history(real, spec, mode)
        a, b = compare_case(fx, stream, dict(spec, mode=mode), ans, m, fnd)
        eq_claimed += a
        eq_other += b
        run.count({"stream": stream, "spec": spec, "answer": ans}, nontrivial=len(spec["rounds"]) > 1)
        run.cov["traces_validated_against_impl"] += 1
        run.tally("ops", stream)
        run.tally("history_status", ans["status"])
    run.log("stream %s/%s: %d histories, equal to the tree's model (%s) %d, to the claimed model (%s) %d"
            % (stream, label, len(specs), TREE["variant"], eq_claimed, CLAIMED, eq_other))


def canon_pool(ans):
    a = dict(ans)
    a["faults"] = sorted(a["faults"], key=lambda kv: int(kv[0]))
    return a


def stream_runs(run, real, fx, label, specs, mode, real_answers=None):
    stream = "oracle.run(%s)" % mode
    models = driver_both([{"op": "oracle.run", "mode": mode, "batch": s["batch"], "progs": s["progs"]} for s in specs])
    eq_claimed = eq_other = 0
    for i, (spec, m) in enumerate(zip(specs, models)):
        ans, extra = real_answers[i] if real_answers is not None else real_run(real, spec, mode)
        fnd = judge_run(spec, ans, extra, mode)
        if mode == "pool":
            ans = canon_pool(ans)
            m = {k: canon_pool(v) for k, v in m.items()}
        a, b = compare_case(fx, stream, dict(spec, mode=mode), ans, m, fnd)
        eq_claimed += a
        eq_other += b
        run.count({"stream": stream, "spec": spec, "answer": ans}, nontrivial=len(spec["progs"]) > spec["batch"])
        run.cov["traces_validated_against_impl"] += 1
        run.tally("ops", stream)
        run.tally("run_status", ans["status"])
    run.log("stream %s/%s: %d sessions, equal to the tree's model (%s) %d, to the claimed model (%s) %d"
            % (stream, label, len(specs), TREE["variant"], eq_claimed, CLAIMED, eq_other))


def stream_pure(run, real, fx):
    """stop_condition / get_batches on a grid (pure functions of cli_args)"""
    H = real.H
    a = H.cli_args
    rqs, impl = [], []
    saved = (a.seconds, a.iterations, a.batch, a.stop_cond, H.STOP_COND)
    try:
        for seconds in (None, 0, 1, 7):
            for iterations in (None, 0, 1, 5, 12):
                for batch in (0, 1, 3, 20):
                    a.seconds, a.iterations, a.batch = seconds, iterations, batch
                    a.stop_cond = "timeout" if seconds else "iterations"
                    for stop in (False, True):
                        H.STOP_COND = stop
                        for it in (0, 1, 5, 6, 12, 13, 40):
                            for tp in (0, 1, 6, 7, 8):
                                rqs.append({"op": "oracle.stop_condition", "seconds": seconds, "iterations": iterations,
                                            "batch": batch, "stop": stop, "iteration": it, "time_passed": tp})
                                impl.append(bool(H.stop_condition(it, tp)))
                    H.STOP_COND = False
                    for programs in (0, 1, 4, 5, 11, 12, 30):
                        rqs.append({"op": "oracle.get_batches", "seconds": seconds, "iterations": iterations,
                                    "batch": batch, "programs": programs})
                        try:
                            impl.append(H.get_batches(programs))
                        except TypeError:
                            impl.append("TypeError")
    finally:
        a.seconds, a.iterations, a.batch, a.stop_cond, H.STOP_COND = saved
    diffs = common.compare_stream(run, rqs, impl, "stop_condition/get_batches")
    if diffs:
        _, rq, ia, ma = diffs[0]
        fx.differs("%s:model-differs" % rq["op"], {"kind": "broken-correspondence", "request": rq,
                                                   "implementation": ia, "model": ma}, 0)
    run.log("stream pure: %d requests" % len(rqs))


# =============================================================== pool mode in a child process
def pool_child(spec_file):
    """run_parallel() with the real worker pool on the sessions of `spec_file` (own process:
    own hephaestus globals, and a hang cannot take the check with it)"""
    specs = json.load(open(spec_file))
    real = Real()
    out = []
    try:
        for s in specs:
            ans, extra = real_run(real, s, "pool")
            out.append([ans, extra])
    finally:
        real.close()
    sys.stdout.write("\nPOOL-RESULT " + json.dumps(out) + "\n")


def run_pool_child(run, specs):
    d = tempfile.mkdtemp(prefix="c15pool_")
    try:
        f = os.path.join(d, "specs.json")
        json.dump(specs, open(f, "w"))
        env = dict(os.environ)
        try:
            p = subprocess.run([sys.executable, "-B", os.path.abspath(__file__), "--pool-child", f],
                               stdout=subprocess.PIPE, stderr=subprocess.PIPE, text=True, timeout=600, env=env)
        except subprocess.TimeoutExpired:
            raise common.HarnessError("pool-mode child timed out")
        m = re.search(r"^POOL-RESULT (.*)$", p.stdout, re.M)
        if p.returncode != 0 or not m:
            raise common.HarnessError("pool-mode child failed: rc=%d %s" % (p.returncode, p.stderr[-800:]))
        return [tuple(x) for x in json.loads(m.group(1))]
    finally:
        shutil.rmtree(d, ignore_errors=True)


# =============================================================== the check
def check(run):
    proofs_ok = run.build_and_audit()
    rng = run.rng
    quick = run.tier == "quick"
    real = Real()
    fx = Findings()
    gen = Gen(rng)
    try:
        run.cov["rule"] = (
            "case = one batch (programs x expectation x verdict x tool failure x crash, staged directories), one "
            "history of batches, or one scripted session of run(); exhaustive over all batches of <=%d programs "
            "of the 8 program kinds x crash, then random batches of 0..%d programs with arbitrary pids, random "
            "histories, scripted run() sessions, worker-pool sessions, inputs outside the hypotheses (correspondence "
            "only); non-trivial = non-empty batch / history of >=2 rounds / session of >=2 batches; distinct by "
            "canonical JSON of (spec, answer)" % (2 if quick else 3, 8 if quick else 24))
        run.cov["claimed_variant"] = CLAIMED
        run.cov["tree_variant"] = detect_tree_variant(real, gen)
        run.log("tree under test: %s behaves like model variant '%s'; theorems claimed for '%s'"
                % (common.REPO, TREE["variant"], CLAIMED))
        run.cov["repo"] = common.REPO
        stream_checks(run, real, fx, "corpus", corpus_checks(gen))
        stream_checks(run, real, fx, "exhaustive", exhaustive_checks(gen, 2 if quick else 3))
        stream_checks(run, real, fx, "random", random_checks(gen, rng, 600 if quick else 20000, 8 if quick else 24))
        stream_checks(run, real, fx, "random", random_checks(gen, rng, 100 if quick else 2000, 6), pool=True)
        hs = [history_spec(gen, rng, rng.randint(1, 6), 6, defect_rows=(i % 2 == 0)) for i in range(120 if quick else 3000)]
        stream_histories(run, real, fx, "random", hs, "seq")
        hs = [history_spec(gen, rng, rng.randint(1, 5), 5, defect_rows=(i % 2 == 0)) for i in range(60 if quick else 1500)]
        stream_histories(run, real, fx, "random", hs, "pool")
        hs = [history_spec(gen, rng, rng.randint(2, 5), 4, dup_pids=True) for i in range(40 if quick else 800)]
        stream_histories(run, real, fx, "repeated-pids", hs, "seq")
        rs = [run_spec(gen, rng, rng.randint(1, 12), rng.randint(1, 5), defect_rows=(i % 2 == 0))
              for i in range(80 if quick else 1500)]
        stream_runs(run, real, fx, "random", rs, "seq")
        stream_checks(run, real, fx, "outside-hypotheses", adversarial_checks(gen, rng, 300 if quick else 8000))
        stream_pure(run, real, fx)
        # the real worker pool (validation; callback order is not modelled: faults compared as sets)
        ps = [run_spec(gen, rng, rng.randint(1, 8), rng.randint(1, 3), defect_rows=(i % 2 == 0))
              for i in range(6 if quick else 40)]
        stream_runs(run, real, fx, "worker-pool", ps, "pool", real_answers=run_pool_child(run, ps))
    finally:
        real.close()
    fx.emit(run)
    if not proofs_ok and not run.violations:
        run.violation({"kind": "broken-proof", "obligations": run.broken}, signature="proof", no_input=True)


def replay(run, rp):
    """re-run the recorded spec against the current tree, judge it again"""
    spec, stream = rp["spec"], rp["stream"]
    real = Real()
    fx = Findings()
    run.cov["rule"] = "replay of one case"
    try:
        detect_tree_variant(real, Gen(run.rng))
        if stream.startswith("oracle.check"):
            stream_checks(run, real, fx, "replay", [spec], pool=stream.endswith("(pool)"))
        elif stream.startswith("oracle.session"):
            mode = spec.get("mode", "seq")
            stream_histories(run, real, fx, "replay", [{"rounds": spec["rounds"], "fs": spec["fs"]}], mode)
        elif stream.startswith("oracle.run"):
            mode = spec.get("mode", "seq")
            s = {"batch": spec["batch"], "progs": spec["progs"]}
            if mode == "pool":
                stream_runs(run, real, fx, "replay", [s], "pool", real_answers=run_pool_child(run, [s]))
            else:
                stream_runs(run, real, fx, "replay", [s], "seq")
        else:
            raise common.HarnessError("unknown stream in replay: %s" % stream)
    finally:
        real.close()
    for sig, (r, _) in list(fx.by_sig.items()) + list(fx.model_differs.items()):
        run.log("replay:", sig, json.dumps(r.get("judge", r.get("note", "")))[:300])
    fx.emit(run)


if __name__ == "__main__":
    if len(sys.argv) == 3 and sys.argv[1] == "--pool-child":
        f = sys.argv[2]
        sys.argv = sys.argv[:1]
        pool_child(f)
