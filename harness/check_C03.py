"""C03 — type erasure only removes inferable type information (partial).

proof side : lean/Heph/Props/C03.lean (theorems about lean/Heph/Model/Mutation.lean:
             eraseAt/skeleton/erasureDiff on the by-value IR, the feasibility test on an exported
             type graph through C19's dfs, the enumeration of combinations)
tie to code: real programs through TypeErasure with the recording plugin harness/plugin_tda.py, from
             two streams:
             STRUCTURED (harness/c03_family.py, a fixed number per tier, first): small IR programs
             built by hand with the real src.ir classes from a grammar of erasure-relevant shapes —
             ~50 initializer kinds (constants; `new C<targs>(args)` whose arguments do / do not
             determine the type variables; nested generic constructors; calls of parameterized
             functions whose type parameter occurs only in the result type / also in a parameter
             type, with and without receiver; method calls and field accesses on receivers that are a
             generic `new`, a variable, a field access, a generic call, a conditional; conditionals
             with generic branches; `==` on a generic `new`; chains x declared from y declared from a
             generic call) x declaration kinds (typed local, expression-bodied function, block body
             with returned value, assignment, field assignment, call argument, global, non-final
             local) x expected types (same constructor, parameterized super type, non-generic super
             type, none), every combination that exists, in Java and (rotating) one other language,
             then random compositions of several such declarations in one function (run.rng);
             GENERATED (harness/pipeline.py): Generator -> TypeErasure, within a wall-clock budget.
             Judges, on every program of both streams:
             (a) `mut.erasure_diff` on the by-value exports before/after must answer sites of
                 the three permitted kinds only; an independent by-value walk in Python
                 (`py_erasure_diff`) must find the same sites, and their number must equal the
                 number of annotations the applied combinations removed;
             (b) the model must agree with every recorded answer of `is_combination_feasible`
                 (pre-filter on the shared graph, combination queries on the filtered graph,
                 random extra combinations on the graph as built) and with the combination applied;
             (c) the erased program is judged by the verified checker of C01 (driver op "check.wt",
                 on the recorded inferred types) and, for Java, by javac: original accepted and erased
                 rejected is a violation (structured stream: one grouped javac run over the programs
                 whose Java text changed, every program in a package of its own, stopped after flow
                 analysis; a rejection is confirmed by a complete javac run of the pair);
             (d) a plain-Python restatement of the feasibility criterion by reachability closure
                 (`ref_feasible`) judges every recorded answer independently of the model;
             and on every program of the structured stream
             (e) the INFERENCE ORACLE harness/c03_oracle.py: a type checker with local inference over
                 the by-value export of the erased program that knows nothing of the type graph —
                 an omitted declared type must be synthesisable from the initializer / body without
                 an expected type, omitted type arguments must be determined by the arguments or by
                 an expected type that is still present (none in receiver position, in operands, in
                 the initializer of a declaration whose type is omitted too), and the program must
                 type check with what was inferred; `cannot-infer` / `ill-typed` is a violation whose
                 signature is the SHAPE (construct : position path : missing source) and whose replay
                 carries the descriptor, the by-value program, the language, the combinations
                 applied and the texts;
             (f) for Kotlin, a text-level restatement on the real translation of the erased program
                 (nothing re-inserted): a receiver `A()`, `mk()`, `x.make()` … without type arguments,
                 or a declaration without type whose whole initializer is such an expression, has no
                 inferable type argument.
             The construction of the type graph (TypeDependencyAnalysis) is NOT modelled in Lean: the
             model reads the graph the code built; defects of the construction are what (c), (e), (f)
             are for (seeded/C03-1 and C03-2 were missed before the structured stream existed).
env        : C03_N / C03_BUDGET (generated stream), C03_FAMILY_RANDOM (random compositions),
             C03_FAMILY_ONLY=<name prefix> (debug: part of the structured stream), C03_LANGS.
"""
import itertools
import json
import os
import shutil
import subprocess
import tempfile
import time
from concurrent.futures import ThreadPoolExecutor

import common
import pipeline
import c03_family
import c03_oracle

LEVEL = "proof"
LANGS = ("java", "kotlin", "groovy", "scala")

# child groups of each node kind: (group number, key); the same numbering as Heph.Mut.mapN
GROUPS = {
    "block": [(0, "body")], "super": [(0, "args")], "class": [(0, "fields"), (1, "supers"), (2, "funcs")],
    "var": [(0, "expr")], "arg": [(0, "expr")], "param": [(0, "default")], "func": [(0, "params"), (1, "body")],
    "lambda": [(0, "params"), (1, "body")], "funcref": [(0, "receiver")], "array": [(0, "exprs")], "is": [(0, "e")],
    "binop": [(0, "l"), (1, "r")], "cond": [(0, "c"), (1, "t"), (2, "f")], "new": [(0, "args")],
    "fieldaccess": [(0, "e")], "call": [(0, "args"), (1, "receiver")], "assign": [(0, "expr"), (1, "receiver")],
}
TYPE_KEYS = {"t", "varType", "inferred", "retType", "signature", "ty"}
TYPE_LIST_KEYS = {"tparams", "targs"}


# ------------------------------------------------------------------ by-value types
class Interner:
    """structural identity of exported types across type tables"""

    def __init__(self):
        self.ids = {}

    def table(self, tt):
        out = []
        for e in tt:
            key = []
            for k in sorted(e):
                v = e[k]
                if k in ("sups", "params", "args"):
                    v = tuple(out[i] for i in v)
                elif k in ("bound", "con"):
                    v = None if v is None else out[v]
                key.append((k, v))
            key = tuple(key)
            out.append(self.ids.setdefault(key, len(self.ids)))
        return out


def node_at(export, path):
    """the node dict at a root-first path [[group, index], …]"""
    cur = {"n": "@root", "decls": export["decls"]}
    for g, i in path:
        if cur["n"] == "@root":
            cur = cur["decls"][i]
            continue
        key = dict(GROUPS[cur["n"]])[g]
        v = cur[key]
        cur = v[i] if isinstance(v, list) else v
    return cur


def py_erasure_diff(before, after):
    """independent by-value walk: (sites, None) if `after` is `before` with only declared
    variable types / declared return types removed and can_infer flags set, else (None, path)"""
    it = Interner()
    tb, ta = it.table(before["tt"]), it.table(after["tt"])
    sites = []

    class Bad(Exception):
        pass

    def ty(tab, v):
        return None if v is None else tab[v]

    def walk(a, b, path):
        if a is None or b is None:
            if a is not b:
                raise Bad(path)
            return
        if a["n"] != b["n"] or set(a) != set(b):
            raise Bad(path)
        kind = a["n"]
        groups = dict((k, g) for g, k in GROUPS.get(kind, []))
        for key in a:
            if key in groups:
                continue
            x, y = a[key], b[key]
            if key in TYPE_KEYS:
                x, y = ty(tb, x), ty(ta, y)
            elif key in TYPE_LIST_KEYS:
                x, y = [ty(tb, v) for v in x], [ty(ta, v) for v in y]
            if x == y:
                continue
            if kind == "var" and key == "varType" and x is not None and y is None:
                sites.append([path, ["varType"]])
            elif kind == "func" and key == "retType" and x is not None and y is None:
                sites.append([path, ["retType"]])
            elif kind == "new" and key == "canInfer" and x is False and y is True and \
                    before["tt"][a["t"]]["k"] == "p":
                sites.append([path, ["newInfer"]])
            elif kind == "call" and key == "canInfer" and x is False and y is True and a["targs"]:
                sites.append([path, ["callInfer"]])
            else:
                raise Bad(path)
        for g, key in GROUPS.get(kind, []):
            x, y = a[key], b[key]
            if isinstance(x, list) or isinstance(y, list):
                if not (isinstance(x, list) and isinstance(y, list)) or len(x) != len(y):
                    raise Bad(path)
                for i, (u, v) in enumerate(zip(x, y)):
                    walk(u, v, path + [[g, i]])
            else:
                walk(x, y, path + [[g, 0]])

    try:
        if before["lang"] != after["lang"] or before["context"] != after["context"] or \
                len(before["decls"]) != len(after["decls"]):
            raise Bad([])
        for i, (u, v) in enumerate(zip(before["decls"], after["decls"])):
            walk(u, v, [[0, i]])
    except Bad as e:
        return None, e.args[0]
    return sites, None


MAX_PER_SIGNATURE = 5


FAMILY_CTX = {}     # (name, lang) -> the concrete program of a structured-stream spec (for replays)


def report(run, obj, signature, no_input=False):
    """run.violation, at most MAX_PER_SIGNATURE replays per signature (the rest is counted); an
    alarm on a program of the structured stream carries the concrete program: by-value export,
    language, the combinations applied, the erased sites and the texts"""
    c = run.cov.setdefault("alarms_by_signature", {})
    c[signature] = c.get(signature, 0) + 1
    if c[signature] <= MAX_PER_SIGNATURE:
        sp = obj.get("spec") if isinstance(obj, dict) else None
        if isinstance(sp, dict) and "family" in sp:
            obj = dict(obj, **FAMILY_CTX.get((sp.get("name"), sp.get("lang")), {}))
        run.violation(obj, signature=signature, no_input=no_input)


def canon_sites(sites):
    return sorted(json.dumps(s) for s in sites)


# ------------------------------------------------------------------ reference feasibility
def ref_remove(nodes, g, comb):
    """the declared type information that omitting `comb` removes (dict g is updated);
    returns None or the name of the exception the dictionary accesses raise"""
    for n in comb:
        if n not in g:
            return "AssertionError"
        k = nodes[n]["k"]
        if k == "decl":
            kept = []
            for (t, d) in list(g[n]):
                if not d:
                    kept.append((t, d))
                elif nodes[t]["k"] == "instdecl":
                    if t not in g:
                        return "KeyError"
                    for (tv, _) in list(g[t]):
                        g[tv] = []
                    g[t] = []
            g[n] = kept
        elif k == "instcall":
            for (tv, _) in list(g[n]):
                if tv not in g:
                    return "KeyError"
                g[tv] = [(t, d) for (t, d) in g[tv] if not d]
    return None


def ref_reach(g, s):
    """nodes other than s reachable from s in one or more steps"""
    seen, todo = set(), [t for (t, _) in g.get(s, [])]
    while todo:
        x = todo.pop()
        if x in seen:
            continue
        seen.add(x)
        todo.extend(t for (t, _) in g.get(x, []))
    seen.discard(s)
    return seen


def ref_verify(nodes, g, comb):
    def same(a, b):
        return a != "other" and b != "other" and a == b
    removed = {nodes[n]["id"] for n in comb if nodes[n]["k"] == "decl"}
    for n in comb:
        if nodes[n]["k"] != "decl":
            continue
        for m in ref_reach(g, n):
            if nodes[m]["k"] in ("type", "instcall", "instdecl") and not same(nodes[m]["tc"], nodes[n]["tc"]):
                return False
    for n in comb:
        if nodes[n]["k"] != "instcall":
            continue
        for (tv, _) in g[n]:
            if nodes[tv]["k"] == "decl":
                return "AttributeError"
            a = nodes[n].get("asg", {}).get(str(tv), "!KeyError")
            if isinstance(a, str) and a.startswith("!"):
                return a[1:]
            ok = False
            for m in ref_reach(g, tv):
                nd = nodes[m]
                if nd["k"] == "type" and same(nd["tc"], a) and not (nd.get("pid") and nd["pid"] in removed):
                    ok = True
                    break
            if not ok:
                return False
    return True


def ref_feasible(nodes, g, comb):
    e = ref_remove(nodes, g, comb)
    if e is not None:
        return e
    return ref_verify(nodes, g, comb)


def edges_dict(edges):
    return {k: [(t, bool(d)) for t, d in es] for k, es in edges}


def ref_function(fn):
    """reference answers for one recorded function: singles (cumulative), combos (filtered graph),
    extras (graph as built)"""
    nodes = fn["nodes"]
    g = edges_dict(fn["edges"])
    singles = []
    for n in fn["omittable"][:len(fn["singles"])]:
        singles.append(ref_feasible(nodes, g, [n]))
    post = [ref_feasible(nodes, dict(g), list(q[1])) for q in fn["combos"]]
    extra = [ref_feasible(nodes, edges_dict(fn["edges"]), list(q[0])) for q in fn.get("extra", [])]
    kept = [n for n, a in zip(fn["omittable"], singles) if a is True]
    return singles, post, extra, kept


# ------------------------------------------------------------------ compilers / checker
def javac(text):
    d = tempfile.mkdtemp(prefix="c03jc_")
    try:
        with open(os.path.join(d, "Main.java"), "w") as f:
            f.write(text)
        p = subprocess.run(["javac", "-nowarn", "-Xmaxerrs", "0", "-d", os.path.join(d, "out"),
                            os.path.join(d, "Main.java")], stdout=subprocess.PIPE, stderr=subprocess.STDOUT,
                           text=True, timeout=600)
        return p.returncode, p.stdout[-8000:].replace(d + "/", "")
    except subprocess.TimeoutExpired:
        raise common.HarnessError("javac timeout")
    finally:
        shutil.rmtree(d, ignore_errors=True)


SEP_DRIVER = """import javax.tools.*;
import java.io.*;
import java.nio.file.*;
import java.util.*;
public class SepCompile {
  public static void main(String[] a) throws Exception {
    JavaCompiler jc = ToolProvider.getSystemJavaCompiler();
    for (String f : a) {
      Path out = Files.createTempDirectory("sep");
      ByteArrayOutputStream err = new ByteArrayOutputStream();
      int rc = jc.run(null, err, err, "-nowarn", "-Xmaxerrs", "0", "-d", out.toString(), f);
      System.out.println(f + "\t" + rc + "\t" + Base64.getEncoder().encodeToString(err.toByteArray()));
    }
  }
}
"""


def javac_many(texts):
    """[(exit status, diagnostics)] of javac for each text, every text compiled on its own (as
    `Main.java` in a directory of its own) by ONE JVM through javax.tools: the same compiler as
    the `javac` command, without a JVM start per file"""
    import base64
    uniq = sorted(set(texts))
    if not uniq:
        return []
    if len(uniq) == 1:
        r = javac(uniq[0])
        return [r for _ in texts]
    d = tempfile.mkdtemp(prefix="c03jb_")
    try:
        paths = []
        for i, t in enumerate(uniq):
            os.makedirs(os.path.join(d, str(i)))
            paths.append(os.path.join(d, str(i), "Main.java"))
            with open(paths[-1], "w") as f:
                f.write(t)
        drv = os.path.join(d, "SepCompile.java")
        with open(drv, "w") as f:
            f.write(SEP_DRIVER)
        try:
            p = subprocess.run(["java", "-Djava.io.tmpdir=" + d, drv] + paths, stdout=subprocess.PIPE,
                               stderr=subprocess.PIPE, text=True, timeout=900)
        except subprocess.TimeoutExpired:
            raise common.HarnessError("javac (batch) timeout")
        res = {}
        for line in p.stdout.splitlines():
            parts = line.split("\t")
            if len(parts) == 3 and parts[0] in paths:
                i = paths.index(parts[0])
                out = base64.b64decode(parts[2]).decode("utf-8", "replace")
                res[uniq[i]] = (int(parts[1]), out[-8000:].replace(os.path.dirname(parts[0]) + "/", ""))
        if p.returncode != 0 or len(res) != len(uniq):
            raise common.HarnessError("javac (batch) failed: rc=%d %s" % (p.returncode, p.stderr[-400:]))
        return [res[t] for t in texts]
    finally:
        shutil.rmtree(d, ignore_errors=True)


def javac_grouped(texts):
    """[(exit status, diagnostics)] for Java texts that all declare DIFFERENT packages: compiled
    together by one javac process (the files cannot see each other's package-private classes, so a
    file is accepted together iff it is accepted alone); the files without a diagnostic of a failing
    round are compiled again without the failing ones, until a round succeeds — that round is the
    verdict `accepted` of its files.  The compiler stops after flow analysis (no class files): every
    diagnostic of attribution and flow is produced; a rejection found this way is confirmed by a complete
    javac run of the pair before it is reported (judge_javac)"""
    import re
    if not texts:
        return []
    d = tempfile.mkdtemp(prefix="c03jg_")
    try:
        paths = []
        for i, t in enumerate(texts):
            os.makedirs(os.path.join(d, "s%d" % i))
            paths.append(os.path.join(d, "s%d" % i, "Main.java"))
            with open(paths[-1], "w") as f:
                f.write(t)
        res = [None] * len(texts)
        todo = list(range(len(texts)))
        for _round in range(6):
            if not todo:
                break
            out_dir = os.path.join(d, "out%d" % _round)
            try:
                p = subprocess.run(["javac", "-J-XX:TieredStopAtLevel=1", "-J-XX:+UseSerialGC", "-XDshould-stop.ifNoError=FLOW",
                                    "-nowarn", "-Xmaxerrs", "100000", "-d", out_dir] + [paths[i] for i in todo],
                                   stdout=subprocess.PIPE, stderr=subprocess.STDOUT, text=True, timeout=900)
            except subprocess.TimeoutExpired:
                raise common.HarnessError("javac (grouped) timeout")
            if p.returncode == 0:
                for i in todo:
                    res[i] = (0, "")
                todo = []
                break
            diag, cur = {}, None
            for line in p.stdout.splitlines():
                m = re.match(r"^(.*?/s(\d+)/Main\.java):\d+: (?:error|warning):", line)
                if m:
                    cur = int(m.group(2))
                if cur is not None:
                    diag.setdefault(cur, []).append(line.replace(os.path.dirname(paths[cur]) + "/", ""))
            bad = [i for i in todo if any(": error:" in l for l in diag.get(i, []))]
            if not bad:
                raise common.HarnessError("javac (grouped) failed without a per-file diagnostic: " + p.stdout[-600:])
            for i in bad:
                res[i] = (1, "\n".join(diag[i])[-8000:])
            todo = [i for i in todo if i not in bad]
        if todo:
            raise common.HarnessError("javac (grouped): no verdict after 6 rounds for %d files" % len(todo))
        return res
    finally:
        shutil.rmtree(d, ignore_errors=True)


def checker_available():
    a = common.run_driver([{"op": "check.wt"}])[0]
    return not ("error" in a and "unknown op" in a["error"])


def java_diag_lines(out):
    return [l for l in out.splitlines() if ": error:" in l]


def diamond_context(export, sites):
    """IR shape: is an erased constructor call (`new C<>(…)`) a direct branch of a conditional?"""
    conds = {}
    for path, field in sites or []:
        if field[0] != "newInfer" or len(path) < 2:
            continue
        parent = node_at(export, path[:-1])
        if parent["n"] == "cond" and path[-1][0] in (1, 2):
            conds.setdefault(json.dumps(path[:-1]), set()).add(path[-1][0])
    if any(len(v) == 2 for v in conds.values()):
        return "diamond-in-both-branches-of-conditional"
    if conds:
        return "diamond-in-conditional-branch"
    return None


def erased_java_shape(gen_text, erase_text, out, export=None, sites=None):
    """shape signature of an erased Java program that javac rejects although it accepted the
    original: the class of the diagnostics, and the context — from the IR when an erased
    constructor call is a branch of a conditional, else from the source line of the diagnostic"""
    lines = erase_text.splitlines()
    ctxs, classes = set(), set()
    for l in java_diag_lines(out):
        try:
            ln = int(l.split(":")[1])
            src = lines[ln - 1]
        except (ValueError, IndexError):
            src = ""
        msg = l.split(": error:", 1)[1].strip()
        if "incompatible types" in msg:
            cls = "incompatible-types"
        elif "cannot infer type arguments" in msg:
            cls = "cannot-infer-type-arguments"
        elif "cannot be applied" in msg or "no suitable" in msg:
            cls = "no-suitable-method"
        else:
            cls = "other:" + msg.split(";")[0][:40]
        classes.add(cls)
        ctxs.add("diamond" if "<>" in src else "no-diamond")
    ir = diamond_context(export, sites) if export is not None else None
    ctx = ir if ir is not None and "diamond" in ctxs else "+".join(sorted(ctxs))
    return "java:erased:%s:%s:javac-rejects" % (ctx, "+".join(sorted(classes)))


# ------------------------------------------------------------------ pipeline
def make_specs(run, n, langs=LANGS, stages=("gen", "erase"), cap=60, base=None):
    specs = []
    sws = pipeline.all_switch_settings()
    for i in range(n):
        lang = langs[i % len(langs)]
        specs.append({"lang": lang, "seed": run.rng.randrange(1, 10 ** 6) if base is None else base + i,
                      "switches": list(run.rng.choice(sws)) if base is None and run.rng.random() < 0.3 else [0, 0, 0, 0],
                      "max_depth": 6, "stages": list(stages), "export": True,
                      "translate": ["java"] if lang == "java" else None, "cap": cap,
                      "plugins": ["plugin_tda"], "erasure_options": {}})
    return specs


def _stream_worker(specs, counter, lock, outdir):
    import pickle
    pipeline._worker_init()
    while True:
        with lock:
            i = counter.value
            counter.value += 1
        if i >= len(specs):
            return
        try:
            r = run_spec(specs[i])
        except BaseException as e:  # noqa: BLE001  (reported as data; the worker goes on)
            r = {"spec": specs[i], "stages": {}, "exception": {"type": "worker:" + type(e).__name__, "msg": str(e)[:300]}}
        tmp = os.path.join(outdir, "%d.tmp" % i)
        with open(tmp, "wb") as f:
            pickle.dump(r, f, protocol=4)
        os.rename(tmp, os.path.join(outdir, "%d.pkl" % i))


def stream_results(run, specs, budget_s, workers=None):
    """the real pipeline in forked worker processes; results are yielded as they arrive (a slow
    program does not hold back the others) until the wall-clock budget is used; the rest is
    counted.  Results travel through files and the workers are killed at the deadline: no pipe
    can block, whatever a worker is doing."""
    import multiprocessing as mp
    import pickle
    import signal
    t0 = time.time()
    if len(specs) <= 2:
        for sp in specs:
            yield run_spec(sp)
        return
    workers = workers or min(12, max(1, (os.cpu_count() or 2) - 4), len(specs))
    ctx = mp.get_context("fork")   # spawn would re-import the main module in every worker
    outdir = tempfile.mkdtemp(prefix="c03pipe_")
    counter, lock = ctx.Value("i", 0), ctx.Lock()
    procs = [ctx.Process(target=_stream_worker, args=(specs, counter, lock, outdir), daemon=True)
             for _ in range(workers)]
    for p in procs:
        p.start()
    seen, n = set(), 0
    try:
        while n < len(specs):
            new = sorted(int(f[:-4]) for f in os.listdir(outdir) if f.endswith(".pkl") and int(f[:-4]) not in seen)
            for i in new:
                seen.add(i)
                path = os.path.join(outdir, "%d.pkl" % i)
                with open(path, "rb") as f:
                    r = pickle.load(f)
                os.unlink(path)
                n += 1
                yield r
            if n >= len(specs):
                break
            if time.time() - t0 > budget_s:
                run.cov["programs_skipped_for_budget"] = len(specs) - n
                break
            if not new:
                if not any(p.is_alive() for p in procs):
                    if not any(f.endswith(".pkl") for f in os.listdir(outdir)):
                        raise common.HarnessError("pipeline workers died with %d of %d results" % (n, len(specs)))
                time.sleep(0.2)
    finally:
        for p in procs:
            if p.is_alive():
                try:
                    os.kill(p.pid, signal.SIGKILL)
                except OSError:
                    pass
        for p in procs:
            p.join(timeout=10)
        shutil.rmtree(outdir, ignore_errors=True)


def spec_key(spec):
    if "family" in spec:
        return {"family": spec["family"], "name": spec["name"], "lang": spec["lang"]}
    return {k: spec[k] for k in ("lang", "seed", "switches", "max_depth", "stages")}


def run_spec(spec):
    """the real pipeline on a generated program, or on the built program of a structured-stream spec"""
    return c03_family.run_family(spec) if "family" in spec else pipeline.run_one(spec)


# ------------------------------------------------------------------ the checks
MODEL_SEARCH_LIMIT = {"quick": 3000, "thorough": 40000}


def graph_requests(run, tt, fns):
    """driver requests of (b) for the recorded functions of one program"""
    reqs, meta, notes = [], [], []
    for fi, fn in enumerate(fns):
        if "nodes" not in fn:
            notes.append("too-big")
            continue
        if fn.get("partial"):
            notes.append("cut-off-inside")
        search = (not fn.get("partial")) and fn["n_combos"] <= MODEL_SEARCH_LIMIT[run.tier]
        if not search and not fn.get("partial"):
            notes.append("search-too-long-for-model")
        reqs.append({"op": "mut.pick", "tt": tt, "nodes": fn["nodes"], "edges": fn["edges"],
                     "omittable": fn["omittable"][:len(fn["singles"])] if fn.get("partial") else fn["omittable"],
                     "max": 500000, "queries": [q[1] for q in fn["combos"]], "search": search})
        meta.append((fi, "pick", search))
        if fn.get("extra"):
            reqs.append({"op": "mut.feasible", "tt": tt, "nodes": fn["nodes"], "edges": fn["edges"],
                         "combinations": [q[0] for q in fn["extra"]]})
            meta.append((fi, "extra", None))
    return reqs, meta, notes


def judge_graphs(run, r, fns, meta, reqs, answers):
    """(b) + (d): model, implementation and reference on every recorded feasibility answer"""
    for (fi, what, search), rq, a in zip(meta, reqs, answers):
        fn = fns[fi]
        if "error" in a:
            raise common.HarnessError("driver error on %s: %s" % (rq["op"], a["error"]))
        m = a["r"]
        rs, rpost, rextra, rkept = ref_function(fn)
        where = {"spec": spec_key(r["spec"]), "function": fn["ns"]}
        if what == "extra":
            impl = [q[1] for q in fn["extra"]]
            for (c, ia), ma, ra in zip(fn["extra"], m, rextra):
                run.count({"graph": len(fn["nodes"]), "comb": len(c), "answer": ia}, nontrivial=len(c) > 1)
                run.cov["traces_validated_against_impl"] += 1
                run.tally("feasible_answers", str(ia))
                judge(run, where, "extra", c, ia, ma, ra, fn)
            continue
        if not isinstance(m, dict):
            # an exception in the pre-filter: the real code must have raised as well
            impl = [q[1] for q in fn["singles"]]
            if not any(isinstance(x, str) for x in impl):
                judge(run, where, "prefilter-exception", [], impl, m, rs, fn)
            continue
        impl_s = [q[1] for q in fn["singles"]]
        for n, ia, ma, ra in zip(fn["omittable"], impl_s, m["singles"], rs):
            run.count({"graph": len(fn["nodes"]), "single": nodes_kind(fn, n), "answer": ia})
            run.cov["traces_validated_against_impl"] += 1
            run.tally("feasible_answers", str(ia))
            judge(run, where, "single(cumulative)", [n], ia, ma, ra, fn)
        for q, ma, ra in zip(fn["combos"], m["post"], rpost):
            run.count({"graph": len(fn["nodes"]), "comb": len(q[1]), "answer": q[2]}, nontrivial=len(q[1]) > 1)
            run.cov["traces_validated_against_impl"] += 1
            run.tally("feasible_answers", str(q[2]))
            judge(run, where, "combination", q[1], q[2], ma, ra, fn)
        if search:
            impl_pick = {"chosen": fn["applied"], "asked": fn["n_combos"]}
            model_pick = {"chosen": m["chosen"], "asked": m["asked"]}
            run.tally("pick", "applied" if fn["applied"] else "nothing-feasible")
            run.tally("pick_asked", str(min(fn["n_combos"], 10)) if fn["n_combos"] < 10 else ">=10")
            if impl_pick != model_pick:
                # independent judge: the first combination, in itertools order over the reference's
                # kept list, that the reference calls feasible
                ref_pick = ref_first(fn, rkept)
                obj = dict(where, what="pick", impl=impl_pick, model=model_pick, reference=ref_pick)
                if ref_pick == impl_pick:
                    run.broken.append({"obligation": "correspondence mut.pick", "detail": obj})
                    report(run, obj, signature="C03:model-disagrees:pick", no_input=True)
                else:
                    report(run, obj, signature="C03:pick:not-first-feasible-largest-first")


def nodes_kind(fn, n):
    return fn["nodes"][n]["k"]


def ref_first(fn, kept, limit=200000):
    nodes = fn["nodes"]
    g = edges_dict(fn["edges"])
    for n in fn["omittable"]:
        ref_feasible(nodes, g, [n])
    i = 0
    for r in range(len(kept), 0, -1):
        for c in itertools.combinations(kept, r):
            if i > 500000 or i >= limit:
                return {"chosen": None, "asked": i}
            i += 1
            if ref_feasible(nodes, dict(g), list(c)) is True:
                return {"chosen": list(c), "asked": i}
    return {"chosen": None, "asked": i}


def judge(run, where, phase, comb, impl, model, ref, fn):
    if impl == model and impl == ref:
        return
    obj = dict(where, what="feasible", phase=phase, combination=comb, impl=impl, model=model, reference=ref,
               kinds=[fn["nodes"][n]["k"] for n in comb] if comb else None)
    if impl != ref:
        # the implementation's answer contradicts the declarative criterion
        report(run, obj, signature="C03:feasible:impl-vs-reachability-criterion:%s" % phase)
    if impl != model:
        run.broken.append({"obligation": "correspondence mut.feasible", "detail": obj})
        if impl == ref:
            report(run, obj, signature="C03:model-disagrees:feasible", no_input=True)


def usable(r):
    return "exception" not in r and "erase" in r.get("stages", {})


def judge_diff(run, r, a):
    """(a) for one pipeline result, given the driver's answer to mut.erasure_diff"""
    spec = r["spec"]
    gen, er = r["stages"]["gen"], r["stages"]["erase"]
    if "error" in a:
        raise common.HarnessError("mut.erasure_diff: " + a["error"])
    m = a["r"]
    psites, pbad = py_erasure_diff(gen["export"], er["export"])
    where = {"spec": spec_key(spec), "what": "erasure_diff"}
    run.cov["traces_validated_against_impl"] += 1
    if "sites" in m:
        kinds = [s[1][0] for s in m["sites"]]
        for k in kinds:
            run.tally("sites", k)
        run.count({"lang": spec["lang"], "sites": len(kinds), "kinds": sorted(set(kinds))}, nontrivial=bool(kinds))
        if any(k not in ("varType", "retType", "newInfer", "callInfer") for k in kinds):
            report(run, dict(where, model=m), signature="C03:diff:site-of-unexpected-kind")
        if psites is None or canon_sites(psites) != canon_sites(m["sites"]):
            obj = dict(where, model=m, reference={"sites": psites, "bad": pbad})
            run.broken.append({"obligation": "erasureDiff vs by-value walk", "detail": obj})
            report(run, obj, signature="C03:model-disagrees:erasure_diff", no_input=True)
        fns = r.get("plugins", {}).get("plugin_tda", {}).get("erase", {}).get("functions", [])
        eff = sum(len(f["effect"]) for f in fns)
        if "cutoff" not in r and eff != len(kinds):
            run.tally("effect_vs_sites", "differs")
            obj = dict(where, sites=len(kinds), applied_effects=eff)
            report(run, obj, signature="C03:diff:sites-differ-from-applied-combinations")
        else:
            run.tally("effect_vs_sites", "equal")
        if er.get("is_transformed") is False and kinds:
            report(run, dict(where, note="is_transformed False but program changed"),
                          signature="C03:diff:changed-without-is_transformed")
    else:
        obj = dict(where, model=m, reference={"sites": psites, "bad": pbad})
        if psites is None:
            report(run, obj, signature="C03:diff:not-an-erasure")
        else:
            run.broken.append({"obligation": "erasureDiff vs by-value walk", "detail": obj})
            report(run, obj, signature="C03:model-disagrees:erasure_diff", no_input=True)


def judge_javac(run, r, jres, sites=None):
    """(c) for one Java program: `jres` = javac verdicts of the original and of the erased text"""
    g, e = r["stages"]["gen"]["texts"]["java"], r["stages"]["erase"]["texts"]["java"]
    (rc_g, out_g), (rc_e, out_e) = jres
    run.tally("javac", "%s/%s%s" % ("orig-ok" if rc_g == 0 else "orig-rejected",
                                   "erased-ok" if rc_e == 0 else "erased-rejected",
                                   "" if g != e else "(same text)"))
    run.count({"javac": [rc_g == 0, rc_e == 0], "changed": g != e, "spec": spec_key(r["spec"])}, nontrivial=g != e)
    if rc_g == 0 and rc_e != 0 and "family" in r["spec"] and \
            sum(v for k, v in run.cov.get("javac", {}).items() if k.startswith("confirmed-alone")) < 3:
        # the grouped compile stops after flow analysis: the first rejections of a run are confirmed with
        # the complete compiler, each text alone (a JVM start each: not for every one of a series)
        (rc_g, out_g), (rc_e, out_e) = javac(g), javac(e)
        run.tally("javac", "confirmed-alone:%s/%s" % (rc_g == 0, rc_e == 0))
    if rc_g == 0 and rc_e != 0:
        sig = erased_java_shape(g, e, out_e, r["stages"]["gen"]["export"], sites)
        report(run, {"spec": spec_key(r["spec"]), "what": "erased Java program rejected by javac",
                       "javac": java_diag_lines(out_e)[:5], "javac_tail": out_e[-1500:]}, signature="C03:" + sig)


def wt_ok(a):
    return a["r"] == "ok"


def judge_checker(run, r, a_e, a_g):
    if "error" in a_e or "error" in a_g:
        run.tally("check.wt", "driver-error")
        return
    ok_e, ok_g = wt_ok(a_e), wt_ok(a_g)
    run.tally("check.wt", "%s/%s" % ("orig-ok" if ok_g else "orig-rejected", "erased-ok" if ok_e else "erased-rejected"))
    if ok_g and not ok_e:
        report(run, {"spec": spec_key(r["spec"]), "what": "erased program rejected by check.wt (inference mode)",
                       "answer": a_e["r"]}, signature="C03:%s:erased:check.wt-rejects" % r["spec"]["lang"])


# ------------------------------------------------------------------ structured stream: specification-side judges
def family_context(r, sites):
    """the concrete program of a structured-stream result, for replays"""
    fns = r.get("plugins", {}).get("plugin_tda", {}).get("erase", {}).get("functions", [])
    applied = []
    for fn in fns:
        if fn.get("applied") and "nodes" in fn:
            applied.append({"function": fn["ns"], "combination": [fn["nodes"][i]["s"] for i in fn["applied"]],
                            "changed_the_program": [fn["nodes"][i]["s"] for i in fn["effect"]]})
    texts = {}
    for st in ("gen", "erase"):
        for l, t in (r["stages"][st].get("texts") or {}).items():
            texts["%s_%s" % (st, l)] = t[-3000:]
    return {"lang": r["spec"]["lang"], "program": r["stages"]["gen"]["export"], "applied": applied,
            "erased_sites": sites, "texts": texts}


def judge_oracle(run, r):
    """the erased program, read by a type checker with local inference that knows nothing of the type
    graph: every omitted annotation must be derivable from what is still there"""
    gen, er = r["stages"]["gen"]["export"], r["stages"]["erase"]["export"]
    g, e = c03_oracle.judge(gen), c03_oracle.judge(er)
    run.tally("infer_oracle(original/erased)", "%s/%s" % (g["verdict"], e["verdict"]))
    run.count({"oracle": [g["verdict"], e["verdict"]], "name": r["spec"].get("name", "").split("/")[0]},
              nontrivial=bool(e.get("inferred")))
    if g["verdict"] == "outside" or e["verdict"] == "outside":
        return
    if g["verdict"] != "ok":
        raise common.HarnessError("the inference oracle rejects the ORIGINAL program %s (%s): %s"
                                  % (r["spec"].get("name"), r["spec"]["lang"], g))
    if e["verdict"] != "ok":
        report(run, {"spec": spec_key(r["spec"]), "what": "an omitted annotation is not what a compiler infers "
                     "from the remaining program", "oracle": e},
               signature="C03:infer-oracle:%s:%s" % (e["verdict"], e["shape"]))
        return
    # recorded types: an omitted declared type that is re-inferred differently is counted (the program
    # still type checks with the inferred one, or the verdict would not be ok)
    for path, t in e["inferred"].items():
        run.tally("infer_oracle_types", "inferred" if path not in g["inferred"] else "was-never-declared")


KT_RET_ONLY = r"(?:mk|mkA|mkB)\(\)"              # universe functions whose type parameter occurs only in the result
KT_RET_ONLY_M = r"\.(?:make|mkAm)\(\)"
KT_NOARG_NEW = r"A\(\)"


def kotlin_text_alarms(text):
    """text-level restatement for the Kotlin translation of a structured-stream program (fixed universe):
    nothing is re-inserted, so (a) a receiver `A()`, `mk()`, `mkA()`, `mkB()`, `x.make()`, `x.mkAm()`
    without type arguments has no inferable type argument (a receiver has no expected type), (b) a
    declaration / expression-bodied function without declared type whose whole initializer is such an
    expression (or a conditional with such a branch) has none either"""
    import re
    alarms = []
    lines = text.splitlines()
    for i, l in enumerate(lines):
        st = l.strip()
        for m in re.finditer(r"(?<![\w.>])(%s|%s)\." % (KT_NOARG_NEW, KT_RET_ONLY), st):
            alarms.append("receiver-without-type-arguments:" + m.group(1))
        for m in re.finditer(r"(%s)\." % KT_RET_ONLY_M, st):
            alarms.append("receiver-without-type-arguments:" + m.group(1))
        rhs = None
        m = re.match(r"(?:val|var) \w+ = (.*)$", st)
        if m:
            rhs, ctx = m.group(1), "untyped-declaration"
        elif re.match(r"fun (?:<[^>]*>)?\w+\([^)]*\) =$", st) and i + 1 < len(lines):
            rhs, ctx = lines[i + 1].strip(), "untyped-expression-body"
        if rhs is None:
            continue
        parts = [rhs]
        m = re.match(r"\(?if \((.*?)\)\s+(.*?)\s+else\s+(.*?)\)?$", rhs)
        if m:
            parts = [m.group(2), m.group(3)]
        for p_ in parts:
            p_ = p_.strip()
            if re.match(r"^(?:%s|%s)$" % (KT_NOARG_NEW, KT_RET_ONLY), p_) or re.match(r"^[^<]*%s$" % KT_RET_ONLY_M, p_) \
                    and not re.search(r"<", p_.rsplit(".", 1)[-1]):
                alarms.append("%s:%s" % (ctx, re.sub(r"^.*\.", ".", p_) if "." in p_ else p_))
    return sorted(set(alarms))


def judge_kotlin_text(run, r):
    g = (r["stages"]["gen"].get("texts") or {}).get("kotlin")
    e = (r["stages"]["erase"].get("texts") or {}).get("kotlin")
    if g is None or e is None:
        return
    ag, ae = kotlin_text_alarms(g), kotlin_text_alarms(e)
    run.tally("kotlin_text", "changed" if g != e else "same")
    run.count({"kotlin_text": r["spec"].get("name"), "alarms": ae}, nontrivial=g != e)
    if ag:
        raise common.HarnessError("the Kotlin text judge rejects the ORIGINAL program %s: %s" % (r["spec"].get("name"), ag))
    for a in ae:
        report(run, {"spec": spec_key(r["spec"]), "what": "Kotlin translation of the erased program: no inferable "
                     "type argument", "alarm": a}, signature="C03:kotlin-text:" + a)



def small_streams(run):
    """structured stream: itertools order of the enumeration, on all small sizes"""
    reqs, impl = [], []
    for n in range(0, 6):
        xs = list(range(10, 10 + n))
        reqs.append({"op": "mut.combos", "xs": xs})
        impl.append([list(c) for r in range(len(xs), 0, -1) for c in itertools.combinations(xs, r)])
    diffs = common.compare_stream(run, reqs, impl, "combinations order")
    for d in diffs:
        run.broken.append({"obligation": "correspondence mut.combos", "detail": d[1]})
        report(run, {"what": "allCombos differs from itertools", "request": d[1]},
                      signature="C03:model-disagrees:combos", no_input=True)


def program_requests(run, r, have_checker):
    """the driver requests of one program: the diff, the recorded graphs, the checker"""
    gen, er = r["stages"]["gen"], r["stages"]["erase"]
    reqs = [{"op": "mut.erasure_diff", "before": gen["export"], "after": er["export"]}]
    p = r.get("plugins", {}).get("plugin_tda", {})
    fns, meta, notes = [], [], []
    if "erase" in p:
        fns = p["erase"]["functions"]
        greqs, meta, notes = graph_requests(run, p["erase"]["tt"], fns)
        reqs += greqs
    if have_checker:
        import check_C01      # the request format of the C01 family (by-value image of the builtin factory)
        reqs.append(check_C01.add_bt(er["export"]))
        reqs.append(check_C01.add_bt(gen["export"]))
    return {"reqs": reqs, "fns": fns, "meta": meta, "notes": notes}


def batch_model(run, batch, have_checker):
    """(worker thread) ONE driver process for all model requests of a batch of programs"""
    t0 = time.time()
    ws = [program_requests(run, r, have_checker) for r in batch]
    answers = common.run_driver([q for w in ws for q in w["reqs"]])
    i = 0
    for w in ws:
        w["answers"] = answers[i:i + len(w["reqs"])]
        i += len(w["reqs"])
    return ws, time.time() - t0


def batch_javac(run, batch):
    """(worker thread) ONE JVM for the Java texts of a batch: per program the verdicts of the
    original and of the erased text"""
    t0 = time.time()
    texts, idx = [], []
    out = [None] * len(batch)
    fam = []
    for k, r in enumerate(batch):
        gen, er = r["stages"]["gen"], r["stages"]["erase"]
        if r["spec"]["lang"] == "java" and gen.get("texts") and er.get("texts"):
            if "family" in r["spec"]:
                fam.append(k)     # every structured-stream program has a package of its own
            else:
                texts += [gen["texts"]["java"], er["texts"]["java"]]
                idx.append(k)
    res = javac_many(texts)
    for j, k in enumerate(idx):
        out[k] = (res[2 * j], res[2 * j + 1])
    if fam:
        g = javac_grouped([batch[k]["stages"]["gen"]["texts"]["java"] for k in fam])
        ch = [k for k in fam if batch[k]["stages"]["erase"]["texts"]["java"] != batch[k]["stages"]["gen"]["texts"]["java"]]
        e = dict(zip(ch, javac_grouped([batch[k]["stages"]["erase"]["texts"]["java"] for k in ch])))
        for j, k in enumerate(fam):
            out[k] = (g[j], e.get(k, g[j]))
    return out, time.time() - t0


def judge_all(run, r, w, jres, have_checker):
    n = 1 + len(w["meta"])
    for note in w["notes"]:
        run.tally("graphs", note)
    fam = "family" in r["spec"]
    if fam:
        d0 = w["answers"][0].get("r")
        FAMILY_CTX[(r["spec"]["name"], r["spec"]["lang"])] = family_context(
            r, d0.get("sites") if isinstance(d0, dict) else None)
        run.tally("structured", r["spec"]["lang"])
    judge_diff(run, r, w["answers"][0])
    judge_graphs(run, r, w["fns"], w["meta"], w["reqs"][1:n], w["answers"][1:n])
    if have_checker:
        judge_checker(run, r, w["answers"][n], w["answers"][n + 1])
    if jres is not None:
        d = w["answers"][0].get("r")
        judge_javac(run, r, jres, d.get("sites") if isinstance(d, dict) else None)
    if fam:
        judge_oracle(run, r)
        judge_kotlin_text(run, r)
        FAMILY_CTX.pop((r["spec"]["name"], r["spec"]["lang"]), None)


def add_time(run, key, dt):
    run.cov[key] = round(run.cov.get(key, 0) + dt, 1)


def run_all(run, specs, budget_s, threads=3, batch_size=8, batch_wait=12):
    """pipeline workers -> batches (threads: one driver process + one JVM per batch) -> judged
    here, in the order of `specs`.  The budget bounds the consumption of pipeline results."""
    t0 = time.time()
    have_checker = checker_available()
    run.cov["check.wt_available"] = have_checker
    if not have_checker:
        run.assumptions.append("driver op check.wt not available: erased programs judged by javac (Java) only")
    pending = []
    n = 0

    def drain(limit):
        while len(pending) > limit:
            batch, fm, fj = pending.pop(0)
            (ws, tm), (js, tj) = fm.result(), fj.result()
            add_time(run, "time_model_s", tm)
            add_time(run, "time_javac_s", tj)
            t1 = time.time()
            for r, w, jres in zip(batch, ws, js):
                judge_all(run, r, w, jres, have_checker)
            add_time(run, "time_judge_s", time.time() - t1)

    with ThreadPoolExecutor(2 * threads) as ex:
        cur, cur_t = [], time.time()

        def flush():
            nonlocal cur, cur_t
            if cur:
                pending.append((cur, ex.submit(batch_model, run, cur, have_checker), ex.submit(batch_javac, run, cur)))
            cur, cur_t = [], time.time()

        for r in stream_results(run, specs, budget_s):
            n += 1
            if "exception" in r:
                run.tally("pipeline", "exception:" + r["exception"]["type"])
                if len(run.cov.setdefault("pipeline_exceptions", [])) < 8:
                    run.cov["pipeline_exceptions"].append({"spec": spec_key(r["spec"]), "exception": {
                        k: str(v)[:300] for k, v in r["exception"].items() if k != "traceback"},
                        "stages_done": sorted(r.get("stages", {}))})
            elif "erase" not in r["stages"]:
                run.tally("pipeline", "cutoff:" + str(r.get("cutoff")))
            else:
                run.tally("pipeline", "ok" if "cutoff" not in r else "cutoff:" + str(r["cutoff"]))
                p = r.get("plugins", {}).get("plugin_tda", {})
                if "error" in p:
                    raise common.HarnessError("plugin_tda failed: " + p["error"])
                if not cur:
                    cur_t = time.time()
                cur.append(r)
            if len(cur) >= batch_size or (cur and time.time() - cur_t > batch_wait):
                flush()
                drain(threads)
            if n % 25 == 0:
                run.log("%d programs through the pipeline at %.0fs" % (n, time.time() - t0))
        flush()
        run.cov["time_pipeline_wall_s"] = round(time.time() - t0, 1)
        drain(0)
    run.cov["programs"] = n
    run.log("%d programs checked at %.0fs" % (n, time.time() - t0))
    if not run.cov.get("pipeline", {}).get("ok"):
        raise common.HarnessError("no program went through the pipeline within the budget (%d results)" % n)


def check(run):
    run.build_and_audit()
    run.cov["rule"] = ("one evaluation = one program diff, one recorded feasibility answer "
                       "(pre-filter / combination / extra), or one javac verdict pair; "
                       "non-trivial = program changed / combination of more than one node")
    small_streams(run)
    corpus = os.path.join(common.VERIF, "corpus", "C03")
    specs = []
    if os.path.isdir(corpus):
        for f in sorted(os.listdir(corpus)):
            specs.append(dict(json.load(open(os.path.join(corpus, f)))["spec"], cap=40 if run.tier == "quick" else 60))
    langs = tuple(os.environ.get("C03_LANGS", ",".join(LANGS)).split(","))
    base = int(os.environ["C03_BASE"]) if "C03_BASE" in os.environ else None   # calibration: seeds base, base+1, …
    structured_stream(run, langs)
    if run.tier == "quick":
        specs += make_specs(run, int(os.environ.get("C03_N", "100")), langs=langs, cap=40, base=base)
        run_all(run, specs, budget_s=int(os.environ.get("C03_BUDGET", "70")))
    else:
        specs += make_specs(run, int(os.environ.get("C03_N", "4000")), langs=langs, cap=60)
        run_all(run, specs, budget_s=int(os.environ.get("C03_BUDGET", "1300")))


def family_javac(rs):
    """javac verdict pairs of the Java programs of the structured stream whose Java text changed (an
    unchanged text has nothing to judge): two grouped compiles, originals and erased texts"""
    t0 = time.time()
    ch = [k for k, r in enumerate(rs) if r["spec"]["lang"] == "java" and r["stages"]["gen"].get("texts")
          and r["stages"]["erase"]["texts"]["java"] != r["stages"]["gen"]["texts"]["java"]]
    with ThreadPoolExecutor(2) as ex:
        fg = ex.submit(javac_grouped, [rs[k]["stages"]["gen"]["texts"]["java"] for k in ch])
        fe = ex.submit(javac_grouped, [rs[k]["stages"]["erase"]["texts"]["java"] for k in ch])
        g, e = fg.result(), fe.result()
    out = [None] * len(rs)
    for j, k in enumerate(ch):
        out[k] = (g[j], e[j])
    return out, time.time() - t0


def structured_stream(run, langs):
    """hand-built programs of the shape grammar (harness/c03_family.py): a FIXED number per tier, the
    exhaustive-small enumeration first, random compositions (run.rng) after.  All programs go through
    the real TypeErasure in worker processes, then the model requests (chunks, one driver process each)
    and ONE pair of grouped javac runs are made in parallel, then every program is judged in order"""
    quick = run.tier == "quick"
    n_random = int(os.environ.get("C03_FAMILY_RANDOM", "60" if quick else "1500"))
    specs = c03_family.family_specs(run.rng, n_random, langs=langs, quick=quick)
    if os.environ.get("C03_FAMILY_ONLY"):
        specs = [sp for sp in specs if sp["name"].startswith(os.environ["C03_FAMILY_ONLY"])]
    t0 = time.time()
    have_checker = checker_available()
    rs = []
    for r in stream_results(run, specs, budget_s=3000):
        if "exception" in r or "cutoff" in r or "erase" not in r.get("stages", {}):
            raise common.HarnessError("structured stream: %s (%s) did not go through TypeErasure: %s" % (
                r["spec"].get("name"), r["spec"]["lang"], r.get("exception", r.get("cutoff"))))
        p = r.get("plugins", {}).get("plugin_tda", {})
        if "error" in p:
            raise common.HarnessError("plugin_tda failed: " + p["error"])
        rs.append(r)
    order = {(sp["name"], sp["lang"]): i for i, sp in enumerate(specs)}
    rs.sort(key=lambda r: order[(r["spec"]["name"], r["spec"]["lang"])])
    t1 = time.time()
    chunk = 100
    with ThreadPoolExecutor(5) as ex:
        fj = ex.submit(family_javac, rs)
        fms = [ex.submit(batch_model, run, rs[i:i + chunk], have_checker) for i in range(0, len(rs), chunk)]
        ws, tm = [], 0.0
        for f in fms:
            w, t = f.result()
            ws += w
            tm += t
        js, tj = fj.result()
    t2 = time.time()
    for r, w, jres in zip(rs, ws, js):
        judge_all(run, r, w, jres, have_checker)
    run.cov["structured_stream"] = {"programs": len(rs), "by_language": run.cov.get("structured"),
                                    "time_pipeline_wall_s": round(t1 - t0, 1), "time_model_s": round(tm, 1),
                                    "time_javac_s": round(tj, 1), "time_model_and_javac_wall_s": round(t2 - t1, 1),
                                    "time_judge_s": round(time.time() - t2, 1), "wall_s": round(time.time() - t0, 1)}
    run.log("structured stream: %d programs in %.0fs" % (len(rs), time.time() - t0))


def replay(run, rp):
    run.build_and_audit()
    if "family" in rp["spec"]:
        sp = rp["spec"]
        run_all(run, [c03_family.make_spec(sp["name"], sp["family"], sp["lang"])], budget_s=600)
        return
    spec = dict(rp["spec"])
    spec.update({"export": True, "translate": ["java"] if spec["lang"] == "java" else None, "cap": 300,
                 "plugins": ["plugin_tda"], "erasure_options": {}})
    run_all(run, [spec], budget_s=600)
